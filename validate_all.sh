#!/bin/bash
# validate_all.sh: the full loudness/silence audit after a change of the machinery: quick sweep over 5 seeds on the unchanged tree,
# every hand-written mutant, every independently seeded change of both rounds.  (thorough tiers: ./sweep.sh "" "0" thorough)
cd "$(dirname "$0")"
./sweep.sh "" "0 1 2 7 1234" quick
./audit_all.sh
./seed_all.sh seeded
./seed_all.sh seeded/round2
./seed_all.sh seeded/round3
./seed_all.sh seeded/round4
./seed_all.sh seeded/round5
./seed_all.sh seeded/round6
./seed_all.sh seeded/round7
