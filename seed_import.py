#!/usr/bin/env python3
"""seed_import.py <round dir> <ID> <agent output dir> "<change>" "<needs to manifest>" [note]

Copies patch.diff / demo.py / notes.md of an independently seeded change into <round dir>/<ID>/, confirms it with seed_confirm.sh
(scratch copy of /repo, 68 baseline tests, demonstration exits 0 on /repo and 1 on the changed copy, the property's quick check
against the changed copy) and writes meta.json from what was observed.  Nothing is written to /repo."""
import json, os, re, shutil, subprocess, sys

VERIF = os.path.dirname(os.path.abspath(__file__))


def main():
    rnd, pid, src, change, needs = sys.argv[1:6]
    note = sys.argv[6] if len(sys.argv) > 6 else ""
    dst = os.path.join(VERIF, rnd, pid)
    os.makedirs(dst, exist_ok=True)
    for f in ("patch.diff", "demo.py", "notes.md"):
        p = os.path.join(src, f)
        if os.path.exists(p):
            shutil.copy(p, os.path.join(dst, f))
    if not os.path.exists(os.path.join(dst, "patch.diff")) or os.path.getsize(os.path.join(dst, "patch.diff")) == 0:
        json.dump({"property": pid, "round": int(re.sub(r"\D", "", rnd) or 1), "note": note or "no change seeded (see notes.md)"},
                  open(os.path.join(dst, "meta.json"), "w"), indent=1)
        print("no patch: recorded as not seeded")
        return
    files = re.findall(r"^\+\+\+ b/(\S+)", open(os.path.join(dst, "patch.diff")).read(), re.M)
    out = subprocess.run([os.path.join(VERIF, "seed_confirm.sh"), pid, dst], capture_output=True, text=True).stdout
    print(out)
    m = re.search(r"tests=\[(.*?)\] demo_clean=(\d+) demo_changed=(\d+) check_exit=(\d+) violation_lines=(\d+)", out)
    head = subprocess.run(["git", "-C", "/repo", "rev-parse", "--short", "HEAD"], capture_output=True, text=True).stdout.strip()
    meta = {
        "property": pid,
        "round": int(re.sub(r"\D", "", rnd) or 1),
        "files_changed": files,
        "change": change,
        "needs_to_manifest": needs,
        "written_by": "fresh sub-agent (20 minute limit) given only the property text, one-line descriptions of the earlier changes and "
                      "a scratch git worktree of /repo (see ../PROMPT.txt); no access to /verif",
        "confirmed": {
            "how": f"./seed_confirm.sh {pid} {rnd}/{pid}  (scratch copy of /repo at {head} under /tmp, patch applied there, copy removed afterwards)",
            "patch_applies": "patch does not apply" not in out,
            "baseline_tests_on_changed_tree": re.sub(r"\s+in [\d.]+s.*", "", m.group(1)).strip("= ") if m else None,
            "demo_exit_on_repo": int(m.group(2)) if m else None,
            "demo_exit_on_changed_tree": int(m.group(3)) if m else None,
            "demo_command": f"PYTHONPATH=/verif/{rnd} /venv/bin/python /verif/{rnd}/{pid}/demo.py <tree>",
        },
        "check_result": {"check": pid, "tier": "quick", "seed": 0, "exit": int(m.group(4)) if m else None,
                         "violation_lines": int(m.group(5)) if m else None},
        "caught_by": [pid] if m and int(m.group(4)) == 1 and int(m.group(5)) > 0 else [],
        "note": note,
    }
    json.dump(meta, open(os.path.join(dst, "meta.json"), "w"), indent=1)


if __name__ == "__main__":
    main()
