#!/bin/bash
# Offline setup: install contract libraries beside the repo's interpreter (git-ignored .deps).
set -e
cd "$(dirname "$0")"
if [ ! -d .deps/icontract ]; then
  PIP_NO_INDEX=1 /venv/bin/pip install -q --no-index --find-links /opt/veriftools/wheels --target .deps icontract deal >/dev/null 2>&1 || \
  PIP_NO_INDEX=1 /venv/bin/pip install --no-index --find-links /opt/veriftools/wheels --target .deps icontract deal
fi
PYTHONPATH=/verif:/verif/.deps:/repo /venv/bin/python -m vf.selftest
