#!/bin/bash
# seed_confirm.sh <ID> <dir with patch.diff demo.py> [check args]: confirm a seeded property-breaking change in a scratch copy of /repo
# (outside /repo and /verif): patch applies, the 68 baseline tests still pass, the demonstration exits 0 on /repo and 1 on the changed
# copy; then run the property's check against the changed copy.  The scratch copy is removed afterwards.
set -u
ID="$1"; DIR="$(readlink -f "$2")"; shift 2
cd "$(dirname "$0")"
SCRATCH="$(mktemp -d /tmp/verif-seedchk-XXXXXX)"
trap 'rm -rf "$SCRATCH"' EXIT
rsync -a --exclude .git --exclude '__pycache__' --exclude '*.egg-info' /repo/ "$SCRATCH/"
if ! patch -s -p1 -d "$SCRATCH" < "$DIR/patch.diff"; then echo "SEED $ID: patch does not apply"; exit 4; fi
T=$(cd "$SCRATCH" && timeout 600 /venv/bin/python -m pytest -q -p no:cacheprovider --continue-on-collection-errors 2>&1 | tail -1)
COMPAT="$(dirname "$DIR")"   # xdsl_compat.py (the import shim the demonstrations use) sits beside the per-property directories
PYTHONPATH="$COMPAT" timeout 900 /venv/bin/python "$DIR/demo.py" /repo >/dev/null 2>&1; D0=$?
PYTHONPATH="$COMPAT" timeout 900 /venv/bin/python "$DIR/demo.py" "$SCRATCH" >/dev/null 2>&1; D1=$?
OUT="$(VERIF_REPO="$SCRATCH" ./check "$ID" --no-evidence "$@" 2>/dev/null)"; RC=$?
NV=$(echo "$OUT" | grep -c "^VIOLATION property=$ID")
echo "SEED $ID tests=[$T] demo_clean=$D0 demo_changed=$D1 check_exit=$RC violation_lines=$NV"
echo "$OUT" | grep -m2 "^VIOLATION" | cut -c1-330
echo "$OUT" | grep -E "verdict=" | cut -c1-200
