"""G-cores: seeded generator of multi-core functions for C14 (dispatch) and C13 (cross-core barriers).

A program is one function

    func.func @main(%A %B %C : memref<8x8xi32>, %V %W : memref<16xi32>, %n0 %n1 : index (trip counts 0..3), %b0 %b1 : i1)

mixing, in any order and at any depth (straight-line, nested scf.for, scf.if with/without else, optionally several blocks
connected by cf.br / cf.cond_br):

  * data-mover ops      memref.copy, and (option `xdma`) dart.operation on accelerator "snax_xdma" with an extension kernel
  * compute ops         linalg.generic (with or without library_call) and dart.operation on "snax_alu" / "snax_gemmx"
  * neutral ops         "test.op" markers on index values and buffers, arith, memref.alloc, memref.subview,
                        and (options) pre-existing snax.cluster_sync_op, memref.dealloc

over a pool of shared buffers: the arguments, allocations and 4x4 subviews of them (offsets constant or induction variables).

Every op that the dispatcher may or may not guard carries the generator's INDEPENDENT classification

    verif.kind = "dm" | "compute" | "all"          and a unique   verif.id = "<prefix><n>"

(`dm` = runs on the data-mover core only, `compute` = runs on the compute core only, `all` = runs on every core).
Nothing in this file looks at snaxc.util.dispatching_rules.

Options of gen_program: `sync_ops` (pre-existing barriers), `dealloc` (memref.dealloc of buffers allocated in the same block),
`xdma` (needs the accelerator "snax_xdma" registered in the context: make_ctx(extra_accelerators={"snax_xdma":
SNAXXDMAAccelerator})), `multi_block` (18% of the programs get 2-4 blocks), `helper` (20% get a second function @helper with the
same signature, called once from @main's entry block; 3% of the modules already declare @snax_cluster_core_idx).
Runtime: execute @main; memref arguments are static (8x8 / 16); %n0 %n1 in 0..3 keep every induction variable <= 2 so that
4x4 subviews with induction-variable offsets stay inside the 8x8 buffers.

API
    prog = gen_program(rng, sync_ops=False, dealloc=False, xdma=True, multi_block=True, helper=True)  -> CoresProgram
    vecs = input_vectors(prog, rng, n)      -> list of {"n0":..,"n1":..,"b0":..,"b1":..}
    CoresProgram.ops                        -> [{"id", "kind", "depth", "reads": [ssa names], "writes": [ssa names]}] in emission order
    ARG_NAMES                               -> argument names in signature order (memrefs first)
"""
from __future__ import annotations

from dataclasses import dataclass, field

T2 = "memref<8x8xi32>"
T1 = "memref<16xi32>"
TS = "memref<4x4xi32, strided<[8, 1], offset: ?>>"
ARG_NAMES = ["A", "B", "C", "V", "W", "n0", "n1", "b0", "b1"]
MEM_ARGS = {"A": T2, "B": T2, "C": T2, "V": T1, "W": T1}

ID2 = "affine_map<(d0, d1) -> (d0, d1)>"
ID1 = "affine_map<(d0) -> (d0)>"
PAR = "#linalg.iterator_type<parallel>"


@dataclass
class CoresProgram:
    text: str
    fname: str = "main"
    ops: list = field(default_factory=list)
    features: set = field(default_factory=set)
    skeleton: str = ""
    multi_block: bool = False


@dataclass
class Buf:
    name: str
    type: str
    cls: str  # "8x8" | "4x4" | "16"
    owned: bool = False  # allocated by this function (may be deallocated)
    depth: int = 0  # nesting depth at which the value was defined
    root: str = ""  # name of the allocation this value is a view of


class _G:
    def __init__(self, rng, sync_ops, dealloc, xdma):
        self.r = rng
        self.n = 0
        self.consts: set = set()
        self.ops: list = []
        self.features: set = set()
        self.skel: list = []
        self.sync_ops = sync_ops
        self.dealloc = dealloc
        self.xdma = xdma
        # per-program mix of op kinds
        self.w_dm = rng.choice([1, 2, 3])
        self.w_cp = rng.choice([1, 2, 3])
        self.w_all = rng.choice([1, 2, 4])

    def fresh(self, p):
        self.n += 1
        return f"%{p}{self.n}"

    def vid(self, p):
        self.n += 1
        return f"{p}{self.n}"

    def cst(self, k):
        self.consts.add(k)
        return f"%c{k}"

    def tag(self, prefix, kind, depth, reads=(), writes=()):
        i = self.vid(prefix)
        self.ops.append({"id": i, "kind": kind, "depth": depth, "reads": list(reads), "writes": list(writes)})
        return f'{{verif.id = "{i}", verif.kind = "{kind}"}}'

    # -- buffers -----------------------------------------------------------------------------
    def pick(self, scope, cls=None):
        c = [b for b in scope["bufs"] if cls is None or b.cls == cls]
        return self.r.choice(c)

    def pick_cls(self, scope):
        classes = sorted({b.cls for b in scope["bufs"]})
        return self.r.choice(classes)

    # -- ops ---------------------------------------------------------------------------------
    def copy(self, scope, ind, depth):
        cls = self.pick_cls(scope)
        s, d = self.pick(scope, cls), self.pick(scope, cls)
        self.skel.append("D")
        return [f'{ind}"memref.copy"({s.name}, {d.name}) {self.tag("d", "dm", depth, [s.name], [d.name])} : ({s.type}, {d.type}) -> ()']

    def generic(self, scope, ind, depth):
        r = self.r
        cls = self.pick_cls(scope)
        nin = r.choice([1, 2])
        ins = [self.pick(scope, cls) for _ in range(nin)]
        out = self.pick(scope, cls)
        rank1 = cls == "16"
        m = ID1 if rank1 else ID2
        its = PAR if rank1 else f"{PAR}, {PAR}"
        lib = r.choice(["", "", ', library_call = "snax_hwpe_mult"', ', library_call = "snax_alu"'])
        if lib:
            self.features.add("library_call")
        args = [self.fresh("x") for _ in range(nin + 1)]
        z = self.fresh("z")
        body_op = f"{z} = arith.muli {args[0]}, {args[-2] if nin == 2 else args[0]} : i32" if r.random() < 0.5 else f"{z} = arith.addi {args[0]}, {args[0]} : i32"
        names = [b.name for b in ins] + [out.name]
        types = [b.type for b in ins] + [out.type]
        self.skel.append("K")
        return [
            f'{ind}"linalg.generic"({", ".join(names)}) <{{indexing_maps = [{", ".join([m] * (nin + 1))}], iterator_types = [{its}], '
            f"operandSegmentSizes = array<i32: {nin}, 1>{lib}}}> ({{",
            f"{ind}^bb0({', '.join(a + ' : i32' for a in args)}):",
            f"{ind}  {body_op}",
            f'{ind}  "linalg.yield"({z}) : (i32) -> ()',
            f'{ind}}}) {self.tag("k", "compute", depth, [b.name for b in ins], [out.name])} : ({", ".join(types)}) -> ()',
        ]

    def dart(self, scope, ind, depth, acc, kind):
        cls = self.pick_cls(scope)
        a, b, o = self.pick(scope, cls), self.pick(scope, cls), self.pick(scope, cls)
        m = ID1 if cls == "16" else ID2
        s = [self.fresh("s") for _ in range(3)]
        x = [self.fresh("x") for _ in range(3)]
        g, k = self.fresh("g"), self.fresh("kr")
        st = "!dart.stream<i32>"
        self.features.add("dart:" + acc)
        self.skel.append("X" if kind == "dm" else "A")
        return [
            f'{ind}"dart.operation"({a.name}, {b.name}, {o.name}) <{{patterns = [{m}, {m}, {m}], accelerator = "{acc}", operandSegmentSizes = array<i32: 2, 1>}}> ({{',
            f"{ind}^bb0({', '.join(v + ' : ' + st for v in s)}):",
            f'{ind}  {g} = "dart.generic"({s[0]}, {s[1]}) <{{library_call = "{acc}"}}> ({{',
            f"{ind}  ^bb1({', '.join(v + ' : i32' for v in x)}):",
            f"{ind}    {k} = kernel.add {x[0]}, {x[1]} : i32, i32 -> i32",
            f"{ind}    dart.yield {k} : i32",
            f"{ind}  }}) : ({st}, {st}) -> {st}",
            f"{ind}  dart.yield {g} : {st}",
            f'{ind}}}) {self.tag("a", kind, depth, [a.name, b.name], [o.name])} : ({a.type}, {b.type}, {o.type}) -> ()',
        ]

    def marker(self, scope, ind, depth):
        r = self.r
        names, types, reads = [], [], []
        for _ in range(r.choice([0, 1, 1, 2])):
            v = r.choice(scope["idx"]) if scope["idx"] and r.random() < 0.8 else self.cst(r.randrange(0, 4))
            names.append(v)
            types.append("index")
        if r.random() < 0.5:
            b = self.pick(scope)
            names.append(b.name)
            types.append(b.type)
            reads.append(b.name)
        self.skel.append("m")
        return [f'{ind}"test.op"({", ".join(names)}) {self.tag("m", "all", depth, reads, reads)} : ({", ".join(types)}) -> ()']

    def neutral(self, scope, ind, depth):
        r = self.r
        k = r.random()
        if k < 0.5:
            return self.marker(scope, ind, depth)
        if k < 0.62:
            v = self.fresh("p")
            a = r.choice(scope["idx"]) if scope["idx"] else self.cst(1)
            scope["idx"].append(v)
            self.skel.append("p")
            return [f"{ind}{v} = arith.addi {a}, {self.cst(r.randrange(0, 3))} : index"]
        if k < 0.74:
            v = self.fresh("buf")
            t, cls = (T2, "8x8") if r.random() < 0.7 else (T1, "16")
            scope["bufs"].append(Buf(v, t, cls, True, depth, v))
            scope["local"].add(v)
            self.skel.append("a")
            return [f'{ind}{v} = memref.alloc() {self.tag("al", "all", depth, [], [v])} : {t}']
        if k < 0.9:
            src = self.pick(scope, "8x8")
            offs = []
            for _ in range(2):
                small = [i for i in scope["small_idx"]]
                offs.append(r.choice(small) if small and r.random() < 0.6 else self.cst(r.randrange(0, 5)))
            v = self.fresh("sv")
            scope["bufs"].append(Buf(v, TS, "4x4", False, depth, src.root))
            self.features.add("subview")
            self.skel.append("s")
            return [f"{ind}{v} = memref.subview {src.name}[{offs[0]}, {offs[1]}] [4, 4] [1, 1] : {src.type} to {TS}"]
        if self.sync_ops and k < 0.96:
            self.features.add("pre-existing-barrier")
            self.skel.append("B")
            return [f'{ind}"snax.cluster_sync_op"() {self.tag("b", "all", depth)} : () -> ()']
        if self.dealloc:
            # only buffers allocated in this very block are freed (no double free on a back edge); their views go too
            own = [b for b in scope["bufs"] if b.owned and b.depth == depth and b.name in scope["local"]]
            if own:
                b = r.choice(own)
                scope["bufs"][:] = [x for x in scope["bufs"] if x.root != b.name]
                self.features.add("dealloc")
                self.skel.append("f")
                return [f'{ind}"memref.dealloc"({b.name}) {self.tag("f", "all", depth, [], [b.name])} : ({b.type}) -> ()']
        return self.marker(scope, ind, depth)

    def op(self, scope, ind, depth, last_kind):
        """One op; the kind is sticky so that runs of adjacent dispatchable ops of the same kind are frequent."""
        r = self.r
        if last_kind in ("dm", "compute") and r.random() < 0.35:
            kind = last_kind
        else:
            kind = r.choices(["dm", "compute", "all"], [self.w_dm, self.w_cp, self.w_all])[0]
        if kind == "dm":
            if self.xdma and r.random() < 0.12:
                return self.dart(scope, ind, depth, "snax_xdma", "dm"), kind
            return self.copy(scope, ind, depth), kind
        if kind == "compute":
            if r.random() < 0.25:
                return self.dart(scope, ind, depth, r.choice(["snax_alu", "snax_gemmx"]), "compute"), kind
            return self.generic(scope, ind, depth), kind
        return self.neutral(scope, ind, depth), kind

    # -- control flow --------------------------------------------------------------------------
    @staticmethod
    def sub(scope):
        return {"bufs": list(scope["bufs"]), "idx": list(scope["idx"]), "small_idx": list(scope["small_idx"]), "local": set()}

    def seq(self, scope, ind, depth, n):
        out = []
        last = None
        for _ in range(n):
            k = self.r.random()
            if depth < 3 and k < 0.16:
                out += self.loop(scope, ind, depth)
                last = None
            elif depth < 3 and k < 0.30:
                out += self.cond(scope, ind, depth)
                last = None
            else:
                ls, last = self.op(scope, ind, depth, last)
                out += ls
        return out

    def loop(self, scope, ind, depth):
        r = self.r
        iv = self.fresh("i")
        k = r.random()
        lb = self.cst(0) if r.random() < 0.8 else self.cst(1)
        if k < 0.5:
            ub = "%n0" if r.random() < 0.5 else "%n1"
            d = "n"
        else:
            u = r.choice([0, 1, 2, 2, 3])
            ub = self.cst(u)
            d = str(u)
        inner = self.sub(scope)
        inner["idx"].append(iv)
        inner["small_idx"].append(iv)  # induction variables stay <= 2: usable as subview offsets
        self.skel.append(f"for{d}(")
        out = [f"{ind}scf.for {iv} = {lb} to {ub} step {self.cst(1)} {{"]
        out += self.seq(inner, ind + "  ", depth + 1, r.choice([1, 2, 2, 3, 4]))
        out.append(f"{ind}}}")
        self.skel.append(")")
        self.features.add("scf.for")
        return out

    def cond(self, scope, ind, depth):
        r = self.r
        out = []
        if scope["idx"] and r.random() < 0.4:
            c = self.fresh("cc")
            out.append(f"{ind}{c} = arith.cmpi {r.choice(['eq', 'ne', 'ult'])}, {r.choice(scope['idx'])}, {self.cst(r.randrange(0, 3))} : index")
        else:
            c = r.choice(["%b0", "%b1"])
        with_res = r.random() < 0.15
        self.skel.append("if(")
        res = None
        if with_res:
            res = self.fresh("r")
            out.append(f"{ind}{res} = scf.if {c} -> (index) {{")
            self.features.add("scf.if-with-result")
        else:
            out.append(f"{ind}scf.if {c} {{")
        out += self.seq(self.sub(scope), ind + "  ", depth + 1, r.choice([1, 1, 2, 3]))
        if with_res:
            out.append(f"{ind}  scf.yield {self.cst(1)} : index")
        if with_res or r.random() < 0.35:
            out.append(f"{ind}}} else {{")
            self.skel.append(")else(")
            out += self.seq(self.sub(scope), ind + "  ", depth + 1, r.choice([1, 1, 2]))
            if with_res:
                out.append(f"{ind}  scf.yield {self.cst(2)} : index")
            self.features.add("scf.if-else")
        out.append(f"{ind}}}")
        self.skel.append(")")
        self.features.add("scf.if")
        if res:
            scope["idx"].append(res)
        return out


def _body(g, rng, scope, mb):
    """Body lines of one function (single block, or several blocks when `mb`)."""
    ind = "  "
    body = []
    if not mb:
        body += g.seq(scope, ind, 0, rng.choice([2, 3, 4, 5, 6, 8]))
        body.append("  func.return")
        return body
    g.features.add("multi-block")
    body += g.seq(scope, ind, 0, rng.choice([1, 2, 3]))
    if rng.random() < 0.5:
        body.append("  cf.br ^bb1")
        body.append("^bb1:")
        g.skel.append("|br|")
        body += g.seq(scope, ind, 0, rng.choice([1, 2, 3, 4]))
        body.append("  func.return")
    else:
        body.append(f"  cf.cond_br {rng.choice(['%b0', '%b1'])}, ^bb1, ^bb2")
        body.append("^bb1:")
        g.skel.append("|cbr(")
        body += g.seq(g.sub(scope), ind, 0, rng.choice([1, 2, 3]))
        body.append("  cf.br ^bb3")
        body.append("^bb2:")
        g.skel.append(")(")
        body += g.seq(g.sub(scope), ind, 0, rng.choice([1, 2, 3]))
        body.append("  cf.br ^bb3")
        body.append("^bb3:")
        g.skel.append(")|")
        body += g.seq(scope, ind, 0, rng.choice([1, 2, 3]))
        body.append("  func.return")
    return body


def _fresh_scope():
    bufs = [Buf("%" + n, t, "8x8" if t == T2 else "16", False, 0, "%" + n) for n, t in MEM_ARGS.items()]
    return {"bufs": bufs, "idx": ["%n0", "%n1"], "small_idx": [], "local": set()}


def gen_program(rng, sync_ops=False, dealloc=False, xdma=True, multi_block=True, helper=True) -> CoresProgram:
    """One module: @main (the function to execute), optionally (20%, `helper`) a second function @helper (private in half of the cases) with the same
    signature that @main calls once, optionally (3%) an already present declaration of @snax_cluster_core_idx."""
    g = _G(rng, sync_ops, dealloc, xdma)
    mb = multi_block and rng.random() < 0.18
    sig = ", ".join([f"%{n} : {t}" for n, t in MEM_ARGS.items()] + ["%n0 : index", "%n1 : index", "%b0 : i1", "%b1 : i1"])
    types = ", ".join(list(MEM_ARGS.values()) + ["index", "index", "i1", "i1"])
    names = ", ".join("%" + n for n in ARG_NAMES)
    funcs = []
    call = []
    if helper and rng.random() < 0.2:
        g.features.add("helper-function")
        g.skel.append("helper{")
        hbody = _body(g, rng, _fresh_scope(), False)
        g.skel.append("}")
        hconsts = sorted(g.consts)
        g.consts = set()
        # a helper is often not part of the module's interface: private definition (with a body)
        vis = " private" if rng.random() < 0.5 else ""
        if vis:
            g.features.add("helper-function-private")
        funcs.append((vis + " @helper", hconsts, hbody))
        call = [f"  func.call @helper({names}) : ({types}) -> ()"]
    body = _body(g, rng, _fresh_scope(), mb)
    if call:
        # the call sits in the entry block, at a random position before its terminator
        entry_end = next(i for i, l in enumerate(body) if l.lstrip().startswith(("cf.", "func.return")))
        pos = rng.randrange(0, entry_end + 1)
        # never split a multi-line op: insert only in front of a line that starts an op at top-level indentation
        while pos < entry_end and not (body[pos].startswith("  ") and not body[pos].startswith("   ") and not body[pos].startswith("  ^") and not body[pos].startswith("  }")):
            pos += 1
        body[pos:pos] = call
    funcs.append((" @main", sorted(g.consts), body))
    text = ""
    for name, consts, b in funcs:
        cl = [f"  %c{k} = arith.constant {k} : index" for k in consts]
        text += "func.func" + name + "(" + sig + ") {\n" + "\n".join(cl + b) + "\n}\n"
    if rng.random() < 0.03:  # (the pass crashes on these under xDSL 0.70: counted as rejections)
        g.features.add("core-idx-already-declared")
        text += "func.func private @snax_cluster_core_idx() -> i32\n"
    return CoresProgram(text, "main", g.ops, g.features, "".join(g.skel), mb)


def input_vectors(prog: CoresProgram, rng, n=2):
    """Runtime vectors; the first one makes every loop run >= 2 times and takes both kinds of branches over the set."""
    vecs = []
    for j in range(n):
        if j == 0:
            v = {"n0": rng.choice([2, 3]), "n1": rng.choice([2, 3]), "b0": 1, "b1": rng.randrange(2)}
        else:
            v = {"n0": rng.randrange(0, 4), "n1": rng.randrange(0, 4), "b0": rng.randrange(2), "b1": rng.randrange(2)}
        vecs.append(v)
    return vecs
