"""G-phs: histories of kernel bodies over integer / float binary operations with differing operand routing.

A kernel spec is {"t": element type, "n_in": data inputs, "ops": [[opname, [value idx, value idx]], ...], "yield": idx,
"res": [result type per op]}.  Value indices: 0..n_in-1 inputs, n_in = the output block argument (never used unless the
'uses_out' feature is drawn), then one per op.  A history is a list of such kernels (merge order = list order).
"""
from __future__ import annotations

INT_OPS = ("addi", "subi", "muli", "andi", "ori", "xori", "maxsi", "minsi", "maxui", "minui", "divsi", "divui", "remsi", "shli", "shrsi")
INT_OPS_COMMON = ("addi", "subi", "muli", "andi", "ori", "xori", "maxsi", "minsi", "subi", "addi", "muli")
FLOAT_OPS = ("addf", "subf", "mulf", "divf", "maximumf", "minimumf", "maxnumf", "minnumf")
FLOAT_OPS_COMMON = ("addf", "subf", "mulf", "divf", "maximumf", "subf", "divf")
CMPI_PREDS = ("eq", "ne", "slt", "sle", "sgt", "sge", "ult", "ule", "ugt", "uge")
INT_TYPES = ("i32", "i32", "i32", "i8", "i16", "i64")
FLOAT_TYPES = ("f32", "f32", "f64", "f16")


def is_float_t(t):
    return t.startswith("f")


def op_pool(t, wide=False):
    if is_float_t(t):
        return FLOAT_OPS if wide else FLOAT_OPS_COMMON
    return INT_OPS if wide else INT_OPS_COMMON


def gen_kernel(rng, t, n_in, max_ops=4, features=()):
    """A kernel whose ops all work on type t (the quantifier's binary operations)."""
    n_ops = rng.choice((1, 1, 2, 2, 3, 3, 4)) if max_ops >= 4 else rng.randrange(1, max_ops + 1)
    pool = op_pool(t, wide=rng.random() < 0.3)
    first_res = n_in + 1
    ops = []
    for j in range(n_ops):
        avail_in = list(range(n_in))
        if "uses_out" in features:
            avail_in.append(n_in)
        avail_res = list(range(first_res, first_res + j))
        opnds = []
        for _ in range(2):
            if avail_res and rng.random() < 0.55:
                opnds.append(rng.choice(avail_res) if rng.random() < 0.5 else avail_res[-1])
            else:
                opnds.append(rng.choice(avail_in))
        ops.append([rng.choice(pool), opnds])
    k = {"t": t, "n_in": n_in, "ops": ops, "yield": first_res + n_ops - 1}
    r = rng.random()
    if r < 0.08 and n_ops > 1:
        k["yield"] = rng.randrange(first_res, first_res + n_ops)  # dead tail
    if "all_inputs" in features:
        ensure_inputs_used(rng, k)
    return k


def used_values(k):
    """Values that the yielded result (transitively) or any op reads: block arguments with a use."""
    used = set()
    for _, opnds in k["ops"]:
        used.update(opnds)
    used.add(k["yield"])
    return used


def ensure_inputs_used(rng, k):
    """Rewire operands so that every data input has at least one use (otherwise the encoder drops the port)."""
    n_in = k["n_in"]
    for a in range(n_in):
        if a in used_values(k):
            continue
        # replace an operand that reads an input read more than once, else any operand
        counts = {}
        for _, opnds in k["ops"]:
            for o in opnds:
                counts[o] = counts.get(o, 0) + 1
        slots = [(i, j) for i, (_, opnds) in enumerate(k["ops"]) for j, o in enumerate(opnds) if o < n_in and counts[o] > 1]
        if not slots:
            slots = [(i, j) for i, (_, opnds) in enumerate(k["ops"]) for j, o in enumerate(opnds) if o < n_in]
        if not slots:
            return
        i, j = rng.choice(slots)
        k["ops"][i][1][j] = a


def mutate_kernel(rng, k):
    """A relative of k: same skeleton with different routing / operation / operand order (so that merging has to add muxes
    and alternatives instead of new chooses)."""
    k2 = {"t": k["t"], "n_in": k["n_in"], "ops": [[n, list(o)] for n, o in k["ops"]], "yield": k["yield"]}
    if "preds" in k:
        k2["preds"] = dict(k["preds"])
    n_in = k["n_in"]
    first_res = n_in + 1
    for _ in range(rng.choice((1, 1, 2, 3))):
        i = rng.randrange(len(k2["ops"]))
        r = rng.random()
        if r < 0.3:
            k2["ops"][i][1].reverse()
        elif r < 0.65:
            j = rng.randrange(2)
            cands = list(range(n_in)) + list(range(first_res, first_res + i))
            k2["ops"][i][1][j] = rng.choice(cands)
        elif r < 0.9:
            if k2["ops"][i][0] != "cmpi":
                k2["ops"][i][0] = rng.choice(op_pool(k["t"], wide=rng.random() < 0.3))
        else:
            if len(k2["ops"]) < 4 and "preds" not in k2:
                cands = list(range(n_in)) + list(range(first_res, first_res + len(k2["ops"])))
                k2["ops"].append([rng.choice(op_pool(k["t"])), [rng.choice(cands), rng.choice(cands)]])
                k2["yield"] = first_res + len(k2["ops"]) - 1
    return k2


def gen_pred_kernel(rng, t, n_in):
    """Outside the stated quantifier: ops that carry an attribute (arith.cmpi predicate).  Yields i1."""
    first_res = n_in + 1
    n_cmp = rng.choice((1, 1, 2))
    ops, preds = [], {}
    for j in range(n_cmp):
        ops.append(["cmpi", [rng.randrange(n_in), rng.randrange(n_in)]])
        preds[str(j)] = rng.choice(CMPI_PREDS)
    if n_cmp == 2:
        ops.append([rng.choice(("andi", "ori", "xori")), [first_res, first_res + 1]])
    return {"t": t, "n_in": n_in, "ops": ops, "yield": first_res + len(ops) - 1, "preds": preds}


def gen_history(rng):
    """Returns {"klass": ..., "kernels": [...]}.

    klass: 'uniform'   all kernels over one element type, every data input used (the property's quantifier)
           'ports'     some kernel leaves a data input unused / uses the output argument (port sets differ; counted)
           'mixed'     kernels over different element types (port types differ; counted, only the conforming ones judged)
           'attr'      kernels containing arith.cmpi (attribute-carrying op; outside the quantifier, separate class)
    """
    r = rng.random()
    n = rng.choice((1, 2, 2, 3, 3, 3, 4, 4, 5))
    n_in = rng.choice((1, 2, 2, 2, 3, 3, 4))
    if r < 0.08:
        t = rng.choice(INT_TYPES)
        base = gen_pred_kernel(rng, t, max(2, n_in))
        ks = [base]
        while len(ks) < n:
            if rng.random() < 0.6:
                k = mutate_kernel(rng, rng.choice(ks))
                for key in list(k["preds"]):
                    if rng.random() < 0.6:
                        k["preds"][key] = rng.choice(CMPI_PREDS)
            else:
                k = gen_pred_kernel(rng, t, max(2, n_in))
            ks.append(k)
        return {"klass": "attr", "kernels": ks}
    fl = rng.random() < 0.35
    t = rng.choice(FLOAT_TYPES if fl else INT_TYPES)
    if r < 0.16:
        klass, feats = "ports", ()
    elif r < 0.22:
        klass, feats = "mixed", ("all_inputs",)
    else:
        klass, feats = "uniform", ("all_inputs",)
    ks = []
    while len(ks) < n:
        tt = t
        if klass == "mixed" and ks and rng.random() < 0.5:
            tt = rng.choice([x for x in (INT_TYPES if not fl else FLOAT_TYPES) if x != t] or [t])
        f = feats
        if klass == "ports" and rng.random() < 0.3:
            f = ("uses_out",)
        if ks and rng.random() < 0.55 and tt == t:
            k = mutate_kernel(rng, rng.choice([x for x in ks if x["t"] == t] or ks))
            if "all_inputs" in f:
                ensure_inputs_used(rng, k)
        else:
            k = gen_kernel(rng, tt, n_in, features=f)
        ks.append(k)
    return {"klass": klass, "kernels": ks}


# ------------------------------------------------------------------------------------------------
# rendering
# ------------------------------------------------------------------------------------------------
def value_types(k):
    t, n_in = k["t"], k["n_in"]
    yt = None
    ts = [t] * n_in + [None]  # output argument type filled below
    for name, opnds in k["ops"]:
        if name == "cmpi":
            ts.append("i1")
        else:
            ts.append(ts[opnds[0]] if ts[opnds[0]] is not None else t)
    yt = ts[k["yield"]] if ts[k["yield"]] is not None else t
    ts[n_in] = yt
    return ts


def render_kernel(k, shape="16") -> str:
    """A module holding one linalg.generic with this body (memref form, parallel 1-D)."""
    ts = value_types(k)
    n_in = k["n_in"]
    arg_types = ts[: n_in + 1]
    name = lambda i: f"%a{i}" if i <= n_in else f"%v{i - n_in - 1}"  # noqa: E731
    lines = []
    for j, (op, opnds) in enumerate(k["ops"]):
        res = name(n_in + 1 + j)
        a, b = name(opnds[0]), name(opnds[1])
        ot = ts[opnds[0]]
        if op == "cmpi":
            lines.append(f"  {res} = arith.cmpi {k['preds'][str(j)]}, {a}, {b} : {ot}")
        else:
            lines.append(f"  {res} = arith.{op} {a}, {b} : {ot}")
    lines.append(f"  linalg.yield {name(k['yield'])} : {ts[k['yield']]}")
    n = n_in + 1
    tys = [f"memref<{shape}x{t}>" for t in arg_types]
    names = [f"%m{i}" for i in range(n)]
    maps = ", ".join(["affine_map<(d0) -> (d0)>"] * n)
    bargs = ", ".join(f"%a{i} : {t}" for i, t in enumerate(arg_types))
    return (
        f'{", ".join(names)} = "test.op"() : () -> ({", ".join(tys)})\n'
        f'linalg.generic {{indexing_maps = [{maps}], iterator_types = ["parallel"]}} '
        f"ins({', '.join(names[:-1])} : {', '.join(tys[:-1])}) outs({names[-1]} : {tys[-1]}) {{\n"
        f"^bb0({bargs}):\n" + "\n".join(lines) + "\n}\n"
    )


def well_formed(k) -> bool:
    ts = value_types(k)
    n_in = k["n_in"]
    for j, (op, opnds) in enumerate(k["ops"]):
        for o in opnds:
            if o >= n_in + 1 + j:
                return False
        if ts[opnds[0]] != ts[opnds[1]]:
            return False
        if op == "cmpi" and ts[opnds[0]] == "i1":
            return False
    return k["yield"] < len(ts)


def skeleton(k) -> str:
    return f"{k['t']}/{k['n_in']}:" + ";".join(f"{op}({o[0]},{o[1]})" for op, o in k["ops"]) + f">{k['yield']}"
