"""G-copy / G-tsl helpers: random memref layouts (none / strided / tiled-strided) as type text + reference data."""
from __future__ import annotations

import random
from math import prod


def factorize(rng, n, depth):
    """Random factorization of n into `depth` factors (>=1)."""
    fs = []
    rem = n
    for _ in range(depth - 1):
        divs = [d for d in range(1, rem + 1) if rem % d == 0]
        f = rng.choice(divs)
        fs.append(f)
        rem //= f
    fs.append(rem)
    rng.shuffle(fs)
    return fs


def dense_steps(rng, tile_bounds, pad=0.0, overlap=False):
    """Assign steps to all (dim, depth) strides: random nesting order, contiguous chain, optional padding gaps."""
    keys = [(d, j) for d, tb in enumerate(tile_bounds) for j in range(len(tb))]
    rng.shuffle(keys)
    steps = {}
    cur = 1
    for k in keys:
        b = tile_bounds[k[0]][k[1]]
        steps[k] = cur
        cur *= b
        if rng.random() < pad:
            cur += rng.randint(1, 5)
    return [[steps[(d, j)] for j in range(len(tb))] for d, tb in enumerate(tile_bounds)]


def tsl_text(tile_bounds, steps, offset=0, dyn=None):
    """dyn: set of (dim, 'b'|'s', depth) entries printed as '?'."""
    dyn = dyn or set()
    parts = []
    for d, (tb, st) in enumerate(zip(tile_bounds, steps)):
        b = ", ".join("?" if (d, "b", j) in dyn else str(x) for j, x in enumerate(tb))
        s = ", ".join("?" if (d, "s", j) in dyn else str(x) for j, x in enumerate(st))
        parts.append(f"[{b}] -> ({s})")
    txt = ", ".join(parts)
    if offset:
        txt += f", offset: {offset}"
    return f"#tsl.tsl<{txt}>"


def gen_shape(rng, rank, max_elems=512):
    while True:
        shape = [rng.choice([1, 2, 3, 4, 4, 6, 8, 8, 12, 16]) for _ in range(rank)]
        if prod(shape) <= max_elems:
            return shape


ELTYPES = [("i8", 1), ("i16", 2), ("i32", 4), ("i64", 8), ("i1", 1), ("i4", 1), ("i12", 2)]
