"""G-loops: seeded generator of loop nests for C17 (loop restructuring preserves the executed operation sequence).

A program is one function

    func.func @main(%A, %B : memref<?x?xi32>, %u0 %u1 %u2 : index (upper bounds), %s0 %s1 : index (steps), %l0 : index (lower bound))

whose body is a random tree of
  * scf.for nests, depth <= 3, bounds/steps constant (lb 0 mostly, ub 0..9, step 1..4, ub NOT a multiple of the step in
    well over a third of the step>1 loops) or dynamic (function arguments), optionally carrying an index through iter_args;
  * side-effecting markers  "test.op"(index values / memrefs) {verif.id = "m<k>"}  before / inside / after inner loops;
  * pure ops (arith on induction variables, local arith.constant, affine.min boundary-tile sizes, memref.dim);
  * memref.subview (offsets from induction variables / constants, sizes static, from affine.min, from memref.dim, from
    local constants), memref.alloc (static, or sized by memref.dim / affine.min / induction variables / constants),
    memref.copy subview -> alloc, markers using the buffers;
  * scf.if on a comparison of index values; snax.cluster_sync_op (the stage separator of pipelined loops).

Everything is drawn from the `random.Random` instance that is passed in; there is no other source of randomness.

API
    prog = gen_program(rng)                 -> LoopsProgram(text, fname, argnames, features, skeleton, dynamic_args)
    vecs = input_vectors(prog, rng, n)      -> list of {argname: int} for the index arguments (memref arguments are built by
                                               the machine: `vf.interp.buf_m.make_args(..., dyn_size=ARG_DIM)`)
"""
from __future__ import annotations

from dataclasses import dataclass, field

ARG_DIM = 24  # runtime extent of the dynamic memref arguments
MEM_T = "memref<?x?xi32>"
INDEX_ARGS = ["u0", "u1", "u2", "s0", "s1", "l0"]


@dataclass
class LoopsProgram:
    text: str
    fname: str = "main"
    argnames: list = field(default_factory=list)  # index argument names, in signature order after %A, %B
    features: set = field(default_factory=set)
    skeleton: str = ""
    dynamic_args: set = field(default_factory=set)  # index arguments that are actually used


@dataclass
class Idx:
    name: str
    small: bool = True  # value known to stay in 0..9 (usable as subview offset / size)
    positive: bool = False  # value known to be >= 1
    iv_ub: object = None  # for induction variables: ("c", k) constant ub, ("a", argname) dynamic ub, else None
    is_min: bool = False  # result of an affine.min


@dataclass
class Mem:
    name: str
    type: str
    sizes: list  # per dim: int (static) or SSA name of the runtime size value (str) or None (unknown: argument)
    dynsize_vals: list = field(default_factory=list)


class _G:
    def __init__(self, rng):
        self.r = rng
        self.n = 0
        self.consts: set = set()
        self.features: set = set()
        self.dyn_used: set = set()
        self.skel: list = []
        # affine.min values become subview sizes (the boundary-tile pattern) only in a minority of the programs: on the
        # unchanged tree that pattern runs into a known finding of MoveMemrefDims which would hide everything else
        self.min_sized_subviews = rng.random() < 0.3

    # -- names -------------------------------------------------------------------------------
    def fresh(self, p):
        self.n += 1
        return f"%{p}{self.n}"

    def vid(self, p):
        self.n += 1
        return f"{p}{self.n}"

    def cst(self, k):
        self.consts.add(k)
        return f"%c{k}"

    # -- pieces ------------------------------------------------------------------------------
    def pick_idx(self, scope, small=False, positive=False, no_min=False):
        c = [x for x in scope["idx"] if (x.small or not small) and (x.positive or not positive) and not (no_min and x.is_min)]
        if not c or self.r.random() < 0.15:
            k = self.r.randrange(1, 5) if positive else self.r.randrange(0, 5)
            return Idx(self.cst(k), True, k >= 1)
        # prefer recently defined values (induction variables of the innermost loops)
        return c[-1 - min(int(self.r.expovariate(0.9)), len(c) - 1)]

    def marker(self, scope, ind, mems=()):
        r = self.r
        ops = [self.pick_idx(scope) for _ in range(r.choice([1, 1, 2, 2, 3]))]
        names = [o.name for o in ops] + [m.name for m in mems]
        types = ["index"] * len(ops) + [m.type for m in mems]
        self.skel.append("m")
        return [f'{ind}"test.op"({", ".join(names)}) {{verif.id = "{self.vid("m")}"}} : ({", ".join(types)}) -> ()']

    def pure(self, scope, ind):
        r = self.r
        k = r.random()
        out = []
        if k < 0.35:
            v = self.fresh("k")
            val = r.randrange(0, 6)
            out.append(f"{ind}{v} = arith.constant {val} : index")
            scope["idx"].append(Idx(v, True, val >= 1))
            self.features.add("local-constant")
            self.skel.append("k")
        else:
            a, b = self.pick_idx(scope), self.pick_idx(scope)
            v = self.fresh("p")
            op = r.choice(["arith.addi", "arith.addi", "arith.muli", "arith.subi"])
            out.append(f"{ind}{v} = {op} {a.name}, {b.name} : index")
            scope["idx"].append(Idx(v, False, False))
            self.skel.append("p")
        return out

    def affine_min(self, scope, ind):
        """Boundary-tile size: min(T, ub - iv) (and variations)."""
        r = self.r
        ivs = [x for x in scope["idx"] if x.iv_ub is not None]
        v = self.fresh("mn")
        tile = r.randrange(2, 5)
        form = r.random()
        if ivs and form < 0.7:
            iv = ivs[-1 - min(int(r.expovariate(1.0)), len(ivs) - 1)]
            kind, ub = iv.iv_ub
            if kind == "c":
                if form < 0.12:  # constant is not the first result: pass must not pick it blindly
                    m = f"affine_map<(d0) -> (d0 * -1 + {ub}, {tile})>"
                    self.features.add("affine-min-const-second")
                else:
                    m = f"affine_map<(d0) -> ({tile}, d0 * -1 + {ub})>"
                line = f'{ind}{v} = "affine.min"({iv.name}) <{{map = {m}}}> : (index) -> index'
            else:
                m = f"affine_map<(d0)[s0] -> ({tile}, d0 * -1 + s0)>"
                line = f'{ind}{v} = "affine.min"({iv.name}, %{ub}) <{{map = {m}}}> : (index, index) -> index'
                self.dyn_used.add(ub)
            self.features.add("affine-min-iv")
            scope["idx"].append(Idx(v, True, True, None, True))
        else:
            a = self.pick_idx(scope, small=True)
            m = f"affine_map<(d0) -> ({tile}, d0 + 1)>"
            line = f'{ind}{v} = "affine.min"({a.name}) <{{map = {m}}}> : (index) -> index'
            self.features.add("affine-min-other")
            scope["idx"].append(Idx(v, True, True, None, True))
        self.skel.append("mn")
        return [line], scope["idx"][-1]

    def subview(self, scope, ind, size_hint=None):
        r = self.r
        src = r.choice(scope["mem_src"])
        offs, off_ops = [], []
        for d in range(2):
            k = r.random()
            if k < 0.55:
                o = self.pick_idx(scope, small=True)
                offs.append(o.name)
                off_ops.append(o.name)
                if o.iv_ub is not None:
                    self.features.add("subview-offset-iv")
            else:
                offs.append(str(r.randrange(0, 4)))
        sizes, size_vals, tdims = [], [], []
        for d in range(2):
            k = r.random()
            if size_hint is not None and d == 0:
                sizes.append(size_hint.name)
                size_vals.append(size_hint.name)
                tdims.append("?")
            elif k < 0.4:
                s = r.randrange(1, 5)
                sizes.append(str(s))
                size_vals.append(s)
                tdims.append(str(s))
            else:
                s = self.pick_idx(scope, small=True, positive=True, no_min=not self.min_sized_subviews)
                if s.is_min:
                    self.features.add("subview-sized-by-affine-min")
                sizes.append(s.name)
                size_vals.append(s.name)
                tdims.append("?")
        stride2 = r.random() < 0.12
        strides = ["1", "2"] if stride2 else ["1", "1"]
        lay = "strided<[?, ?], offset: ?>" if stride2 else "strided<[?, 1], offset: ?>"
        t = f"memref<{tdims[0]}x{tdims[1]}xi32, {lay}>"
        v = self.fresh("sv")
        line = f"{ind}{v} = memref.subview {src.name}[{', '.join(offs)}] [{', '.join(sizes)}] [{', '.join(strides)}] : {src.type} to {t}"
        m = Mem(v, t, size_vals)
        scope["mem"].append(m)
        self.features.add("subview")
        self.skel.append("sv")
        return [line], m

    def dim(self, scope, ind, mem, d, local_index=False):
        r = self.r
        out = []
        if local_index:
            c = self.fresh("k")
            out.append(f"{ind}{c} = arith.constant {d} : index")
            self.features.add("dim-index-local-constant")
        else:
            c = self.cst(d)
        v = self.fresh("d")
        out.append(f'{ind}{v} = "memref.dim"({mem.name}, {c}) : ({mem.type}, index) -> index')
        small = mem.sizes[d] is not None
        x = Idx(v, small, small)
        self.skel.append("d")
        return out, x

    def alloc(self, scope, ind, dims):
        """dims: list of int (static) or Idx (dynamic size operand)."""
        v = self.fresh("b")
        td = ["?" if isinstance(d, Idx) else str(d) for d in dims]
        ops = [d.name for d in dims if isinstance(d, Idx)]
        t = f"memref<{td[0]}x{td[1]}xi32>"
        line = f'{ind}{v} = memref.alloc({", ".join(ops)}) {{verif.id = "{self.vid("a")}"}} : {t}'
        m = Mem(v, t, [d.name if isinstance(d, Idx) else d for d in dims])
        scope["mem"].append(m)
        self.skel.append("a")
        return [line], m

    def tile_pattern(self, scope, ind):
        """The shape the tiling flow produces: min -> subview -> dim -> alloc -> copy -> use."""
        r = self.r
        out = []
        hint = None
        if r.random() < 0.5:
            ls, hint = self.affine_min(scope, ind)
            out += ls
            if self.min_sized_subviews:
                self.features.add("subview-sized-by-affine-min")
            else:
                hint = None
        ls, sv = self.subview(scope, ind, size_hint=hint)
        out += ls
        if r.random() < 0.5:
            out += self.marker(scope, ind, [sv])
        dims = []
        via_dim = False
        for d in range(2):
            s = sv.sizes[d]
            k = r.random()
            if isinstance(s, int) and k < 0.6:
                dims.append(s)
            elif k < 0.85 or isinstance(s, int):
                ls, x = self.dim(scope, ind, sv, d, local_index=r.random() < 0.3)
                out += ls
                dims.append(x)
                via_dim = True
                if r.random() < 0.12:  # dim also used by a marker: the pass must leave it alone
                    scope["idx"].append(x)
                    self.features.add("dim-used-by-marker")
            else:
                dims.append(Idx(s))
        if via_dim:
            self.features.add("alloc-sized-by-dim-of-subview")
        ls, buf = self.alloc(scope, ind, dims)
        out += ls
        # the static-ness of the alloc type must agree with the subview type for memref.copy
        same_static = all((isinstance(a, int)) == (isinstance(b, int)) for a, b in zip(dims, sv.sizes))
        if same_static and r.random() < 0.75:
            out.append(f'{ind}"memref.copy"({sv.name}, {buf.name}) {{verif.id = "{self.vid("cp")}"}} : ({sv.type}, {buf.type}) -> ()')
            self.features.add("copy-subview-to-alloc")
            self.skel.append("cp")
        if same_static and r.random() < 0.3:
            out += self.kernel(ind, sv, buf)
        out += self.marker(scope, ind, [buf])
        self.features.add("tile-pattern")
        return out

    def kernel(self, ind, src, dst):
        """linalg.generic src -> dst (elementwise); its body holds a local constant (hoistable out of two regions)."""
        x, y, k, z = self.fresh("x"), self.fresh("y"), self.fresh("kk"), self.fresh("z")
        ident = "affine_map<(d0, d1) -> (d0, d1)>"
        par = "#linalg.iterator_type<parallel>"
        self.features.add("linalg.generic-in-loop")
        self.skel.append("g")
        return [
            f'{ind}"linalg.generic"({src.name}, {dst.name}) <{{indexing_maps = [{ident}, {ident}], iterator_types = [{par}, {par}], '
            f"operandSegmentSizes = array<i32: 1, 1>}}> ({{",
            f"{ind}^bb0({x} : i32, {y} : i32):",
            f"{ind}  {k} = arith.constant {self.r.randrange(1, 9)} : i32",
            f"{ind}  {z} = arith.addi {x}, {k} : i32",
            f'{ind}  "linalg.yield"({z}) : (i32) -> ()',
            f'{ind}}}) {{verif.id = "{self.vid("g")}"}} : ({src.type}, {dst.type}) -> ()',
        ]

    def plain_alloc(self, scope, ind):
        r = self.r
        out = []
        dims = []
        for d in range(2):
            k = r.random()
            if k < 0.4:
                dims.append(r.randrange(1, 5))
            elif k < 0.6:
                a = scope["mem_src"][0]
                ls, x = self.dim(scope, ind, a, d, local_index=r.random() < 0.3)
                out += ls
                dims.append(x)
                self.features.add("alloc-sized-by-dim-of-arg")
            else:
                x = self.pick_idx(scope, small=True)
                dims.append(x)
                if x.iv_ub is not None:
                    self.features.add("alloc-sized-by-iv")
        ls, buf = self.alloc(scope, ind, dims)
        out += ls
        out += self.marker(scope, ind, [buf])
        if r.random() < 0.3:
            ls, x = self.dim(scope, ind, buf, r.randrange(2))
            out += ls
            scope["idx"].append(x)
            out += self.marker(scope, ind)
        if r.random() < 0.25:
            # a per-iteration temporary: freed at the end of its use (the deallocation must stay behind every use of the buffer)
            out.append(f"{ind}memref.dealloc {buf.name} : {buf.type}")
            if buf in scope["mem"]:
                scope["mem"].remove(buf)
            self.features.add("dealloc-after-use")
            self.skel.append("D")
        return out

    def cond(self, scope, ind, depth):
        r = self.r
        a, b = self.pick_idx(scope), self.pick_idx(scope)
        c = self.fresh("cc")
        pred = r.choice(["ult", "eq", "ne", "uge"])
        out = [f"{ind}{c} = arith.cmpi {pred}, {a.name}, {b.name} : index", f"{ind}scf.if {c} {{"]
        self.skel.append("if(")
        inner = self.sub_scope(scope)
        out += self.items(inner, ind + "  ", depth, r.choice([1, 1, 2]), allow_loop=r.random() < 0.3)
        if r.random() < 0.3:
            out.append(f"{ind}}} else {{")
            self.skel.append(")else(")
            inner = self.sub_scope(scope)
            out += self.items(inner, ind + "  ", depth, 1, allow_loop=False)
        out.append(f"{ind}}}")
        self.skel.append(")")
        self.features.add("scf.if")
        return out

    @staticmethod
    def sub_scope(scope):
        return {"idx": list(scope["idx"]), "mem": list(scope["mem"]), "mem_src": scope["mem_src"], "cell": scope.get("cell")}

    def cell_access(self, scope, ind):
        """memref.store / memref.load on a small scratch buffer defined before all loops, at a constant position: a load may only
        be moved if no store to that cell can run between its old and its new place."""
        r = self.r
        pos = self.cst(r.randrange(0, 4))
        if r.random() < 0.5:
            v = self.pick_idx(scope)
            self.skel.append("S")
            self.features.add("store")
            return [f"{ind}memref.store {v.name}, %cell[{pos}] : memref<4xindex>"]
        l = self.fresh("l")
        scope["idx"].append(Idx(l, False, False))
        self.skel.append("L")
        self.features.add("load")
        return [f"{ind}{l} = memref.load %cell[{pos}] : memref<4xindex>"] + self.marker(scope, ind)

    def item(self, scope, ind, depth):
        r = self.r
        k = r.random()
        if scope.get("cell") and k < 0.18:
            return self.cell_access(scope, ind)
        if k < 0.34:
            return self.marker(scope, ind)
        if k < 0.52:
            return self.pure(scope, ind)
        if k < 0.74:
            return self.tile_pattern(scope, ind)
        if k < 0.84:
            return self.plain_alloc(scope, ind)
        if k < 0.90:
            ls, _ = self.affine_min(scope, ind)
            return ls + self.marker(scope, ind)
        if k < 0.96 and depth >= 1:
            return self.cond(scope, ind, depth)
        if k < 0.98:
            # stage separator of pipelined loops: a side-effecting op without operands
            self.features.add("barrier")
            self.skel.append("B")
            return [f'{ind}"snax.cluster_sync_op"() : () -> ()']
        return self.marker(scope, ind)

    def items(self, scope, ind, depth, n, allow_loop=True):
        out = []
        for _ in range(n):
            if allow_loop and depth < 3 and self.r.random() < 0.15:
                out += self.loop(scope, ind, depth)
            else:
                out += self.item(scope, ind, depth)
        return out

    # -- loops -------------------------------------------------------------------------------
    def bounds(self, depth):
        """Returns (lb, ub, step) SSA names and the ub descriptor of the induction variable."""
        r = self.r
        dyn = r.random() < 0.28
        if not dyn:
            lb = 0 if r.random() < 0.85 else r.randrange(1, 3)
            step = r.choice([1, 1, 1, 2, 2, 3, 4])
            if step > 1 and r.random() < 0.55:
                ub = r.choice([u for u in range(lb, 10) if (u - lb) % step != 0] or [9])
                self.features.add("const-ub-not-multiple-of-step")
            else:
                ub = r.randrange(0, 10)
            if lb == 0 and step == 1:
                self.features.add("const-normal-loop")
            return self.cst(lb), self.cst(ub), self.cst(step), ("c", ub), f"c{lb}:{ub}:{step}"
        parts = []
        desc = []
        if r.random() < 0.25:
            parts.append("%l0")
            self.dyn_used.add("l0")
            desc.append("L")
        else:
            lb = 0 if r.random() < 0.8 else r.randrange(1, 3)
            parts.append(self.cst(lb))
            desc.append(str(lb))
        if r.random() < 0.75:
            u = f"u{min(depth, 2)}"
            parts.append("%" + u)
            self.dyn_used.add(u)
            ubd = ("a", u)
            desc.append("U")
        else:
            k = r.randrange(0, 10)
            parts.append(self.cst(k))
            ubd = ("c", k)
            desc.append(str(k))
        if r.random() < 0.5:
            s = f"s{depth % 2}"
            parts.append("%" + s)
            self.dyn_used.add(s)
            desc.append("S")
        else:
            k = r.choice([1, 1, 2, 3, 4])
            parts.append(self.cst(k))
            desc.append(str(k))
        self.features.add("dynamic-bounds")
        return parts[0], parts[1], parts[2], ubd, "d" + ":".join(desc)

    def loop(self, scope, ind, depth):
        r = self.r
        lb, ub, step, ubd, desc = self.bounds(depth)
        iv = self.fresh("i")
        carried = r.random() < 0.13
        inner = self.sub_scope(scope)
        inner["idx"].append(Idx(iv, True, False, ubd))
        self.skel.append(f"for[{desc}{'+iter' if carried else ''}](")
        out = []
        if carried:
            acc, res = self.fresh("acc"), self.fresh("r")
            init = self.pick_idx(scope)
            out.append(f"{ind}{res} = scf.for {iv} = {lb} to {ub} step {step} iter_args({acc} = {init.name}) -> (index) {{")
            inner["idx"].append(Idx(acc, False, False))
            self.features.add("iter_args")
        else:
            out.append(f"{ind}scf.for {iv} = {lb} to {ub} step {step} {{")
        i2 = ind + "  "
        # perfect nests (no ops besides the inner loop) must stay frequent: they are what the pass is meant for
        perfect = depth < 2 and r.random() < 0.3
        has_inner = depth < 2 and (perfect or r.random() < 0.6)
        if has_inner:
            npre = 0 if perfect else r.choice([0, 0, 1, 1, 2])
            npost = 0 if perfect else r.choice([0, 0, 1, 1, 2])
            out += self.items(inner, i2, depth + 1, npre, allow_loop=False)
            out += self.loop(inner, i2, depth + 1)
            if r.random() < 0.1:
                out += self.loop(inner, i2, depth + 1)
                self.features.add("two-inner-loops")
            out += self.items(inner, i2, depth + 1, npost, allow_loop=False)
            if perfect:
                self.features.add("perfect-nest")
            elif npre or npost:
                self.features.add("ops-besides-inner-loop")
        else:
            out += self.items(inner, i2, depth + 1, r.choice([1, 1, 2, 2, 3]), allow_loop=False)
        if carried:
            nx = self.fresh("nx")
            out.append(f"{i2}{nx} = arith.addi {acc}, {iv} : index")
            out.append(f"{i2}scf.yield {nx} : index")
        out.append(f"{ind}}}")
        self.skel.append(")")
        if carried:
            scope["idx"].append(Idx(res, False, False))
            out += [f'{ind}"test.op"({res}) {{verif.id = "{self.vid("m")}"}} : (index) -> ()']
        return out


def gen_program(rng) -> LoopsProgram:
    g = _G(rng)
    a, b = Mem("%A", MEM_T, [None, None]), Mem("%B", MEM_T, [None, None])
    scope = {"idx": [], "mem": [a, b], "mem_src": [a, b]}
    body = []
    ind = "  "
    if rng.random() < 0.4:
        # scratch cells, fully initialised before any loop
        scope["cell"] = True
        body.append("  %cell = memref.alloc() : memref<4xindex>")
        for k in range(4):
            body.append(f"  memref.store {g.cst(10 + k)}, %cell[{g.cst(k)}] : memref<4xindex>")
    n_top = rng.choice([1, 1, 1, 2])
    if rng.random() < 0.3:
        body += g.items(scope, ind, 0, 1, allow_loop=False)
    for _ in range(n_top):
        body += g.loop(scope, ind, 0)
        if rng.random() < 0.4:
            body += g.marker(scope, ind)
    sig = ", ".join([f"%A : {MEM_T}", f"%B : {MEM_T}"] + [f"%{n} : index" for n in INDEX_ARGS])
    consts = [f"  %c{k} = arith.constant {k} : index" for k in sorted(g.consts)]
    text = "func.func @main(" + sig + ") {\n" + "\n".join(consts + body) + "\n  func.return\n}\n"
    return LoopsProgram(text, "main", list(INDEX_ARGS), g.features, "".join(g.skel), set(g.dyn_used))


def input_vectors(prog: LoopsProgram, rng, n=4):
    """Runtime vectors for the index arguments.  Programs without dynamic arguments need one vector only."""
    vecs = []
    k = n if prog.dynamic_args else 1
    for j in range(k):
        v = {}
        for a in INDEX_ARGS:
            if a.startswith("u"):
                v[a] = rng.randrange(0, 10)
            elif a.startswith("s"):
                v[a] = rng.randrange(1, 5)
            else:
                v[a] = rng.randrange(0, 4)
        if j == 1:  # make sure a non-multiple upper bound is among the vectors
            for a in ("u0", "u1", "u2"):
                s = v["s0"] if v["s0"] > 1 else 3
                v["s0"] = s
                if v[a] % s == 0:
                    v[a] = min(9, v[a] + 1) if (v[a] + 1) % s else max(1, v[a] - 1)
        vecs.append(v)
    return vecs
