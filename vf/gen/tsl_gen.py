"""G-tsl: generator of tiled-strided layouts (plain JSON data) for C10.

Layout JSON:  {"dims": [[[bound, step], ...outermost tile first...], ...one list per dim...], "offset": int | None}
`None` means dynamic; it is only generated for the outermost tile of a dim (bound and/or step) and for the offset.
Bounds and steps are positive (the quantifier of C10); unit bounds, repeated steps, padding (gaps), self-overlap,
non-zero / negative / dynamic offsets all occur.

 * `box_layout(i)`  : the i-th layout of the exhaustive small box (rank<=2 x depth<=2, bounds {1,2,3}, steps {1,2,3,4},
                      offset {0,5}); `BOX_SIZE` layouts.
 * `gen_layout(rng)`: random layout up to rank 4 x depth 3 with <= MAX_INDICES logical indices.
The module also holds the oracle-side glue that turns the JSON into the reference function of vf/ref/layout.py.
"""
from __future__ import annotations

from math import prod
from types import SimpleNamespace

MAX_INDICES = 4096
BOX_BOUNDS = (1, 2, 3)
BOX_STEPS = (1, 2, 3, 4)
BOX_OFFSETS = (0, 5)
_PAIRS = [(b, s) for b in BOX_BOUNDS for s in BOX_STEPS]  # 12
_DIM_VARIANTS = len(_PAIRS) + len(_PAIRS) ** 2  # depth 1 or depth 2 : 156
BOX_SIZE = (_DIM_VARIANTS + _DIM_VARIANTS**2) * len(BOX_OFFSETS)  # 48 984


def _box_dim(k):
    if k < len(_PAIRS):
        return [list(_PAIRS[k])]
    k -= len(_PAIRS)
    return [list(_PAIRS[k // len(_PAIRS)]), list(_PAIRS[k % len(_PAIRS)])]


def box_layout(i):
    off = BOX_OFFSETS[i % len(BOX_OFFSETS)]
    i //= len(BOX_OFFSETS)
    if i < _DIM_VARIANTS:
        return {"dims": [_box_dim(i)], "offset": off}
    i -= _DIM_VARIANTS
    return {"dims": [_box_dim(i // _DIM_VARIANTS), _box_dim(i % _DIM_VARIANTS)], "offset": off}


# ----------------------------------------------------------------------------------------------------------------
def _gen_bounds(rng, rank, max_depth):
    while True:
        dims = []
        for _ in range(rank):
            depth = rng.choice([1, 2, 2, 3][: max_depth + 1]) if max_depth >= 2 else 1
            dims.append([rng.choice([1, 2, 2, 3, 4, 4, 5, 8]) for _ in range(depth)])
        if prod(b for d in dims for b in d) <= MAX_INDICES:
            return dims


def gen_static_layout(rng, rank=None, max_depth=3, mode=None):
    rank = rank or rng.choice([1, 2, 2, 3, 4])
    bounds = _gen_bounds(rng, rank, max_depth)
    pos = [(d, j) for d in range(rank) for j in range(len(bounds[d]))]
    mode = mode or rng.choices(["dense", "padded", "random", "repeated", "rowmajor"], weights=(35, 20, 20, 15, 10))[0]
    steps = {}
    if mode in ("dense", "padded", "repeated", "rowmajor"):
        order = list(pos)
        if mode == "rowmajor":
            order.sort(key=lambda p: (-p[0], -p[1]))
        else:
            rng.shuffle(order)
        cur = 1
        for p in order:
            if mode == "padded" and rng.random() < 0.3:
                cur *= rng.choice([2, 3])
            steps[p] = cur
            cur *= bounds[p[0]][p[1]]
        if mode == "repeated" and len(pos) >= 2:
            for _ in range(rng.choice([1, 1, 2])):
                a, b = rng.sample(pos, 2)
                steps[a] = steps[b]
    else:
        for p in pos:
            steps[p] = rng.choice([1, 1, 2, 3, 4, 4, 5, 8, 8, 16, 32, 64, 7, 12])
    r = rng.random()
    if r < 0.55:
        off = 0
    elif r < 0.85:
        off = rng.choice([1, 3, 5, 8, 64, 100])
    else:
        off = -rng.choice([1, 3, 16])
    return {"dims": [[[bounds[d][j], steps[(d, j)]] for j in range(len(bounds[d]))] for d in range(rank)], "offset": off, "mode": mode}


def make_dynamic(rng, layout):
    """Turn some outermost bounds / steps (and possibly the offset) into dynamic entries."""
    lay = {"dims": [[list(s) for s in d] for d in layout["dims"]], "offset": layout["offset"], "mode": layout.get("mode", "") + "+dyn"}
    rank = len(lay["dims"])
    what = rng.choice(["bound", "bound", "step", "both", "both", "offset"])
    dims = [d for d in range(rank) if rng.random() < 0.6] or [rng.randrange(rank)]
    if what in ("bound", "both"):
        for d in dims:
            lay["dims"][d][0][0] = None
    if what in ("step", "both"):
        # dynamic steps are by convention the largest ones: make the outermost step of the chosen dims dynamic
        for d in dims:
            lay["dims"][d][0][1] = None
    if what == "offset" or rng.random() < 0.15:
        lay["offset"] = None
    return lay


def gen_layout(rng, dynamic_p=0.3, zero_step_p=0.02):
    lay = gen_static_layout(rng)
    if rng.random() < dynamic_p:
        lay = make_dynamic(rng, lay)
    if rng.random() < zero_step_p:
        # out-of-domain probe (steps are positive in C10's quantifier): a broadcast-like step of 0; counted, never judged
        d = rng.randrange(len(lay["dims"]))
        lay["dims"][d][rng.randrange(len(lay["dims"][d]))][1] = 0
        lay["mode"] = lay.get("mode", "") + "+zero"
    return lay


def gen_runtime(rng, layout):
    """Concrete runtime shape / offset for the dynamic entries of a layout (shape is a multiple of the static tile product)."""
    shape = []
    for d in layout["dims"]:
        sp = prod(b for b, _ in d if b is not None)
        if d[0][0] is None:
            shape.append(sp * rng.choice([1, 2, 3, 4]))
        else:
            shape.append(sp)
    return {"shape": shape, "offset": rng.choice([0, 2, 17]) if layout["offset"] is None else None}


def is_dynamic(layout):
    return any(b is None or s is None for d in layout["dims"] for b, s in d)


def static_shape(layout):
    return [None if d[0][0] is None else prod(b for b, _ in d) for d in layout["dims"]]


def skeleton(layout):
    """Structural key: per dim the depth, which bounds are 1, which entries are dynamic; offset class."""
    o = layout["offset"]
    return (
        tuple(tuple(("?" if b is None else ("1" if b == 1 else "n")) + ("?" if s is None else "s") for b, s in d) for d in layout["dims"]),
        "?" if o is None else ("0" if o == 0 else ("-" if o < 0 else "+")),
    )


# ----------------------------------------------------------------------------------------------------------------
# oracle glue: JSON -> reference layout (vf/ref/layout.py), and data of repo objects -> JSON
# ----------------------------------------------------------------------------------------------------------------
def as_data(layout):
    """A plain object with the attribute names `instantiate_tsl` reads (tstrides[i].strides[j].bound/.step, offset)."""
    return SimpleNamespace(
        tstrides=[SimpleNamespace(strides=[SimpleNamespace(bound=b, step=s) for b, s in d]) for d in layout["dims"]],
        offset=layout["offset"],
    )


def ref_of(layout, rt=None, runtime_strides=None):
    from vf.ref.layout import instantiate_tsl

    rt = rt or {}
    return instantiate_tsl(as_data(layout), rt.get("shape"), rt.get("offset"), runtime_strides)


def data_to_json(tsl):
    """Read the data of a repo TiledStridedLayout into layout JSON."""
    return {"dims": [[[s.bound, s.step] for s in ts.strides] for ts in tsl.tstrides], "offset": tsl.offset}


def build_tsl(layout):
    """JSON -> repo TiledStridedLayout through the plain data constructors."""
    from snaxc.ir.tsl import Stride, TiledStride, TiledStridedLayout

    return TiledStridedLayout([TiledStride([Stride(s, b) for b, s in d]) for d in layout["dims"]], offset=layout["offset"])


# ----------------------------------------------------------------------------------------------------------------
# derived cases
# ----------------------------------------------------------------------------------------------------------------
def gen_lccb_pair(rng):
    """Two layouts with equal tile bounds; B shares a prefix of A's contiguous chain, then deviates."""
    a = gen_static_layout(rng, max_depth=3, mode=rng.choice(["dense", "dense", "rowmajor", "padded", "repeated"]))
    a["offset"] = 0
    s0 = rng.choice([1, 1, 1, 2, 4])
    if s0 > 1:
        for d in a["dims"]:
            for s in d:
                s[1] *= s0
    b = {"dims": [[list(s) for s in d] for d in a["dims"]], "offset": 0}
    pos = [(d, j) for d in range(len(a["dims"])) for j in range(len(a["dims"][d]))]
    r = rng.random()
    if r < 0.2:
        pass  # identical layouts
    elif r < 0.6:
        # change the step of one or two positions
        # (biased to the larger steps so that a non-trivial common prefix of the contiguous chain remains)
        big = sorted(pos, key=lambda p: a["dims"][p[0]][p[1]][1])[len(pos) // 3 :]
        for p in rng.sample(big, min(len(big), rng.choice([1, 2]))):
            b["dims"][p[0]][p[1]][1] = b["dims"][p[0]][p[1]][1] * rng.choice([2, 3]) + rng.choice([0, 0, s0])
    elif r < 0.85:
        # another dense order over the same bounds
        order = list(pos)
        rng.shuffle(order)
        cur = s0
        for p in order:
            b["dims"][p[0]][p[1]][1] = cur
            cur *= b["dims"][p[0]][p[1]][0]
    else:
        # swap two steps
        if len(pos) >= 2:
            p, q = rng.sample(pos, 2)
            b["dims"][p[0]][p[1]][1], b["dims"][q[0]][q[1]][1] = b["dims"][q[0]][q[1]][1], b["dims"][p[0]][p[1]][1]
    if rng.random() < 0.15:
        # a differing tile bound at one position (the step stays): the strides there are not common
        p = rng.choice(pos)
        b["dims"][p[0]][p[1]][0] = b["dims"][p[0]][p[1]][0] + rng.choice([1, 2])
    if rng.random() < 0.2:
        # dynamic outermost bound in one dim of both
        d = rng.randrange(len(a["dims"]))
        a["dims"][d][0][0] = None
        b["dims"][d][0][0] = None
    if rng.random() < 0.5:
        a, b = b, a
    return a, b, s0


def gen_from_strides(rng):
    rank = rng.choice([1, 2, 2, 3])
    tile_bounds = _gen_bounds(rng, rank, 3)
    strides = []
    cur = 1
    for d in reversed(range(rank)):
        r = rng.random()
        if r < 0.5:
            strides.append(cur)
        elif r < 0.8:
            strides.append(rng.choice([1, 2, 3, 8, 16, 100]))
        else:
            strides.append(None)
        cur *= prod(tile_bounds[d])
    strides.reverse()
    tb = [list(t) for t in tile_bounds]
    shape = [prod(t) for t in tile_bounds]
    for d in range(rank):
        if rng.random() < 0.2:
            tb[d][0] = None
            shape[d] = prod(tb[d][1:]) * rng.choice([1, 2, 3])
    r = rng.random()
    off = 0 if r < 0.5 else (None if r < 0.65 else rng.choice([1, 4, 33]))
    rt_strides = [rng.choice([1, 2, 5, 16, 40]) if s is None else s for s in strides]
    return {
        "strides": strides,
        "tile_bounds": tb,
        "offset": off,
        "rt": {"shape": shape, "strides": rt_strides, "offset": rng.choice([0, 3, 12]) if off is None else None},
    }


def gen_subview(rng):
    """A static (or dynamic-outermost-bound) source layout, a subview with static/dynamic offsets, runtime vectors.

    trigger classes (never mixed in one case):
      aligned   : every offset (static or dynamic value) is a multiple of the product of the inner tile bounds
      unaligned : all static offsets are 0, at least one dynamic offset value is not such a multiple
    """
    lay = gen_static_layout(rng, rank=rng.choice([1, 2, 2, 3]), max_depth=3, mode=rng.choice(["dense", "dense", "rowmajor", "padded"]))
    lay["offset"] = rng.choice([0, 0, 0, 4])
    if rng.random() < 0.15:
        d = rng.randrange(len(lay["dims"]))
        lay["dims"][d][0][0] = None
    rt = gen_runtime(rng, lay)
    shape = rt["shape"]
    cls = rng.choice(["aligned", "aligned", "unaligned"])
    offs, vecs_per_dim, sizes = [], [], []
    for d, dim in enumerate(lay["dims"]):
        inner = prod(b for b, _ in dim[1:])
        n = shape[d]
        outer = n // inner
        r = rng.random()
        if cls == "aligned":
            cand = [k * inner for k in range(outer)]
            if r < 0.4:
                offs.append(["s", rng.choice(cand) if rng.random() < 0.7 else 0])
                vecs_per_dim.append(None)
            else:
                offs.append(["d"])
                vecs_per_dim.append(cand)
        else:
            if r < 0.3:
                offs.append(["s", 0])
                vecs_per_dim.append(None)
            else:
                offs.append(["d"])
                vecs_per_dim.append(list(range(n)))
        sizes.append(1)
    if cls == "unaligned" and not any(o[0] == "d" for o in offs):
        offs[0] = ["d"]
        vecs_per_dim[0] = list(range(shape[0]))
    vecs = []
    for _ in range(4):
        vecs.append([rng.choice(c) if c is not None else None for c in vecs_per_dim])
    return {"layout": lay, "rt": rt, "offsets": offs, "sizes": sizes, "vecs": vecs, "elt": rng.choice([8, 8, 16, 32, 64]), "class": cls}
