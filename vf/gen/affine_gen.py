"""Generators (and oracle-side evaluators) for C19: affine expressions/maps, integer matrices, access patterns,
stride patterns, bit-field lists, streamer configurations.

Everything is produced as plain JSON-able data first (so that a case can be replayed) and converted to xDSL / repo
objects by the `build_*` helpers.  The evaluators (`ev_json`, `ev_expr`) are the oracle's own semantics of affine
expressions (floor division, non-negative modulo for positive divisors) and read only the *data* of xDSL expression
objects (`kind`, `lhs`, `rhs`, `value`, `position`).

Expression JSON:  ["c", k] | ["d", i] | ["+", l, r] | ["*", l, r] | ["//", l, r] | ["%", l, r]
"""
from __future__ import annotations

import itertools

OPS = ("+", "*", "//", "%")


# --------------------------------------------------------------------------------------------------------------
# affine expressions
# --------------------------------------------------------------------------------------------------------------
def gen_const_tree(rng, depth):
    """A constant-valued subtree (no dims): a literal or a small tree of literals."""
    if depth <= 0 or rng.random() < 0.75:
        return ["c", rng.choice([0, 1, 1, 2, 3, 4, 5, 7, -1, -2, -3, 8, 16])]
    op = rng.choice(("+", "*", "+", "*", "//", "%"))
    l = gen_const_tree(rng, depth - 1)
    if op in ("//", "%"):
        r = ["c", rng.choice([1, 2, 3, 4, 5, 8])]
    else:
        r = gen_const_tree(rng, depth - 1)
    return [op, l, r]


def gen_expr(rng, ndims, depth, p_leaf=0.25, root=True):
    """Affine expression over +,*,floordiv,mod.  `*` always has one constant-valued side (affine, not semi-affine);
    divisors of floordiv/mod are positive literals (incl. 1).  Constants may sit on either side, additions nest on
    either side, x+0, x*1, x*0, x floordiv 1, x mod 1 all occur."""
    if depth <= 0 or (not root and rng.random() < p_leaf):
        r = rng.random()
        if r < 0.7 and ndims:
            return ["d", rng.randrange(ndims)]
        return ["c", rng.choice([0, 0, 1, 1, 2, 3, 4, 5, 6, -1, -2, -4, 7, 12])]
    op = rng.choices(OPS, weights=(5, 3, 2, 2))[0]
    if op == "+":
        return ["+", gen_expr(rng, ndims, depth - 1, p_leaf, False), gen_expr(rng, ndims, depth - 1, p_leaf, False)]
    if op == "*":
        c = gen_const_tree(rng, min(depth - 1, 1)) if rng.random() < 0.25 else ["c", rng.choice([0, 1, 1, 2, 2, 3, 4, 5, -1, -2, -3, 8])]
        e = gen_expr(rng, ndims, depth - 1, p_leaf, False)
        return ["*", c, e] if rng.random() < 0.5 else ["*", e, c]
    # floordiv / mod by a positive literal
    return [op, gen_expr(rng, ndims, depth - 1, p_leaf, False), ["c", rng.choice([1, 1, 2, 2, 3, 4, 5, 6, 8])]]


def gen_linear_expr(rng, ndims, depth):
    """Expression built from + and * by constants only (a pure linear transformation + bias), hostile shapes."""
    if depth <= 0 or rng.random() < 0.3:
        if rng.random() < 0.75 and ndims:
            return ["d", rng.randrange(ndims)]
        return ["c", rng.randrange(-9, 10)]
    if rng.random() < 0.6:
        return ["+", gen_linear_expr(rng, ndims, depth - 1), gen_linear_expr(rng, ndims, depth - 1)]
    c = ["c", rng.choice([0, 1, 2, 3, -1, -2, 4, 5, 7, -6])]
    e = gen_linear_expr(rng, ndims, depth - 1)
    return ["*", c, e] if rng.random() < 0.5 else ["*", e, c]


def expr_depth(j):
    return 0 if j[0] in ("c", "d") else 1 + max(expr_depth(j[1]), expr_depth(j[2]))


def expr_size(j):
    return 1 if j[0] in ("c", "d") else 1 + expr_size(j[1]) + expr_size(j[2])


def expr_shape(j):
    """Structural skeleton (operators and leaf kinds, no values) used as distinctness key."""
    if j[0] == "c":
        return "c" if j[1] not in (0, 1) else str(j[1])
    if j[0] == "d":
        return "d"
    return f"({expr_shape(j[1])}{j[0]}{expr_shape(j[2])})"


def ops_used(j, acc=None):
    acc = set() if acc is None else acc
    if j[0] in OPS:
        acc.add(j[0])
        ops_used(j[1], acc)
        ops_used(j[2], acc)
    return acc


class DivByNonPositive(Exception):
    pass


def ev_json(j, pt):
    k = j[0]
    if k == "c":
        return j[1]
    if k == "d":
        return pt[j[1]]
    a = ev_json(j[1], pt)
    b = ev_json(j[2], pt)
    if k == "+":
        return a + b
    if k == "*":
        return a * b
    if b <= 0:
        raise DivByNonPositive()
    return a // b if k == "//" else a % b


def to_src(j):
    k = j[0]
    if k == "c":
        return f"({j[1]})"
    if k == "d":
        return f"p[{j[1]}]"
    if k in ("//", "%"):
        return f"_dm({to_src(j[1])},{to_src(j[2])},{1 if k == '//' else 0})"
    return f"({to_src(j[1])}{k}{to_src(j[2])})"


def _dm(a, b, isdiv):
    if b <= 0:
        raise DivByNonPositive()
    return a // b if isdiv else a % b


def compile_json(j):
    """JSON expression -> python function of a point tuple (same semantics as ev_json, ~10x faster)."""
    return eval("lambda p: " + to_src(j), {"_dm": _dm})


def build_expr(j):
    """JSON -> xDSL AffineExpr through the raw constructors (no simplification by xDSL operators)."""
    from xdsl.ir.affine import AffineBinaryOpExpr, AffineBinaryOpKind, AffineConstantExpr, AffineDimExpr

    kinds = {"+": AffineBinaryOpKind.Add, "*": AffineBinaryOpKind.Mul, "//": AffineBinaryOpKind.FloorDiv, "%": AffineBinaryOpKind.Mod}
    if j[0] == "c":
        return AffineConstantExpr(j[1])
    if j[0] == "d":
        return AffineDimExpr(j[1])
    return AffineBinaryOpExpr(kinds[j[0]], build_expr(j[1]), build_expr(j[2]))


def expr_to_json(e):
    """xDSL AffineExpr -> JSON, reading only the data fields of the expression objects."""
    n = type(e).__name__
    if n == "AffineConstantExpr":
        return ["c", int(e.value)]
    if n == "AffineDimExpr":
        return ["d", int(e.position)]
    if n == "AffineBinaryOpExpr":
        k = {"Add": "+", "Mul": "*", "FloorDiv": "//", "Mod": "%", "CeilDiv": "ceildiv"}[e.kind.name]
        return [k, expr_to_json(e.lhs), expr_to_json(e.rhs)]
    raise ValueError(f"unexpected affine expr node {n}")


def ev_expr(e, pt):
    return ev_json(expr_to_json(e), pt)


def box_points(ndims, lo=-3, hi=6):
    return itertools.product(range(lo, hi + 1), repeat=ndims)


def random_points(rng, ndims, n, mag=1000):
    return [tuple(rng.randrange(-mag, mag + 1) for _ in range(ndims)) for _ in range(n)]


# --------------------------------------------------------------------------------------------------------------
# integer matrices / access patterns
# --------------------------------------------------------------------------------------------------------------
def gen_matrix(rng, rows, cols, mag=9):
    pool = [0, 0, 1, 1, -1, 2, 3] + list(range(-mag, mag + 1))
    return [[rng.choice(pool) for _ in range(cols)] for _ in range(rows)]


def gen_vector(rng, n, mag=20):
    return [rng.choice([0, 0, 1, -1] + list(range(-mag, mag + 1))) for _ in range(n)]


def mat_apply(A, b, x):
    return [sum(a * xi for a, xi in zip(row, x)) + bi for row, bi in zip(A, b)]


def gen_access_pattern(rng):
    """bounds (ints >= 1, many 1s, optionally None = dynamic) and an integer matrix/bias."""
    nd = rng.randrange(1, 6)
    nr = rng.randrange(1, 4)
    bounds = []
    for _ in range(nd):
        r = rng.random()
        if r < 0.35:
            bounds.append(1)
        elif r < 0.45:
            bounds.append(None)
        else:
            bounds.append(rng.choice([2, 2, 3, 4, 5, 8]))
    return {"bounds": bounds, "A": gen_matrix(rng, nr, nd), "b": gen_vector(rng, nr)}


# --------------------------------------------------------------------------------------------------------------
# stride patterns (snax_stream.stride_pattern): index 0 is the innermost temporal loop
# --------------------------------------------------------------------------------------------------------------
def gen_stride_pattern(rng):
    n = rng.randrange(0, 6)
    ub, ts = [], []
    for i in range(n):
        r = rng.random()
        if r < 0.08:
            b = 0
        elif r < 0.3:
            b = 1
        else:
            b = rng.choice([2, 2, 3, 4, 4, 5, 8])
        r = rng.random()
        if ub and r < 0.45:
            s = ub[-1] * ts[-1]  # mergeable with the previous (inner) loop
        elif ub and r < 0.55 and len(ub) >= 2:
            s = ub[-2] * ts[-2]  # mergeable with the one before (only if the one in between has bound 1)
        elif r < 0.68:
            s = 0
        elif r < 0.75:
            s = -rng.choice([1, 2, 8, 64])
        else:
            s = rng.choice([1, 2, 4, 8, 8, 16, 64, 3, 24, 256])
        ub.append(b)
        ts.append(s)
    ns = rng.randrange(0, 4)
    ss = [rng.choice([0, 1, 8, 8, 16, 64, -8]) if rng.random() < 0.9 else 0 for _ in range(ns)]
    if rng.random() < 0.75:
        ss = [s if s != 0 else 8 for s in ss]  # canonicalize() short-cuts on a zero spatial stride: keep most non-zero
    return {"ub": ub, "ts": ts, "ss": ss}


def temporal_sequence(ub, ts):
    """Addresses produced by the temporal loop nest, index 0 innermost (fastest)."""
    seq = []
    for idx in itertools.product(*[range(b) for b in reversed(ub)]):
        seq.append(sum(i * s for i, s in zip(reversed(idx), ts)))
    return seq


def spatial_set(ss, width=2):
    """Set of spatial address offsets; the spatial bounds are a property of the hardware, a fixed unroll of
    `width` per spatial dim is used on both sides."""
    return sorted({sum(i * s for i, s in zip(idx, ss)) for idx in itertools.product(range(width), repeat=len(ss))})


# --------------------------------------------------------------------------------------------------------------
# bit-field lists (pack_bitlist)
# --------------------------------------------------------------------------------------------------------------
def gen_bitlist(rng):
    width = rng.choice([32, 32, 32, 64, 16, 8])
    n = rng.choice([0, 1, 1, 2, 3, 3, 4, 5, 5, 6, 7, 8, 9])
    vals, offs, kinds_v, kinds_o = [], [], [], []
    for _ in range(n):
        r = rng.random()
        if r < 0.6:
            v = rng.randrange(0, 1 << rng.choice([1, 3, 8, 8, min(16, width)]))
        elif r < 0.8:
            v = rng.randrange(0, 1 << width)
        else:
            v = rng.choice([0, 1, (1 << width) - 1, 1 << (width - 1)])
        r = rng.random()
        if r < 0.85:
            o = rng.randrange(0, width)
        else:
            o = rng.choice([0, width - 1, width - 1, 0])
        vals.append(v)
        offs.append(o)
        kinds_v.append(rng.choice(["int", "ssa", "op"]))
        kinds_o.append(rng.choice(["int", "int", "ssa", "op"]))
    return {"width": width, "vals": vals, "offs": offs, "kv": kinds_v, "ko": kinds_o}


# --------------------------------------------------------------------------------------------------------------
# streamer configurations
# --------------------------------------------------------------------------------------------------------------
OPT_NAMES = ("a", "c", "bm", "b")


def gen_streamer_config(rng, opt_names=OPT_NAMES):
    ns = rng.randrange(1, 6)
    streamers = []
    for _ in range(ns):
        nt = rng.choice([0, 1, 2, 3, 3, 4, 6])
        nsp = rng.choice([0, 1, 1, 2, 3])
        opts = [o for o in opt_names if rng.random() < 2.0 / (len(opt_names) + 4)]
        rng.shuffle(opts)
        streamers.append(
            {
                "type": rng.choice(["r", "w"]),
                "temp": [rng.choice(["n", "n", "n", "i", "r"]) for _ in range(nt)],
                "spat": [rng.choice([1, 2, 4, 8, 8, 16, 64, 0]) for _ in range(nsp)],
                "opts": opts,
            }
        )
    return {"streamers": streamers, "system": rng.choice(["reg", "reg", "xdma"])}
