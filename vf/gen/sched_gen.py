"""G-sched: generator of scheduling problems for the DART scheduler (C03, C16).

Everything is plain JSON-able data (lists of ints / None); the check modules build the real objects.
Case forms
  search     : template (bounds with None, one integer matrix per operand) + schedule (static bounds, one matrix and offset
               per operand) + requested extra checks + element sizes + optional schedule_idx
  elementary : a schedule + a list of elementary transformations to apply through the real API
  matches    : one template pattern and one schedule pattern for the matcher differential
  pass       : MLIR text with one dart.operation for the real `dart-scheduler` pass
All randomness comes from the `random.Random` handed in.
"""
from __future__ import annotations

import math

MAX_POINTS = 20_000

# Templates of the registered accelerators, written down from the documentation of the hardware (alu: 4 parallel lanes;
# gemmx: 8x8x8 GeMM array, operands (m,k) (k,n) (m,n); xdma: 16 lane copy / add extension).  The pass-level cases obtain the
# same templates from the real get_template(), the check compares both (counter real_template_table_agrees).
REAL_TEMPLATES = {
    "snax_alu": {"tbounds": [4], "tmats": [[[1]], [[1]], [[1]]]},
    "snax_xdma": {"tbounds": [16], "tmats": [[[1]], [[1]]]},
    "snax_xdma_add": {"tbounds": [16], "tmats": [[[1]], [[1]], [[1]]]},
    "gemmx_matmul": {"tbounds": [8, 8, 8], "tmats": [[[1, 0, 0], [0, 0, 1]], [[0, 0, 1], [0, 1, 0]], [[1, 0, 0], [0, 1, 0]]]},
    "gemmx_gemm": {
        "tbounds": [8, 8, 8],
        "tmats": [[[1, 0, 0], [0, 0, 1]], [[0, 0, 1], [0, 1, 0]], [[1, 0, 0], [0, 1, 0]], [[1, 0, 0], [0, 1, 0]]],
    },
    "gemmx_rescale": {"tbounds": [8, 8], "tmats": [[[1, 0], [0, 1]], [[1, 0], [0, 1]]]},
}


# ------------------------------------------------------------------------------------------------
# small helpers
# ------------------------------------------------------------------------------------------------
def entry(rng):
    r = rng.random()
    if r < 0.40:
        return 0
    if r < 0.66:
        return 1
    if r < 0.80:
        return rng.choice([2, 3, 4])
    return rng.randint(-3, 8)


def matmul(A, B):
    return [[sum(A[i][k] * B[k][j] for k in range(len(B))) for j in range(len(B[0]) if B else 0)] for i in range(len(A))]


def det(M):
    n = len(M)
    if n == 0:
        return 1
    if n == 1:
        return M[0][0]
    return sum(((-1) ** j) * M[0][j] * det([row[:j] + row[j + 1 :] for row in M[1:]]) for j in range(n))


def invertible(rng, r):
    """Random r x r integer matrix with non-zero determinant (mixes result rows: same row space, different rows)."""
    for _ in range(20):
        k = rng.random()
        if k < 0.35:  # permutation
            p = list(range(r))
            rng.shuffle(p)
            U = [[1 if p[i] == j else 0 for j in range(r)] for i in range(r)]
        elif k < 0.7:  # unit triangular with small entries
            U = [[(1 if i == j else (rng.randint(-2, 3) if j < i else 0)) for j in range(r)] for i in range(r)]
        else:
            U = [[rng.randint(-2, 3) for _ in range(r)] for _ in range(r)]
        if det(U) != 0:
            return U
    return [[1 if i == j else 0 for j in range(r)] for i in range(r)]


def n_points(bounds):
    p = 1
    for b in bounds:
        p *= b
    return p


def shrink(bounds, keep_multiple_of=None, limit=MAX_POINTS):
    """Reduce bounds until the box has at most `limit` points.  keep_multiple_of[i] = t keeps bounds[i] a multiple of t
    as long as possible."""
    bounds = list(bounds)
    keep = keep_multiple_of or [None] * len(bounds)
    guard = 0
    while n_points(bounds) > limit and guard < 200:
        guard += 1
        i = max(range(len(bounds)), key=lambda j: bounds[j])
        t = keep[i]
        if t and bounds[i] > t and bounds[i] % t == 0:
            bounds[i] -= t
        elif bounds[i] > 1:
            bounds[i] = max(1, bounds[i] // 2)
        else:
            break
    return bounds


# ------------------------------------------------------------------------------------------------
# templates
# ------------------------------------------------------------------------------------------------
def gen_template(rng):
    """-> dict(tbounds, tmats, family[, chain])"""
    fam = rng.choices(["real", "select", "chain", "random"], [0.30, 0.32, 0.16, 0.22])[0]
    if fam == "real":
        name = rng.choice(sorted(REAL_TEMPLATES))
        t = REAL_TEMPLATES[name]
        return {"tbounds": list(t["tbounds"]), "tmats": [[list(r) for r in m] for m in t["tmats"]], "family": "real:" + name}
    k = rng.choices([1, 2, 3, 4], [0.2, 0.3, 0.35, 0.15])[0]
    if fam == "chain":
        nbase = rng.choice([1, 1, 2])
        chains = []
        for _ in range(nbase):
            ln = rng.choice([1, 2, 2, 3])
            ch = [rng.choice([2, 2, 3, 4]) for _ in range(ln)]  # bounds, outermost first
            if rng.random() < 0.6:
                ch[0] = None  # unbounded outermost level
            chains.append(ch)
        tbounds = [b for ch in chains for b in ch]
        # column multiplier of each level: product of the bounds of the inner levels of the same chain
        mult = []
        for ch in chains:
            for lvl in range(len(ch)):
                m = 1
                for b in ch[lvl + 1 :]:
                    m *= b
                mult.append(m)
        tmats = []
        coefs = []
        for _ in range(k):
            r = rng.choice([1, 1, 2])
            rows_c = [[rng.choice([0, 1, 1, 2]) for _ in range(nbase)] for _ in range(r)]
            if all(c == 0 for row in rows_c for c in row):
                rows_c[0][rng.randrange(nbase)] = 1
            coefs.append(rows_c)
            M = []
            for row in rows_c:
                out = []
                col = 0
                for bi, ch in enumerate(chains):
                    for lvl in range(len(ch)):
                        out.append(row[bi] * mult[col])
                        col += 1
                M.append(out)
            tmats.append(M)
        return {"tbounds": tbounds, "tmats": tmats, "family": "chain", "chains": chains, "coefs": coefs}
    T = rng.choices([1, 2, 3, 4], [0.25, 0.4, 0.3, 0.05])[0]
    tbounds = [rng.choice([2, 3, 4, 4, 6, 8, None, None]) for _ in range(T)]
    tmats = []
    for _ in range(k):
        r = rng.choices([0, 1, 2, 3], [0.04, 0.4, 0.4, 0.16])[0]
        M = []
        for _ in range(r):
            if fam == "select":
                row = [0] * T
                z = rng.random()
                if z < 0.08:
                    pass  # zero row
                elif z < 0.8:
                    row[rng.randrange(T)] = rng.choice([1, 1, 1, 2])
                else:
                    for j in rng.sample(range(T), min(T, 2)):
                        row[j] = rng.choice([1, 1, 2, -1])
            else:
                row = [entry(rng) for _ in range(T)]
            M.append(row)
        tmats.append(M)
    return {"tbounds": tbounds, "tmats": tmats, "family": fam}


# ------------------------------------------------------------------------------------------------
# search cases
# ------------------------------------------------------------------------------------------------
def _checks(rng, k, out_rows):
    checks = []
    if rng.random() < 0.55:
        checks.append("os")
    if rng.random() < 0.45:
        checks.append("mem")
    if rng.random() < 0.12 and out_rows >= 1:
        checks.append("chan:%d" % rng.randrange(min(out_rows, 2)))
    sizes = [rng.choice([1, 1, 2, 4, 4, 8, 8]) for _ in range(k)]
    return checks, sizes


def gen_search(rng):
    t = gen_template(rng)
    tb, tmats = t["tbounds"], t["tmats"]
    T, k = len(tb), len(tmats)
    mode = rng.choices(["planted", "random"], [0.86, 0.14])[0]
    smats_cols = []  # per input dim: list over operands of column (list over rows)
    sb = []
    keep = []
    rows = []
    if mode == "planted" and t["family"] == "chain":
        # one schedule dim per base dim; the scheduler has to rediscover the tile chain
        chains, coefs = t["chains"], t["coefs"]
        rows = [len(c) for c in coefs]
        for bi, ch in enumerate(chains):
            inner = 1
            for b in ch:
                if b is not None:
                    inner *= b
            z = rng.random()
            if ch[0] is None:
                bound = inner * rng.choice([1, 2, 3])
            elif z < 0.8:
                bound = inner
            else:
                bound = inner * 2  # outermost level bounded: one more tile level than the template has -> temporal dim
            if rng.random() < 0.1:
                bound += 1  # indivisible
            sb.append(bound)
            keep.append(inner)
            smats_cols.append([[row[bi] for row in coefs[o]] for o in range(k)])
    elif mode == "planted":
        planted = []
        for o in range(k):
            M = tmats[o]
            r = len(M)
            if r >= 2 and rng.random() < 0.18:
                M = M[rng.randint(1, r - 1) :]  # broadcast: the schedule addresses only the last results
            if M and rng.random() < 0.3:
                M2 = matmul(invertible(rng, len(M)), M)
                if all(abs(x) <= 64 for row in M2 for x in row):
                    M = M2
            if M and rng.random() < 0.06:
                M = M + [list(M[rng.randrange(len(M))])]  # redundant extra result (same row space)
            planted.append(M)
        rows = [len(M) for M in planted]
        for j in range(T):
            t_b = tb[j]
            if t_b is None:
                bound = rng.randint(1, 12)
                keep.append(None)
            else:
                z = rng.random()
                if z < 0.35:
                    bound = rng.randint(1, t_b)
                elif z < 0.85:
                    bound = t_b * rng.choice([1, 2, 2, 3, 4])
                else:
                    bound = t_b + rng.randint(1, t_b - 1) if t_b > 1 else t_b  # not a multiple: the guard must refuse to tile
                keep.append(t_b)
            sb.append(bound)
            smats_cols.append([[row[j] for row in planted[o]] for o in range(k)])
    else:
        rows = [rng.choices([0, 1, 2, 3], [0.05, 0.4, 0.4, 0.15])[0] for _ in range(k)]
        n = rng.randint(1, 4)
        for _ in range(n):
            sb.append(rng.randint(1, 12))
            keep.append(None)
            smats_cols.append([[entry(rng) for _ in range(rows[o])] for o in range(k)])
    # extra (temporal) dims
    n_extra = rng.choices([0, 1, 2, 3], [0.2, 0.4, 0.3, 0.1])[0] if mode == "planted" else 0
    for _ in range(n_extra):
        sb.append(1 if rng.random() < 0.08 else rng.randint(2, 12))
        keep.append(None)
        cols = []
        for o in range(k):
            if rng.random() < 0.4:
                cols.append([0] * rows[o])  # reduction w.r.t. this operand
            else:
                c = [0] * rows[o]
                if rows[o]:
                    c[rng.randrange(rows[o])] = rng.choice([1, 2, 4, 8, 8, 16, 3, -1, entry(rng)])
                    if rng.random() < 0.2:
                        c = [entry(rng) for _ in range(rows[o])]
                cols.append(c)
        smats_cols.append(cols)
    sb = shrink(sb, keep)
    # permute the dims
    order = list(range(len(sb)))
    if rng.random() < 0.85:
        rng.shuffle(order)
    sb = [sb[i] for i in order]
    smats_cols = [smats_cols[i] for i in order]
    smats = [[[smats_cols[d][o][r] for d in range(len(sb))] for r in range(rows[o])] for o in range(k)]
    soffs = [[(rng.randint(-2, 5) if rng.random() < 0.15 else 0) for _ in range(rows[o])] for o in range(k)]
    checks, sizes = _checks(rng, k, rows[-1] if rows else 0)
    idx = None
    if rng.random() < 0.35:
        idx = rng.choice([0, 0, 1, 2, 3, -1])
    return {
        "form": "search",
        "family": t["family"],
        "mode": mode,
        "tbounds": tb,
        "tmats": tmats,
        "sbounds": sb,
        "smats": smats,
        "soffs": soffs,
        "checks": checks,
        "sizes": sizes,
        "idx": idx,
    }


# ------------------------------------------------------------------------------------------------
# elementary transformation cases
# ------------------------------------------------------------------------------------------------
def gen_elementary(rng):
    k = rng.choices([1, 2, 3, 4], [0.15, 0.35, 0.3, 0.2])[0]
    n = rng.choices([0, 1, 2, 3, 4, 5], [0.02, 0.1, 0.3, 0.3, 0.2, 0.08])[0]
    rows = [rng.choices([0, 1, 2, 3, 4], [0.04, 0.3, 0.36, 0.2, 0.1])[0] for _ in range(k)]
    sb = [1 if rng.random() < 0.15 else rng.randint(2, 12) for _ in range(n)]
    sb = shrink(sb, limit=rng.choice([600, 3000, MAX_POINTS]))
    zero_cols = {d for d in range(n) if rng.random() < 0.1}
    smats = []
    for o in range(k):
        M = []
        for _ in range(rows[o]):
            if rng.random() < 0.08:
                M.append([0] * n)
            else:
                M.append([0 if d in zero_cols else entry(rng) for d in range(n)])
        smats.append(M)
    soffs = [[(rng.randint(-3, 6) if rng.random() < 0.3 else 0) for _ in range(rows[o])] for o in range(k)]
    # a random chain of transformations applied one after the other (args are resolved against the running schedule by
    # the check: "rotate" arg = fraction of num_dims, "tile" = (fraction of dims, index into divisor list))
    chain = []
    for _ in range(rng.randint(1, 4)):
        op = rng.choice(["rotate", "rotate", "tile", "tile", "add_dim", "clear", "canon"])
        chain.append([op, rng.random(), rng.random()])
    return {"form": "elementary", "sbounds": sb, "smats": smats, "soffs": soffs, "chain": chain}


# ------------------------------------------------------------------------------------------------
# matcher differential cases
# ------------------------------------------------------------------------------------------------
def gen_matches(rng):
    T = rng.choices([1, 2, 3, 4, 5], [0.15, 0.3, 0.3, 0.2, 0.05])[0]
    rt = rng.choices([0, 1, 2, 3, 4], [0.03, 0.3, 0.35, 0.22, 0.1])[0]
    fam = rng.choice(["mixed", "mixed", "perturbed", "rankdef", "nearpar", "broadcast", "random", "zero", "short", "extra_rows"])
    big = rng.random() < 0.25
    lo, hi = (-64, 64) if big else (-3, 8)

    def e():
        return rng.randint(lo, hi) if (big and rng.random() < 0.6) else entry(rng)

    At = [[e() for _ in range(T)] for _ in range(rt)]
    n_outer = rng.choice([0, 0, 1, 2])
    As = None
    if fam in ("mixed", "perturbed", "extra_rows") and rt:
        for _ in range(10):
            As = matmul(invertible(rng, rt), At)
            if all(abs(x) <= 64 for r in As for x in r):
                break
        else:
            As = [list(r) for r in At]
        if fam == "perturbed":
            i, j = rng.randrange(rt), rng.randrange(T)
            As[i][j] += rng.choice([-1, 1, 2])
        if fam == "extra_rows":
            c = [rng.randint(-2, 2) for _ in range(rt)]
            As.append([max(-64, min(64, sum(c[i] * At[i][j] for i in range(rt)))) for j in range(T)])
    elif fam == "rankdef" and rt >= 2:
        At[-1] = [2 * x for x in At[0]]
        As = [list(At[0])] + [[e() for _ in range(T)] for _ in range(rt - 1) if rng.random() < 0.5]
    elif fam == "nearpar" and T >= 2:
        base = [rng.randint(40, 64) for _ in range(T)]
        At = [base]
        As = [[x - 1 for x in base]] if rng.random() < 0.7 else [[2 * x if abs(2 * x) <= 64 else x for x in base]]
        if rng.random() < 0.3:
            As = [list(base)]
            As[0][rng.randrange(T)] -= 1
    elif fam == "broadcast" and rt >= 2:
        drop = rng.randint(1, rt - 1)
        As = [list(r) for r in At[drop:]]
        if rng.random() < 0.3:
            As = [list(r) for r in At[: rt - drop]]  # the *first* results: must only match if the spaces coincide
    elif fam == "zero":
        At = [[0] * T for _ in range(rt)]
        As = [[0] * T for _ in range(rng.randint(0, 2))] if rng.random() < 0.6 else [[e() for _ in range(T)]]
    elif fam == "short":
        n_outer = -rng.randint(1, T) if T >= 1 else 0
    if As is None:
        rs = rng.choices([0, 1, 2, 3, 4], [0.03, 0.3, 0.35, 0.22, 0.1])[0]
        As = [[e() for _ in range(T)] for _ in range(rs)]
    if n_outer > 0:
        As = [[e() for _ in range(n_outer)] + r for r in As]
    elif n_outer < 0:
        As = [r[-n_outer:] for r in As]
    n = T + n_outer
    return {
        "form": "matches",
        "family": fam,
        "tbounds": [rng.choice([None, 2, 4, 8]) for _ in range(T)],
        "tmat": At,
        "sbounds": [rng.randint(1, 9) for _ in range(n)],
        "smat": As,
    }


# ------------------------------------------------------------------------------------------------
# pass-level cases: one dart.operation for `insert-accfg-op{..},dart-scheduler`
# ------------------------------------------------------------------------------------------------
def _amap(n, results, consts=None):
    dims = ", ".join(f"d{i}" for i in range(n))
    consts = consts or [0] * len(results)

    def term(coefs, c=0):
        parts = []
        for d, a in enumerate(coefs):
            if a == 0:
                continue
            parts.append(f"d{d}" if a == 1 else f"(d{d} * {a})")
        if not parts:
            return str(c)
        s = parts[0]
        for p in parts[1:]:
            s = f"({s} + {p})"
        if c:
            s = f"({s} + {c})"
        return s

    return f"affine_map<({dims}) -> ({', '.join(term(r, c) for r, c in zip(results, consts))})>"


def _shape_of(bounds, results, consts=None):
    consts = consts or [0] * len(results)
    return [sum(c * (bounds[d] - 1) for d, c in enumerate(r)) + 1 + k for r, k in zip(results, consts)]


def unit(n, d, c=1):
    return [c if i == d else 0 for i in range(n)]


def gen_pass(rng):
    """One operation, or (one case in six) two operations of the same kind, patterns and element types but different shapes in
    one module: whatever the scheduling pass remembers from the first must not leak into the second."""
    c1 = _gen_pass_one(rng)
    if rng.random() < 0.17:
        for _ in range(40):
            c2 = _gen_pass_one(rng)
            same = c2["kind"] == c1["kind"] and c2["patterns"] == c1["patterns"] and c2["consts"] == c1["consts"]
            if same and c2["elem_bytes"] != c1["elem_bytes"] and c2["bounds"] == c1["bounds"]:
                # same shape, other element type: the constraints the pass requests differ although template and patterns agree
                c = dict(c1)
                c["text"] = c1["text"] + c2["text"].replace("func.func @f(", "func.func @f2(")
                c["multi"] = [list(c1["bounds"]), list(c2["bounds"])]
                c["kind"] = c1["kind"] + "+same-shape-other-element-type"
                return c
            if same and c2["elem_bytes"] == c1["elem_bytes"] and c2["bounds"] != c1["bounds"]:
                c = dict(c1)
                c["text"] = c1["text"] + c2["text"].replace("func.func @f(", "func.func @f2(")
                c["multi"] = [list(c1["bounds"]), list(c2["bounds"])]
                c["kind"] = c1["kind"] + "+same-kind-other-shape"
                return c
    return c1


def _gen_pass_one(rng):
    """-> dict(form='pass', text, accelerator, kind, bounds, patterns (matrices), elem_bits)"""
    kind = rng.choices(["matmul", "matmul_t", "bmm", "conv", "gemm_add", "rescale", "rescale1d", "alu", "alu_nd", "alu_bcast"], [0.2, 0.1, 0.08, 0.12, 0.08, 0.1, 0.04, 0.12, 0.1, 0.06])[0]

    def dim8():
        return rng.choice([8, 8, 16, 16, 24, 32, 4, 1, 12, 5])

    body_kind = "qmac"
    if kind in ("matmul", "matmul_t", "gemm_add"):
        M, N, K = dim8(), dim8(), dim8()
        bounds = [M, N, K]
        pats = [[unit(3, 0), unit(3, 2)], [unit(3, 2), unit(3, 1)], [unit(3, 0), unit(3, 1)]]
        if kind == "matmul_t":
            pats[rng.randrange(2)].reverse()
        bits = [8, 8, 32]
        acc = "snax_gemmx"
        if kind == "gemm_add":
            pats.append([unit(3, 0), unit(3, 1)])
            bits = [8, 8, 32, 32]
            body_kind = "qmac_add"
    elif kind == "bmm":
        B, M, N, K = rng.choice([1, 2, 3]), dim8(), dim8(), dim8()
        bounds = [B, M, N, K]
        pats = [[unit(4, 0), unit(4, 1), unit(4, 3)], [unit(4, 0), unit(4, 3), unit(4, 2)], [unit(4, 0), unit(4, 1), unit(4, 2)]]
        bits = [8, 8, 32]
        acc = "snax_gemmx"
    elif kind == "conv":
        # O[n, oh, ow, f] += I[n, oh*s + fh, ow*s + fw, c] * W[f, fh, fw, c]   dims: n oh ow f fh fw c
        s = rng.choice([1, 1, 2])
        bounds = [1, rng.choice([2, 4, 8]), rng.choice([8, 16]), rng.choice([8, 16]), rng.choice([1, 2, 3]), rng.choice([1, 2, 3]), rng.choice([8, 16])]
        n = 7
        I = [unit(n, 0), [0, s, 0, 0, 1, 0, 0], [0, 0, s, 0, 0, 1, 0], unit(n, 6)]
        W = [unit(n, 3), unit(n, 4), unit(n, 5), unit(n, 6)]
        O = [unit(n, 0), unit(n, 1), unit(n, 2), unit(n, 3)]
        pats = [I, W, O]
        bits = [8, 8, 32]
        acc = "snax_gemmx"
    elif kind in ("rescale", "rescale1d"):
        if kind == "rescale1d":
            bounds = [rng.choice([8, 16, 64, 4])]
            pats = [[unit(1, 0)], [unit(1, 0)]]
        else:
            bounds = [dim8(), dim8()]
            pats = [[unit(2, 0), unit(2, 1)], [unit(2, 0), unit(2, 1)]]
            if rng.random() < 0.3:
                pats[0].reverse()
        bits = [32, 8]
        acc = "snax_gemmx"
        body_kind = "test2"
    else:
        acc = "snax_alu"
        body_kind = "test3"
        bits = [rng.choice([64, 64, 32, 16, 8])] * 3
        if kind == "alu":
            bounds = [rng.choice([4, 8, 16, 64, 12, 6, 2, 1, 20])]
            pats = [[unit(1, 0)]] * 3
        elif kind == "alu_nd":
            bounds = [rng.choice([1, 2, 3, 4]), rng.choice([4, 8, 16, 6])]
            pats = [[unit(2, 0), unit(2, 1)]] * 3
            if rng.random() < 0.4:
                pats = [pats[0], [unit(2, 1), unit(2, 0)], pats[0]]
        else:
            bounds = [rng.choice([2, 3, 4]), rng.choice([4, 8, 16])]
            pats = [[unit(2, 0), unit(2, 1)], [unit(2, 1)], [unit(2, 0), unit(2, 1)]]
    while n_points(bounds) > MAX_POINTS:
        i = max(range(len(bounds)), key=lambda j: bounds[j])
        bounds[i] = max(1, bounds[i] // 2)
    n = len(bounds)
    pats = [[list(r) for r in p] for p in pats]
    consts = [[0] * len(p) for p in pats]
    if rng.random() < 0.2:
        # a constant offset on one result of one input operand (the dim must stay inferable from another pure result)
        o = rng.randrange(len(pats) - 1)
        r = rng.randrange(len(pats[o]))
        row = pats[o][r]
        pure_elsewhere = all(
            c == 0 or any(rr == unit(n, d) for oo, pp in enumerate(pats) for ri, rr in enumerate(pp) if (oo, ri) != (o, r))
            for d, c in enumerate(row)
        )
        if pure_elsewhere:
            consts[o][r] = rng.choice([1, 2, 3])
    base_kind = kind
    if rng.random() < 0.12:
        # an operand dimension pinned to a non-zero constant: a result that depends on no iteration dimension at all
        o = rng.randrange(len(pats))
        r = rng.randrange(len(pats[o]) + 1)
        pats[o].insert(r, [0] * n)
        consts[o].insert(r, rng.choice([1, 2, 3, 5]))
        kind = kind + "+pinned-dim"
    shapes = [_shape_of(bounds, p, k) for p, k in zip(pats, consts)]
    tys = [f"memref<{'x'.join(map(str, sh))}xi{b}>" for sh, b in zip(shapes, bits)]
    args = ", ".join(f"%a{i} : {t}" for i, t in enumerate(tys))
    nin = len(pats) - 1
    streams = ", ".join(f"%s{i} : !dart.stream<i{b}>" for i, b in enumerate(bits))
    maps = ", ".join(_amap(n, p, k) for p, k in zip(pats, consts))
    ob = bits[-1]
    pre = ""
    if body_kind == "qmac":
        pre = "  %z = arith.constant 0 : i32\n"
        body = (
            f'    %g = "dart.generic"(%s0, %s1, %z, %z) <{{library_call = "snax_gemmx"}}> ({{\n'
            f"    ^bb1(%i0 : i8, %i1 : i8, %i2 : i32, %i3 : i32, %o : i32):\n"
            f"      %m = kernel.qmac %i0, %i1 zp_lhs : %i2 zp_rhs : %i3 : i8, i8, i32, i32 -> i32\n"
            f"      dart.yield %m : i32\n"
            f"    }}) : (!dart.stream<i8>, !dart.stream<i8>, i32, i32) -> !dart.stream<i32>\n"
            f"    dart.yield %g : !dart.stream<i32>\n"
        )
    elif body_kind == "qmac_add":
        pre = "  %z = arith.constant 0 : i32\n"
        body = (
            f'    %g = "dart.generic"(%s0, %s1, %z, %z) <{{library_call = "snax_gemmx"}}> ({{\n'
            f"    ^bb1(%i0 : i8, %i1 : i8, %i2 : i32, %i3 : i32, %o : i32):\n"
            f"      %m = kernel.qmac %i0, %i1 zp_lhs : %i2 zp_rhs : %i3 : i8, i8, i32, i32 -> i32\n"
            f"      dart.yield %m : i32\n"
            f"    }}) : (!dart.stream<i8>, !dart.stream<i8>, i32, i32) -> !dart.stream<i32>\n"
            f'    %h = "dart.generic"(%g, %s2) <{{library_call = "snax_gemmx"}}> ({{\n'
            f"    ^bb2(%j0 : i32, %j1 : i32, %o2 : i32):\n"
            f"      %ad = kernel.add %j0, %j1 : i32, i32 -> i32\n"
            f"      dart.yield %ad : i32\n"
            f"    }}) : (!dart.stream<i32>, !dart.stream<i32>) -> !dart.stream<i32>\n"
            f"    dart.yield %h : !dart.stream<i32>\n"
        )
    elif body_kind == "test2":
        body = (
            f'    %g = "dart.generic"(%s0) ({{\n'
            f"    ^bb1(%i0 : i{bits[0]}, %o : i{ob}):\n"
            f'      %m = "test.op"(%i0) : (i{bits[0]}) -> i{ob}\n'
            f"      dart.yield %m : i{ob}\n"
            f"    }}) : (!dart.stream<i{bits[0]}>) -> !dart.stream<i{ob}>\n"
            f"    dart.yield %g : !dart.stream<i{ob}>\n"
        )
    else:
        body = (
            f'    %g = "dart.generic"(%s0, %s1) ({{\n'
            f"    ^bb1(%i0 : i{ob}, %i1 : i{ob}, %o : i{ob}):\n"
            f'      %m = "test.op"(%i0, %i1) : (i{ob}, i{ob}) -> i{ob}\n'
            f"      dart.yield %m : i{ob}\n"
            f"    }}) : (!dart.stream<i{ob}>, !dart.stream<i{ob}>) -> !dart.stream<i{ob}>\n"
            f"    dart.yield %g : !dart.stream<i{ob}>\n"
        )
    operands = ", ".join(f"%a{i}" for i in range(len(pats)))
    text = (
        f"func.func @f({args}) {{\n{pre}"
        f'  "dart.operation"({operands}) <{{patterns = [{maps}], accelerator = "{acc}", '
        f"operandSegmentSizes = array<i32: {nin}, 1>}}> ({{\n"
        f"  ^bb0({streams}):\n{body}"
        f"  }}) : ({', '.join(tys)}) -> ()\n  func.return\n}}\n"
    )
    table = {"matmul": "gemmx_matmul", "matmul_t": "gemmx_matmul", "bmm": "gemmx_matmul", "conv": "gemmx_matmul", "gemm_add": "gemmx_gemm", "rescale": "gemmx_rescale", "rescale1d": "gemmx_rescale"}.get(base_kind, "snax_alu")
    return {
        "form": "pass",
        "kind": kind,
        "accelerator": acc,
        "text": text,
        "bounds": bounds,
        "patterns": pats,
        "consts": consts,
        "elem_bytes": [b // 8 for b in bits],
        "template": table,
    }


def points_ok(case):
    return n_points(case["sbounds"]) <= MAX_POINTS


# ------------------------------------------------------------------------------------------------
# builders of the real objects (lazy imports: the generator itself never needs the repo)
# ------------------------------------------------------------------------------------------------
def _np_mat(M, ncols):
    import numpy as np

    return np.array(M, dtype=np.int_).reshape(len(M), ncols)


def build_schedule(sbounds, smats, soffs=None):
    import numpy as np

    from snaxc.ir.dart.access_pattern import Schedule, SchedulePattern
    from snaxc.ir.dart.affine_transform import AffineTransform

    n = len(sbounds)
    pats = []
    for i, M in enumerate(smats):
        b = np.array(soffs[i] if soffs else [0] * len(M), dtype=np.int_).reshape(len(M))
        pats.append(SchedulePattern(tuple(sbounds), AffineTransform(_np_mat(M, n), b)))
    return Schedule(pats)


def build_template(tbounds, tmats):
    import numpy as np

    from snaxc.ir.dart.access_pattern import Template, TemplatePattern
    from snaxc.ir.dart.affine_transform import AffineTransform

    T = len(tbounds)
    return Template(TemplatePattern(tuple(tbounds), AffineTransform(_np_mat(M, T), np.zeros(len(M), dtype=np.int_))) for M in tmats)
