"""G-accdecl: accelerator instances over the configuration space (what a config file can describe)."""
from __future__ import annotations

import itertools
import random

import vf.compat  # noqa


def _imports():
    from snaxc.accelerators.snax_alu import SNAXAluAccelerator
    from snaxc.accelerators.snax_gemmx import SNAXGEMMXAccelerator
    from snaxc.accelerators.snax_hwpe_mult import SNAXHWPEMultAccelerator
    from snaxc.accelerators.snax_xdma import SNAXXDMAAccelerator
    from snaxc.accelerators.gemmini import GemminiAccelerator
    from snaxc.accelerators.streamers import streamers as S
    from snaxc.accelerators.streamers import extensions as E

    return SNAXAluAccelerator, SNAXGEMMXAccelerator, SNAXHWPEMultAccelerator, SNAXXDMAAccelerator, GemminiAccelerator, S, E


REG_OPTS = ["HasAddressRemap", "HasChannelMask", "HasBroadcast", "TransposeExtension"]
XDMA_EXTS = ["MaxPoolExtension", "AddExtension", "AddLongExtension", "RescaleDownExtension", "RescaleUpExtension", "MemSetExtension", "TransposeExtension"]
XDMA_OPTS = ["HasChannelMask", "HasByteMask", "HasBroadcast"]


def make_opt(name):
    *_, S, E = _imports()
    cls = getattr(S, name, None) or getattr(E, name)
    return cls()


def make_streamer(kind, tflags, sdims, opts):
    *_, S, E = _imports()
    return S.Streamer(S.StreamerType.Reader if kind == "r" else S.StreamerType.Writer, list(tflags), list(sdims), [make_opt(o) for o in opts])


def rand_streamer_desc(rng, kind, opts_pool, max_t=6, max_s=2, p_opt=0.5):
    t = rng.randint(1, max_t)
    flags = [rng.choice(["n", "n", "n", "i", "r"]) for _ in range(t)]
    sd = [rng.choice([1, 2, 4, 8, 16]) for _ in range(rng.randint(1, max_s))]
    opts = [o for o in opts_pool if rng.random() < p_opt]
    return (kind, tuple(flags), tuple(sd), tuple(opts))


def build(desc):
    """desc = (cls, streamer descs, extra) -> accelerator instance.  Everything JSON-able for replay."""
    Alu, Gemmx, Hwpe, Xdma, Gemmini, S, E = _imports()
    cls, sdescs, extra = desc
    if cls == "phs":
        return build_phs(extra)
    if cls == "hwpe":
        return Hwpe()
    if cls == "gemmini":
        return Gemmini()
    if sdescs is None:
        return {"alu": Alu, "gemmx": Gemmx, "xdma": Xdma}[cls]()
    streamers = [make_streamer(*sd) for sd in sdescs]
    if cls == "alu":
        return Alu(S.StreamerConfiguration(streamers))
    if cls == "gemmx":
        m, n, k = extra
        return Gemmx(S.StreamerConfiguration(streamers), m, n, k)
    if cls == "xdma":
        return Xdma(S.StreamerConfiguration(streamers, S.StreamerSystemType.DmaExt))
    raise ValueError(cls)


_phs_keep = []


def build_phs(extra):
    """extra = (kernel module texts in merge order, template map texts, template bounds): the PE is produced by the REAL encoder
    and the REAL merge (snaxc.phs.encode / combine), the accelerator by the real SNAXPHSAccelerator."""
    from xdsl.parser import Parser
    from xdsl.pattern_rewriter import PatternRewriter

    from snaxc.accelerators.snax_phs import SNAXPHSAccelerator
    from snaxc.phs.combine import append_to_abstract_graph
    from snaxc.phs.encode import convert_generic_body_to_phs
    from snaxc.phs.template_spec import TemplateSpec
    from vf.ctx import make_ctx, parse

    texts, maps, bounds = extra
    c = make_ctx()
    pe = None
    for t in texts:
        m = parse(c, t)
        g = [op for op in m.walk() if op.name == "linalg.generic"][0]
        k = convert_generic_body_to_phs(g, "phsacc", PatternRewriter(g))
        _phs_keep.append(m)
        if pe is None:
            pe = k
        else:
            append_to_abstract_graph(k, pe)
    del _phs_keep[:-32]
    amaps = [Parser(c, f"affine_map<{mp}>").parse_attribute().data for mp in maps]
    spec = TemplateSpec(tuple(amaps[:-1]), (amaps[-1],), tuple(bounds))
    return SNAXPHSAccelerator(pe, spec)


def gen_phs_desc(rng: random.Random):
    from vf.gen import phs_gen as G

    while True:
        h = G.gen_history(rng)
        if h["klass"] == "uniform":
            break
    ks = h["kernels"]
    n_in = ks[0]["n_in"]
    rank = rng.choice([1, 1, 2])
    dims = ", ".join(f"d{i}" for i in range(rank))

    def amap():
        if rank == 1:
            return f"({dims}) -> (d0)"
        return f"({dims}) -> ({rng.choice(['d0, d1', 'd1, d0', 'd0', 'd1'])})"

    maps = [amap() for _ in range(n_in + 1)]
    bounds = [rng.choice([1, 2, 4, 8]) for _ in range(rank)]
    return ("phs", None, (tuple(G.render_kernel(k) for k in ks), tuple(maps), tuple(bounds)))


def gen_desc(rng: random.Random, classes=("hwpe", "alu", "gemmx", "xdma"), p_default=0.3):
    cls = rng.choice(classes)
    if cls in ("hwpe", "gemmini"):
        return (cls, None, None)
    if rng.random() < p_default:
        return (cls, None, None)
    if cls == "alu":
        return (cls, [rand_streamer_desc(rng, k, REG_OPTS) for k in "rrw"], None)
    if cls == "gemmx":
        # same structure as SNAXGEMMXAccelerator.from_config: A,B readers; D8 writer; C reader; D32 writer
        def sd(kind, first, opts, max_s=1):
            t = rng.randint(1, 6)
            flags = (first,) + ("n",) * (t - 1)
            sdims = tuple(rng.choice([1, 2, 4, 8]) for _ in range(rng.randint(1, max_s)))
            return (kind, flags, sdims, tuple(opts))

        sds = [
            sd("r", "n", ["TransposeExtension", "HasAddressRemap"]),
            sd("r", "n", ["TransposeExtension", "HasAddressRemap"]),
            sd("w", "r", ["HasAddressRemap"]),
            sd("r", "r", ["HasChannelMask", "HasAddressRemap", "HasBroadcast"], 2),
            sd("w", "r", ["HasAddressRemap"], 2),
        ]
        m, n, k = (rng.choice([1, 2, 4, 8, 16]) for _ in range(3))
        return (cls, sds, (m, n, k))
    if cls == "xdma":
        r = rand_streamer_desc(rng, "r", XDMA_EXTS + XDMA_OPTS, max_s=1)
        w = rand_streamer_desc(rng, "w", XDMA_EXTS + XDMA_OPTS, max_s=1)
        return (cls, [r, w], None)
    raise ValueError(cls)


def uniform_box(cls):
    """Exhaustive box: every streamer of the accelerator gets the same (temporal dims, spatial dims, option subset)."""
    if cls == "alu":
        pool, kinds = REG_OPTS, "rrw"
    elif cls == "xdma":
        pool, kinds = ["AddExtension", "RescaleDownExtension", "HasChannelMask", "HasByteMask"], "rw"
    else:
        raise ValueError(cls)
    for t in range(1, 7):
        for s in (1, 2):
            for r in range(len(pool) + 1):
                for opts in itertools.combinations(pool, r):
                    flags = ("n",) * t
                    yield (cls, [(k, flags, (4,) * s, tuple(opts)) for k in kinds], None)


def spec_of(acc):
    """acc_specs entry for vf.gen.accfg_gen from a real accelerator instance."""
    from vf.ctx import to_text

    op = acc.generate_acc_op()
    return {
        "name": op.name_prop.string_value(),
        "fields": [k for k in op.fields.data.keys()],
        "launch_fields": [k for k in op.launch_fields.data.keys()],
        "decl": to_text(op),
    }
