"""G-stream: dart.operation ops on memrefs for snax_alu / snax_gemmx / snax_xdma (module text + description)."""
from __future__ import annotations

import random

from vf.gen.copy_gen import dense_steps, factorize, tsl_text

QMAC = """      %g = "dart.generic"(%s0, %s1, %zp, %zp) <{library_call = "snax_gemmx"}> ({
      ^bb1(%x: i8, %y: i8, %za: i32, %zb: i32, %o: i32):
        %k = kernel.qmac %x, %y zp_lhs : %za zp_rhs : %zb : i8, i8, i32, i32 -> i32
        dart.yield %k : i32
      }) : (!dart.stream<i8>, !dart.stream<i8>, i32, i32) -> !dart.stream<i32>"""
MAC = """      %g = "dart.generic"(%s0, %s1) <{library_call = "snax_gemmx"}> ({
      ^bb1(%x: i8, %y: i8, %o: i32):
        %k = kernel.mac %x, %y : i8, i8 -> i32
        dart.yield %k : i32
      }) : (!dart.stream<i8>, !dart.stream<i8>) -> !dart.stream<i32>"""
RESCALE_ATTRS = "{input_zp = 3 : i32, output_zp = -5 : i32, multiplier = array<i32: 12345>, shift = array<i8: 30>, min_int = -128 : i32, max_int = 127 : i32, double_round = true}"


def amap(ndims, exprs):
    ds = ", ".join(f"d{i}" for i in range(ndims))
    return f"affine_map<({ds}) -> ({', '.join(exprs)})>"


def layout_text(rng, shape, kind):
    """Returns layout suffix text for a memref type ('' for none)."""
    rank = len(shape)
    if kind == "none":
        return ""
    if kind == "strided":
        order = list(range(rank))
        rng.shuffle(order)
        strides = [0] * rank
        cur = 1
        for d in order:
            strides[d] = cur
            cur *= shape[d]
            if rng.random() < 0.2:
                cur += rng.choice([1, 8, 16])
        off = rng.choice([0, 0, 0, 8, 64])
        return f", strided<[{', '.join(map(str, strides))}]" + (f", offset: {off}" if off else "") + ">"
    if kind == "tsl":
        tb = [factorize(rng, n, rng.choice([1, 2])) for n in shape]
        for d, n in enumerate(shape):
            if n % 8 == 0 and rng.random() < 0.7:
                tb[d] = [n // 8, 8]
        steps = dense_steps(rng, tb, pad=0.1)
        off = rng.choice([0, 0, 0, 8, 64])
        return ", " + tsl_text(tb, steps, off)
    if kind == "tsl_good":
        # layouts of the shape the accelerators stream from: 8x8 (or 4-element) inner tiles that are contiguous, outer tiles in any
        # order with optional padding and an optional offset
        if len(shape) == 2 and all(n % 8 == 0 for n in shape):
            tb = [[shape[0] // 8, 8], [shape[1] // 8, 8]]
            inner = rng.choice([(8, 1), (1, 8)])
            outer = [0, 1]
            rng.shuffle(outer)
            steps = [[0, inner[0]], [0, inner[1]]]
            cur = 64
            for d in outer:
                steps[d][0] = cur
                cur *= tb[d][0]
                if rng.random() < 0.25:
                    cur += 64 * rng.randint(1, 3)
            off = rng.choice([0, 0, 0, 64, 128])
            if rng.random() < 0.35:
                # the same address function written with three tile levels in a dimension (outer level split in two)
                for d in (0, 1):
                    if tb[d][0] % 2 == 0 and tb[d][0] >= 2 and rng.random() < 0.7:
                        tb[d] = [tb[d][0] // 2, 2, tb[d][1]]
                        steps[d] = [2 * steps[d][0], steps[d][0], steps[d][1]]
            return ", " + tsl_text(tb, steps, off)
        if len(shape) == 1 and shape[0] % 4 == 0:
            t = rng.choice([4, 4, shape[0]])
            tb = [[shape[0] // t, t]]
            steps = [[t + rng.choice([0, 0, 4]), 1]]
            off = rng.choice([0, 0, 0, 4, 16])
            return ", " + tsl_text(tb, steps, off)
        return ""
    raise ValueError(kind)


def mtype(rng, shape, el, kind):
    return f"memref<{'x'.join(map(str, shape))}x{el}{layout_text(rng, shape, kind)}>"


def gen_op(rng: random.Random, layouts=("none",), kinds=None, gram=False):
    """One dart.operation in a function @main taking the operand memrefs as arguments."""
    kinds = kinds or ["gemmx_matmul", "gemmx_matmul", "gemmx_gemm", "gemmx_matmul_rescale", "gemmx_gemm_rescale", "gemmx_rescale", "gemmx_conv", "alu", "alu", "xdma_add"]
    kind = rng.choice(kinds)
    lk = lambda: rng.choice(layouts)  # noqa: E731
    dims8 = [8, 16, 24, 32, 40, 48]
    odd = rng.random() < 0.12
    pick = lambda: rng.choice(dims8) if not odd else rng.choice([4, 12, 20, 8, 16])  # noqa: E731
    prelude = "    %zp = arith.constant 0 : i32\n"
    if kind.startswith("gemmx_matmul") or kind in ("gemmx_gemm", "gemmx_gemm_rescale"):
        M, N, K = pick(), pick(), pick()
        if kind == "gemmx_matmul" and (gram or rng.random() < 0.35):
            N = M
        i8_out = kind in ("gemmx_matmul_rescale", "gemmx_gemm_rescale")
        rescale_attrs = RESCALE_ATTRS
        if i8_out and rng.random() < 0.4:
            # per-output-channel quantisation: one multiplier / shift per column of the result
            mults = ", ".join(str(rng.randrange(1, 1 << 20)) for _ in range(N))
            shifts = ", ".join(str(rng.randrange(8, 40)) for _ in range(N))
            rescale_attrs = f"{{input_zp = 3 : i32, output_zp = -5 : i32, multiplier = array<i32: {mults}>, shift = array<i8: {shifts}>, min_int = -128 : i32, max_int = 127 : i32, double_round = true}}"
        shapes = [[M, K], [K, N]]
        els = ["i8", "i8"]
        maps = [amap(3, ["d0", "d2"]), amap(3, ["d2", "d1"])]
        body = rng.choice([QMAC, MAC])
        streams = ["i8", "i8"]
        last = "%g"
        if kind in ("gemmx_gemm", "gemmx_gemm_rescale"):
            shapes.append([M, N])
            els.append("i32")
            maps.append(amap(3, ["d0", "d1"]))
            streams.append("i32")
            body += """
      %g2 = "dart.generic"(%g, %s2) <{library_call = "snax_gemmx"}> ({
      ^bb2(%x2: i32, %y2: i32, %o2: i32):
        %k2 = kernel.add %x2, %y2 : i32, i32 -> i32
        dart.yield %k2 : i32
      }) : (!dart.stream<i32>, !dart.stream<i32>) -> !dart.stream<i32>"""
            last = "%g2"
        if i8_out:
            body += f"""
      %g3 = "dart.generic"({last}) <{{library_call = "snax_gemmx"}}> ({{
      ^bb3(%x3: i32, %o3: i8):
        %k3 = "kernel.rescale"(%x3) {rescale_attrs} : (i32) -> i8
        dart.yield %k3 : i8
      }}) : (!dart.stream<i32>) -> !dart.stream<i8>"""
            last = "%g3"
        oel = "i8" if i8_out else "i32"
        shapes.append([M, N])
        els.append(oel)
        maps.append(amap(3, ["d0", "d1"]))
        streams.append(oel)
        acc = "snax_gemmx"
        yield_t = oel
    elif kind == "gemmx_rescale":
        M, K = pick(), pick()
        shapes = [[M, K], [M, K]]
        els = ["i32", "i8"]
        maps = [amap(2, ["d0", "d1"])] * 2
        streams = ["i32", "i8"]
        body = f"""      %g = "dart.generic"(%s0) <{{library_call = "snax_gemmx"}}> ({{
      ^bb1(%x: i32, %o: i8):
        %k = "kernel.rescale"(%x) {RESCALE_ATTRS} : (i32) -> i8
        dart.yield %k : i8
      }}) : (!dart.stream<i32>) -> !dart.stream<i8>"""
        last, acc, yield_t = "%g", "snax_gemmx", "i8"
    elif kind == "gemmx_conv":
        C, F = rng.choice([8, 16]), rng.choice([8, 16])
        H, W = rng.choice([8, 16]), rng.choice([8, 16])
        kh, kw = rng.choice([1, 3]), rng.choice([1, 3])
        shapes = [[1, C, H + kh - 1, W + kw - 1], [F, C, kh, kw], [1, F, H, W]]
        els = ["i8", "i8", "i32"]
        # dims: n, f, oh, ow, c, kh, kw
        maps = [amap(7, ["d0", "d4", "d2 + d5", "d3 + d6"]), amap(7, ["d1", "d4", "d5", "d6"]), amap(7, ["d0", "d1", "d2", "d3"])]
        streams = ["i8", "i8", "i32"]
        body, last, acc, yield_t = MAC, "%g", "snax_gemmx", "i32"
    elif kind == "alu":
        n = rng.choice([4, 8, 16, 24, 64]) if not odd else rng.choice([6, 10, 16])
        two_d = rng.random() < 0.3
        shp = [rng.choice([2, 3, 4]), n] if two_d else [n]
        nd = len(shp)
        shapes = [shp] * 3
        els = ["i64"] * 3
        maps = [amap(nd, [f"d{i}" for i in range(nd)])] * 3
        streams = ["i64"] * 3
        kop = rng.choice(["kernel.add", "kernel.mul"])
        body = f"""      %g = "dart.generic"(%s0, %s1) <{{library_call = "snax_alu"}}> ({{
      ^bb1(%x: i64, %y: i64, %o: i64):
        %k = {kop} %x, %y : i64, i64 -> i64
        dart.yield %k : i64
      }}) : (!dart.stream<i64>, !dart.stream<i64>) -> !dart.stream<i64>"""
        last, acc, yield_t = "%g", "snax_alu", "i64"
    elif kind == "xdma_add":
        n = rng.choice([16, 32, 64, 128])
        shapes = [[n]] * 3
        els = ["i32"] * 3
        maps = [amap(1, ["d0"])] * 3
        streams = ["i32"] * 3
        body = """      %g = "dart.generic"(%s0, %s1) <{library_call = "snax_xdma"}> ({
      ^bb1(%x: i32, %y: i32, %o: i32):
        %k = kernel.add %x, %y : i32, i32 -> i32
        dart.yield %k : i32
      }) : (!dart.stream<i32>, !dart.stream<i32>) -> !dart.stream<i32>"""
        last, acc, yield_t = "%g", "snax_xdma", "i32"
    else:
        raise ValueError(kind)
    lks = [lk() for _ in shapes]
    types = [mtype(rng, s, e, k) for s, e, k in zip(shapes, els, lks)]
    names = [f"%a{i}" for i in range(len(shapes))]
    if kind == "gemmx_matmul" and shapes[0] == [shapes[1][1], shapes[1][0]] and (gram or rng.random() < 0.7):
        # Gram matrix P * P^T: ONE buffer is passed for both inputs and read through two different access patterns
        maps[1] = amap(3, ["d1", "d2"])
        types[1] = types[0]
        names[1] = names[0]
        kind = "gemmx_matmul+same-buffer-twice"
    args = ", ".join(f"{nm}: {t}" for i, (nm, t) in enumerate(zip(names, types)) if nm not in names[:i])
    blk = ", ".join(f"%s{i}: !dart.stream<{e}>" for i, e in enumerate(streams))
    n_in = len(shapes) - 1
    text = f"""builtin.module {{
  func.func @main({args}) {{
{prelude}    "dart.operation"({", ".join(names)}) <{{patterns = [{", ".join(maps)}], accelerator = "{acc}", operandSegmentSizes = array<i32: {n_in}, 1>}}> ({{
    ^bb0({blk}):
{body}
      dart.yield {last} : !dart.stream<{yield_t}>
    }}) : ({", ".join(types)}) -> ()
    func.return
  }}
}}
"""
    return {"text": text, "kind": kind, "acc": acc, "shapes": shapes, "els": els, "layouts": lks, "odd": odd}
