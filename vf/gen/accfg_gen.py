"""G-accfg: programs in the lowering's form (full-field setup ; launch ; await) under random control flow.

Produces MLIR text plus a description of the runtime inputs (function arguments) and how to build
input vectors (trip counts, branch outcomes, unique markers).
"""
from __future__ import annotations

import random
from dataclasses import dataclass, field


@dataclass
class ArgSpec:
    name: str
    type: str  # "i32" | "index" | "i1"
    role: str  # "marker" | "lb" | "ub" | "step" | "cond"
    loop: int | None = None


@dataclass
class LoopSpec:
    idx: int
    lb: tuple  # ("const", v) | ("arg", name)
    ub: tuple
    step: tuple
    depth: int = 0


@dataclass
class Program:
    text: str
    args: list[ArgSpec]
    loops: list[LoopSpec]
    n_launch_sites: int
    n_calls: int
    n_ifs: int
    accs: dict  # name -> list of fields
    skeleton: str
    features: set = field(default_factory=set)


class Gen:
    def __init__(self, rng: random.Random, profile: str = "dedup", acc_specs=None, vt="i32", max_launches=12):
        """acc_specs: optional list of dicts {name, fields:[..], launch_fields:[..], decl: "<accfg.accelerator op text>"}
        describing *real* accelerators (C04); vt: value type of configuration values ("i32" | "i64")."""
        self.rng = rng
        self.profile = profile
        self.acc_specs = acc_specs
        self.vt = vt
        self.max_launches = max_launches
        self.n = 0
        self.lines: list[str] = []
        self.args: list[ArgSpec] = []
        self.loops: list[LoopSpec] = []
        self.launch_sites = 0
        self.calls = 0
        self.ifs = 0
        self.vid = 0
        self.skel: list[str] = []
        self.features: set = set()
        self.decl_needed: set = set()
        self.clobbering_calls = 0

    def fresh(self, p="v"):
        self.n += 1
        return f"%{p}{self.n}"

    def new_vid(self):
        self.vid += 1
        return f"id{self.vid}"

    def emit(self, ind, s):
        self.lines.append("  " * ind + s)

    # ---------------------------------------------------------------------------------
    def program(self) -> Program:
        rng = self.rng
        if self.acc_specs:
            self.accs = {sp["name"]: list(sp["fields"]) for sp in self.acc_specs}
            self.launch_fields = {sp["name"]: list(sp["launch_fields"]) for sp in self.acc_specs}
        else:
            n_acc = 1 if rng.random() < 0.7 else 2
            self.accs = {}
            for a in range(n_acc):
                nf = rng.randint(2, 5)
                self.accs[f"acc{a}"] = [chr(ord("A") + i) for i in range(nf)]
            # per-accelerator launch fields (0 or 1)
            self.launch_fields = {a: (["launch"] if rng.random() < 0.5 else []) for a in self.accs}
        n_mark = rng.randint(2, 5)
        pool_i32 = []
        for i in range(n_mark):
            nm = f"%m{i}"
            self.args.append(ArgSpec(nm, "i32", "marker"))
            pool_i32.append(nm)
        self.max_depth = 3
        self.budget = rng.randint(3, self.max_launches)  # launches
        self.emit(2, "%cst0 = arith.constant 0 : i32")
        self.emit(2, "%cst1 = arith.constant 7 : i32")
        pool_i32 += ["%cst0", "%cst1"]
        # hot set: values reused on purpose
        scope = {"i32": pool_i32, "index": [], "states": {}}
        # a function defined in this module that reconfigures an accelerator, its accfg ops nested in control flow: to the caller
        # a call of it is a call like any other (it may change every register)
        self.local_fn = None
        if not self.acc_specs and self.vt == "i32" and rng.random() < 0.15:
            acc = rng.choice(list(self.accs))
            fields = self.accs[acc]
            lfs = self.launch_fields[acc]
            params = ", ".join(f'"{f}" = %x : i32' for f in fields)
            nest = rng.choice(["for", "if"])
            L = ["  func.func @local0(%x: i32, %go: i1) {"]
            if nest == "for":
                L += ["    %l0 = arith.constant 0 : index", "    %l1 = arith.constant 1 : index", "    scf.for %li = %l0 to %l1 step %l1 {"]
            else:
                L += ["    scf.if %go {"]
            L.append(f'      %ls = accfg.setup "{acc}" to ({params}) : !accfg.state<"{acc}">')
            if lfs:
                names = ", ".join(f'"{n}"' for n in lfs)
                L.append(f'      %lt = "accfg.launch"({", ".join(["%x"] * len(lfs))}, %ls) <{{param_names = [{names}], accelerator = "{acc}"}}> : ({", ".join(["i32"] * len(lfs))}, !accfg.state<"{acc}">) -> !accfg.token<"{acc}">')
            else:
                L.append(f'      %lt = "accfg.launch"(%ls) <{{param_names = [], accelerator = "{acc}"}}> : (!accfg.state<"{acc}">) -> !accfg.token<"{acc}">')
            L.append(f'      "accfg.await"(%lt) : (!accfg.token<"{acc}">) -> ()')
            L += ["      scf.yield", "    }", "    func.return", "  }"]
            self.local_fn = "\n".join(L)
            self.features.add("module-local-callee-reconfigures-in-" + nest)
        n_top = rng.randint(2, 6)
        self.block(2, scope, depth=0, n_stmts=n_top, in_loop=False)
        self.emit(2, "func.return")
        if self.vt != "i32":
            self.lines = [ln.replace("i32", self.vt) for ln in self.lines]
            self.decl_needed = {d.replace("i32", self.vt) for d in self.decl_needed}
            for a in self.args:
                if a.type == "i32":
                    a.type = self.vt
        header = ["builtin.module {"]
        for sp in self.acc_specs or []:
            header.append("  " + sp["decl"])
        for a, fields in ({} if self.acc_specs else self.accs).items():
            fd = ", ".join(f"{f} = {0x3C0 + 16 * int(a[3:]) + i} : i32" for i, f in enumerate(fields))
            lf = ", ".join(f"{f} = {0x3C0 + 16 * int(a[3:]) + 14} : i32" for f in self.launch_fields[a])
            header.append(
                f'  "accfg.accelerator"() <{{name = @{a}, fields = {{{fd}}}, launch_fields = {{{lf}}}, barrier = {0x3C0 + 16 * int(a[3:]) + 15} : i32}}> : () -> ()'
            )
        for d in sorted(self.decl_needed):
            header.append(f"  func.func private {d}")
        if getattr(self, "local_fn", None):
            header.append(self.local_fn)
        sig = ", ".join(f"{a.name}: {a.type}" for a in self.args)
        header.append(f"  func.func @main({sig}) {{")
        text = "\n".join(header + self.lines + ["  }", "}"]) + "\n"
        return Program(
            text,
            self.args,
            self.loops,
            self.launch_sites,
            self.calls,
            self.ifs,
            dict(self.accs),
            "".join(self.skel),
            self.features,
        )

    # ---------------------------------------------------------------------------------
    def pick_val(self, scope, ind):
        """Pick an i32 value for a field, biased towards reuse."""
        rng = self.rng
        pool = scope["i32"]
        r = rng.random()
        if r < 0.55:
            # hot: one of the first three or the last two
            cand = pool[:3] + pool[-2:]
            return rng.choice(cand)
        if r < 0.85:
            return rng.choice(pool)
        # new computed value
        return self.arith(scope, ind)

    def forget(self, scope):
        """Control flow / a call follows: the setups seen so far no longer *really* precede what comes next.  They still dominate it,
        so a (hostile) input may name one of them as its input state: kept as stale candidates."""
        scope.setdefault("stale", {}).update(scope["states"])
        scope["states"].clear()
        scope.get("lastvals", {}).clear()

    def pick_recent(self, scope):
        """A value for a conditional's result: half of the time one of the most recently defined ones (so that nested regions use
        values defined shortly before the region op)."""
        pool = scope["i32"]
        return self.rng.choice(pool[-3:]) if self.rng.random() < 0.5 else self.rng.choice(pool)

    def arith(self, scope, ind):
        rng = self.rng
        # chains: half of the operands are recent values
        a = rng.choice(scope["i32"][-3:]) if rng.random() < 0.5 else rng.choice(scope["i32"])
        b = rng.choice(scope["i32"])
        op = rng.choice(["addi", "muli", "subi", "xori"])
        v = self.fresh()
        self.emit(ind, f"{v} = arith.{op} {a}, {b} : i32")
        scope["i32"].append(v)
        return v

    def block(self, ind, scope, depth, n_stmts, in_loop):
        rng = self.rng
        for _ in range(n_stmts):
            r = rng.random()
            if self.budget <= 0:
                r = min(r, 0.5) if r < 0.9 else r
            if r < 0.50:
                self.launch(ind, scope)
            elif r < 0.68 and depth < self.max_depth:
                self.loop(ind, scope, depth)
            elif r < 0.82 and depth < self.max_depth:
                self.cond(ind, scope, depth, in_loop)
            elif r < 0.92:
                self.call(ind, scope)
            elif r < 0.95:
                self.arith(scope, ind)
            elif r < 0.975:
                self.nested_use(ind, scope)
            elif r < 0.99 and depth < self.max_depth:
                self.quiet_loop(ind, scope, depth)
            else:
                self.testop(ind, scope)

    def quiet_loop(self, ind, scope, depth):
        """A loop that configures nothing itself but may reconfigure behind the compiler's back in ONE arm of a conditional
        (the other arm, or both at a deeper level, stay clean): whatever was known before the loop must be forgotten after it, and
        only executions that take the clobbering arm can tell."""
        rng = self.rng
        self.forget(scope)
        li = len(self.loops)
        nm = f"%ub{li}"
        self.args.append(ArgSpec(nm, "index", "ub", li))
        self.loops.append(LoopSpec(li, ("const", 0), ("arg", nm), ("const", 1), depth))
        lo, st = self.fresh("c"), self.fresh("c")
        self.emit(ind, f"{lo} = arith.constant 0 : index")
        self.emit(ind, f"{st} = arith.constant 1 : index")
        iv = self.fresh("iv")
        self.ifs += 1
        c = f"%cond{self.ifs}"
        self.args.append(ArgSpec(c, "i1", "cond"))
        arm = rng.choice(["else", "else", "then"])
        deep = rng.random() < 0.3
        self.emit(ind, f"scf.for {iv} = {lo} to {nm} step {st} {{")
        self.emit(ind + 1, f"scf.if {c} {{")
        inner = {"i32": list(scope["i32"]), "index": list(scope["index"]) + [iv], "states": {}, "stale": dict(scope.get("stale", {}))}

        def clobber(i2):
            if deep:
                self.ifs += 1
                c2 = f"%cond{self.ifs}"
                self.args.append(ArgSpec(c2, "i1", "cond"))
                self.emit(i2, f"scf.if {c2} {{")
                self.emit(i2 + 1, "scf.yield")
                self.emit(i2, "} else {")
                self.forced_call(i2 + 1, inner)
                self.emit(i2 + 1, "scf.yield")
                self.emit(i2, "}")
            else:
                self.forced_call(i2, inner)

        if arm == "then":
            clobber(ind + 2)
        self.emit(ind + 2, "scf.yield")
        self.emit(ind + 1, "} else {")
        if arm == "else":
            clobber(ind + 2)
        self.emit(ind + 2, "scf.yield")
        self.emit(ind + 1, "}")
        self.emit(ind + 1, "scf.yield")
        self.emit(ind, "}")
        self.features.add("quiet-loop-clobbering-in-" + arm + ("-nested" if deep else ""))
        self.skel.append("Q")
        # something must depend on the registers afterwards
        self.launch(ind, scope)

    def forced_call(self, ind, scope):
        self.calls += 1
        self.clobbering_calls += 1
        self.decl_needed.add("@ext0(i32) -> ()")
        self.emit(ind, f'func.call @ext0({self.rng.choice(scope["i32"])}) {{verif.id = "{self.new_vid()}"}} : (i32) -> ()')
        self.features.add("call-unannotated")

    def nested_use(self, ind, scope):
        """A configuration value that reaches its setup only through the region of a pure conditional:
        v = arith ..; r = scf.if c -> (i32) { yield v } else { yield w }; setup(.. = r ..); launch."""
        rng = self.rng
        v = self.arith(scope, ind)
        self.ifs += 1
        c = f"%cond{self.ifs}"
        self.args.append(ArgSpec(c, "i1", "cond"))
        w = rng.choice(scope["i32"])
        r = self.fresh("r")
        self.emit(ind, f"{r} = scf.if {c} -> (i32) {{")
        self.emit(ind + 1, f"scf.yield {v} : i32")
        self.emit(ind, "} else {")
        self.emit(ind + 1, f"scf.yield {w} : i32")
        self.emit(ind, "}")
        scope["i32"].append(r)
        self.features.add("value-through-pure-conditional")
        self.skel.append("N")
        self.launch(ind, scope, force_val=r)

    def launch(self, ind, scope, acc=None, force_val=None):
        rng = self.rng
        acc = acc or rng.choice(list(self.accs))
        fields = self.accs[acc]
        self.budget -= 1
        self.launch_sites += 1
        vals = [self.pick_val(scope, ind) for _ in fields]
        if force_val is not None and vals:
            vals[rng.randrange(len(vals))] = force_val
        elif scope.get("lastvals", {}).get(acc) and rng.random() < 0.12:
            # the same kernel launched again: an identical full setup (dedup elides it, the state is then launched twice)
            vals = list(scope["lastvals"][acc])
            self.features.add("identical-setup-repeated")
        scope.setdefault("lastvals", {})[acc] = list(vals)
        if force_val is None and rng.random() < 0.08:
            # a default configuration written first and overridden by the real one before anything is launched (two setups
            # in a row, only pure arithmetic in between)
            dvals = [self.pick_val(scope, ind) for _ in fields]
            ds = self.fresh("s")
            dparams = ", ".join(f'"{f}" = {v} : i32' for f, v in zip(fields, dvals))
            self.emit(ind, f'{ds} = accfg.setup "{acc}" to ({dparams}) : !accfg.state<"{acc}">')
            if rng.random() < 0.5:
                self.arith(scope, ind)
            self.features.add("setup-overridden-before-launch")
        s = self.fresh("s")
        params = ", ".join(f'"{f}" = {v} : i32' for f, v in zip(fields, vals))
        prev = scope["states"].get(acc)
        stale = scope.get("stale", {}).get(acc)
        if prev is not None and self.profile == "trace" and rng.random() < 0.35:
            # partially pre-threaded input: this setup already names the setup that really precedes it in this block
            self.emit(ind, f'{s} = accfg.setup "{acc}" from {prev} to ({params}) : !accfg.state<"{acc}">')
            self.features.add("pre-threaded")
        elif prev is None and stale is not None and self.profile == "trace" and rng.random() < 0.3:
            # stale link: names a dominating setup although control flow / a call / an enclosing region lies in between
            self.emit(ind, f'{s} = accfg.setup "{acc}" from {stale} to ({params}) : !accfg.state<"{acc}">')
            self.features.add("stale-pre-threaded")
        else:
            self.emit(ind, f'{s} = accfg.setup "{acc}" to ({params}) : !accfg.state<"{acc}">')
        scope["states"][acc] = s
        t = self.fresh("t")
        lfs = self.launch_fields[acc]
        if lfs:
            lvs = [rng.choice(scope["i32"][:4]) for _ in lfs]
            names = ", ".join(f'"{n}"' for n in lfs)
            tys = ", ".join("i32" for _ in lfs)
            self.emit(
                ind,
                f'{t} = "accfg.launch"({", ".join(lvs)}, {s}) <{{param_names = [{names}], accelerator = "{acc}"}}> : ({tys}, !accfg.state<"{acc}">) -> !accfg.token<"{acc}">',
            )
        else:
            self.emit(
                ind,
                f'{t} = "accfg.launch"({s}) <{{param_names = [], accelerator = "{acc}"}}> : (!accfg.state<"{acc}">) -> !accfg.token<"{acc}">',
            )
        # sometimes other ops between launch and await
        if rng.random() < 0.3:
            self.arith(scope, ind)
        self.emit(ind, f'"accfg.await"({t}) : (!accfg.token<"{acc}">) -> ()')
        self.skel.append("L" + acc[3:])

    def index_source(self, role, loop_idx, consts):
        """Return (spec, ssa-name) for a loop bound: a constant or a function argument."""
        rng = self.rng
        if rng.random() < 0.5:
            c = rng.choice(consts)
            return ("const", c)
        nm = f"%{role}{loop_idx}"
        self.args.append(ArgSpec(nm, "index", role, loop_idx))
        return ("arg", nm)

    def loop(self, ind, scope, depth):
        rng = self.rng
        self.forget(scope)
        li = len(self.loops)
        lb = self.index_source("lb", li, [0, 0, 0, 1, 3])
        step = self.index_source("step", li, [1, 1, 1, 2, 3])
        # ub always an argument so that trip counts are runtime inputs; sometimes constant
        if rng.random() < 0.25 and lb[0] == "const" and step[0] == "const":
            t = rng.choice([0, 1, 2, 3, 5])
            ub = ("const", lb[1] + t * step[1] - (rng.randrange(step[1]) if t > 0 else 0))
        else:
            nm = f"%ub{li}"
            self.args.append(ArgSpec(nm, "index", "ub", li))
            ub = ("arg", nm)
        spec = LoopSpec(li, lb, ub, step, depth)
        self.loops.append(spec)

        def mat(s):
            if s[0] == "arg":
                return s[1]
            v = self.fresh("c")
            self.emit(ind, f"{v} = arith.constant {s[1]} : index")
            return v

        lbv, ubv, stv = mat(lb), mat(ub), mat(step)
        iv = self.fresh("iv")
        carried = rng.random() < 0.35
        inner = {"i32": list(scope["i32"]), "index": list(scope["index"]) + [iv], "states": {}, "stale": dict(scope.get("stale", {}))}
        self.skel.append("F(")
        if lb != ("const", 0):
            self.features.add("lb!=0")
        if step != ("const", 1):
            self.features.add("step!=1")
        if carried:
            self.features.add("carried")
            ncar = rng.choice([1, 1, 2, 3])
            if ncar > 1:
                self.features.add("several-carried")
            inits = [rng.choice(scope["i32"]) for _ in range(ncar)]
            ps = [self.fresh("p") for _ in range(ncar)]
            ress = [self.fresh("r") for _ in range(ncar)]
            self.emit(
                ind,
                f"{', '.join(ress)} = scf.for {iv} = {lbv} to {ubv} step {stv} iter_args({', '.join(f'{p} = {i}' for p, i in zip(ps, inits))}) -> ({', '.join(['i32'] * ncar)}) {{",
            )
            inner["i32"].extend(ps)
        else:
            self.emit(ind, f"scf.for {iv} = {lbv} to {ubv} step {stv} {{")
        # iv-derived i32 value
        if rng.random() < 0.7:
            ivc = self.fresh()
            self.emit(ind + 1, f"{ivc} = arith.index_cast {iv} : index to i32")
            inner["i32"].append(ivc)
            if rng.random() < 0.5:
                base = rng.choice(scope["i32"])
                d = self.fresh()
                self.emit(ind + 1, f"{d} = arith.addi {ivc}, {base} : i32")
                inner["i32"].append(d)
            self.features.add("iv-dependent")
        clob_before = self.clobbering_calls
        self.block(ind + 1, inner, depth + 1, rng.randint(1, 4), True)
        if self.clobbering_calls != clob_before and rng.random() < 0.85:
            # the state weaver crashes (KeyError) on loop bodies that end in an unknown state; re-establish it
            for acc in self.accs:
                self.launch(ind + 1, inner, acc)
            self.features.add("relaunch-after-clobber-in-loop")
        if carried:
            nxts = []
            if ncar >= 2 and rng.random() < 0.4:
                # ping-pong: the carried values are handed on rotated, the yield operands are block arguments themselves
                k = rng.randrange(1, ncar)
                nxts = ps[k:] + ps[:k]
                self.features.add("carried-values-rotated")
            else:
                for p in ps:
                    nxt = self.fresh()
                    other = rng.choice(inner["i32"])
                    self.emit(ind + 1, f"{nxt} = arith.addi {p}, {other} : i32")
                    nxts.append(nxt)
            self.emit(ind + 1, f"scf.yield {', '.join(nxts)} : {', '.join(['i32'] * ncar)}")
            self.emit(ind, "}")
            scope["i32"].extend(ress)
        else:
            self.emit(ind + 1, "scf.yield")
            self.emit(ind, "}")
        self.skel.append(")")

    def cond(self, ind, scope, depth, in_loop):
        rng = self.rng
        self.ifs += 1
        self.forget(scope)
        r = rng.random()
        if in_loop and scope["index"] and r < 0.4:
            iv = rng.choice(scope["index"])
            two = self.fresh("c")
            zero = self.fresh("c")
            rem = self.fresh()
            c = self.fresh("b")
            self.emit(ind, f"{two} = arith.constant 2 : index")
            self.emit(ind, f"{zero} = arith.constant 0 : index")
            self.emit(ind, f"{rem} = arith.remui {iv}, {two} : index")
            self.emit(ind, f"{c} = arith.cmpi eq, {rem}, {zero} : index")
            self.features.add("iv-cond")
        elif r < 0.6:
            c = self.fresh("b")
            self.emit(ind, f'{c} = "test.op"() {{verif.id = "{self.new_vid()}", verif.silent}} : () -> i1')
        else:
            c = f"%cond{self.ifs}"
            self.args.append(ArgSpec(c, "i1", "cond"))
        with_res = rng.random() < 0.3
        has_else = with_res or rng.random() < 0.7
        self.skel.append("I(")
        then_scope = {"i32": list(scope["i32"]), "index": list(scope["index"]), "states": {}, "stale": dict(scope.get("stale", {}))}
        else_scope = {"i32": list(scope["i32"]), "index": list(scope["index"]), "states": {}, "stale": dict(scope.get("stale", {}))}
        if with_res:
            nres = rng.choice([1, 1, 2, 3])
            if nres > 1:
                self.features.add("several-if-results")
            ress = [self.fresh("r") for _ in range(nres)]
            self.emit(ind, f"{', '.join(ress)} = scf.if {c} -> ({', '.join(['i32'] * nres)}) {{")
        else:
            self.emit(ind, f"scf.if {c} {{")
        self.block(ind + 1, then_scope, depth + 1, rng.randint(0 if has_else else 1, 3), in_loop)
        if with_res:
            self.emit(ind + 1, f"scf.yield {', '.join(self.pick_recent(then_scope) for _ in range(nres))} : {', '.join(['i32'] * nres)}")
        else:
            self.emit(ind + 1, "scf.yield")
        if has_else:
            self.skel.append("|")
            self.emit(ind, "} else {")
            self.block(ind + 1, else_scope, depth + 1, rng.randint(0, 3), in_loop)
            if with_res:
                self.emit(ind + 1, f"scf.yield {', '.join(self.pick_recent(else_scope) for _ in range(nres))} : {', '.join(['i32'] * nres)}")
            else:
                self.emit(ind + 1, "scf.yield")
        self.emit(ind, "}")
        if with_res:
            scope["i32"].extend(ress)
        self.skel.append(")")

    def call(self, ind, scope):
        rng = self.rng
        self.calls += 1
        self.forget(scope)
        if getattr(self, "local_fn", None) and rng.random() < 0.5:
            # call of the module-local function that reconfigures (unannotated, like the lowering would leave it)
            self.clobbering_calls += 1
            arg = rng.choice(scope["i32"])
            self.ifs += 1
            c = f"%cond{self.ifs}"
            self.args.append(ArgSpec(c, "i1", "cond"))
            self.emit(ind, f'func.call @local0({arg}, {c}) {{verif.id = "{self.new_vid()}"}} : (i32, i1) -> ()')
            self.skel.append("U")
            self.features.add("call-module-local")
            return
        kind = rng.choice(["none", "none", "full", "unannotated", "unannotated"])
        arg = rng.choice(scope["i32"])
        vid = self.new_vid()
        attrs = f'verif.id = "{vid}"'
        if kind == "none":
            attrs += ", accfg.effects = #accfg.effects<none>"
        elif kind == "full":
            attrs += ", accfg.effects = #accfg.effects<full>"
        if kind != "none":
            self.clobbering_calls += 1
        if rng.random() < 0.5:
            v = self.fresh()
            self.decl_needed.add("@ext1(i32) -> i32")
            self.emit(ind, f"{v} = func.call @ext1({arg}) {{{attrs}}} : (i32) -> i32")
            scope["i32"].append(v)
        else:
            self.decl_needed.add("@ext0(i32) -> ()")
            self.emit(ind, f"func.call @ext0({arg}) {{{attrs}}} : (i32) -> ()")
        self.skel.append({"none": "n", "full": "X", "unannotated": "U"}[kind])
        self.features.add("call-" + kind)

    def testop(self, ind, scope):
        v = self.fresh()
        self.emit(ind, f'{v} = "test.op"() {{verif.id = "{self.new_vid()}"}} : () -> i32')
        scope["i32"].append(v)
        self.skel.append("t")


def gen_program(rng: random.Random, profile="dedup", **kw) -> Program:
    return Gen(rng, profile, **kw).program()


TRIPS = [0, 1, 2, 3, 5]


def input_vectors(prog: Program, rng: random.Random, max_vectors=10):
    """Build runtime input vectors: dict arg-name -> int.  Always includes all-2, all-0, all-1 trips."""
    vecs = []
    nloops = len(prog.loops)
    trip_choices = []
    for base in (2, 0, 1, 3):
        trip_choices.append([base] * nloops)
    while len(trip_choices) < max_vectors:
        trip_choices.append([rng.choice(TRIPS) for _ in range(nloops)])
    seen = set()
    for trips in trip_choices:
        vec = {}
        k = 0
        for a in prog.args:
            if a.role == "marker":
                k += 1
                vec[a.name] = 0x1000 * k + rng.randrange(0x1000) + (rng.randrange(1, 0x7FF) << 20)
            elif a.role == "cond":
                vec[a.name] = rng.randrange(2)
        lbv = {}
        stv = {}
        for lp in prog.loops:
            lb = lp.lb[1] if lp.lb[0] == "const" else rng.choice([0, 0, 1, 2, 4])
            st = lp.step[1] if lp.step[0] == "const" else rng.choice([1, 1, 2, 3])
            lbv[lp.idx], stv[lp.idx] = lb, st
            if lp.lb[0] == "arg":
                vec[lp.lb[1]] = lb
            if lp.step[0] == "arg":
                vec[lp.step[1]] = st
            if lp.ub[0] == "arg":
                t = trips[lp.idx]
                ub = lb + t * st - (rng.randrange(st) if t > 0 else 0)
                if t == 0 and rng.random() < 0.3 and lb > 0:
                    ub = lb - 1
                vec[lp.ub[1]] = ub
        key = tuple(sorted((k, v) for k, v in vec.items() if not k.startswith("%m")))
        if key in seen and len(vecs) >= 3:
            continue
        seen.add(key)
        vecs.append((tuple(trips), vec))
    return vecs
