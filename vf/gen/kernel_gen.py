"""G-kernel: linalg.generic bodies over addi/muli/subi/extsi, kernel-bodied generics (incl. rescale parameter sets) and
dispatch workloads.  Everything is derived from the `random.Random` handed in; a case is a small JSON-able dict.

Body spec:  {"args": ["i8","i8","i32"], "ops": [[kind, [operand value indices], result type], ...], "yield": value index}
Value indices: 0..len(args)-1 are the block arguments (the last one is the output/accumulator), then one per op.
"""
from __future__ import annotations

import copy
import itertools

WIDTHS = (8, 16, 32, 64)
TYPES = tuple(f"i{w}" for w in WIDTHS)
BIN = ("addi", "muli", "subi")


def w_of(t: str) -> int:
    return int(t[1:])


# ------------------------------------------------------------------------------------------------
# body specs
# ------------------------------------------------------------------------------------------------
def value_types(spec) -> list[str]:
    ts = list(spec["args"])
    for kind, opnds, rt in spec["ops"]:
        ts.append(rt)
    return ts


def well_typed(spec) -> bool:
    ts = list(spec["args"])
    for kind, opnds, rt in spec["ops"]:
        if any(o >= len(ts) for o in opnds):
            return False
        if kind in BIN:
            if len(opnds) != 2 or ts[opnds[0]] != ts[opnds[1]] or ts[opnds[0]] != rt:
                return False
        elif kind == "extsi":
            if len(opnds) != 1 or w_of(ts[opnds[0]]) >= w_of(rt):
                return False
        else:
            return False
        ts.append(rt)
    return spec["yield"] < len(ts) and ts[spec["yield"]] == spec["args"][-1]


def canonical(kind: str, types) -> dict:
    """The canonical body of a kernel as documented by the upstream tests (convert-linalg-to-kernel.mlir)."""
    if kind in ("mul", "add"):
        t = types[0]
        return {"args": [t, t, t], "ops": [["muli" if kind == "mul" else "addi", [0, 1], t]], "yield": 3}
    if kind == "mac":
        t = types[0]
        return {"args": [t, t, t], "ops": [["muli", [0, 1], t], ["addi", [2, 3], t]], "yield": 4}
    if kind == "mac_ext":
        a, b, r = types
        return {"args": [a, b, r], "ops": [["extsi", [0], r], ["extsi", [1], r], ["muli", [3, 4], r], ["addi", [2, 5], r]], "yield": 6}
    if kind == "qmac":
        a, b, z = types
        return {
            "args": [a, b, z, z, z],
            "ops": [["extsi", [0], z], ["subi", [5, 2], z], ["extsi", [1], z], ["subi", [7, 3], z], ["muli", [6, 8], z], ["addi", [4, 9], z]],
            "yield": 10,
        }
    raise ValueError(kind)


KERNEL_KINDS = ("mul", "add", "mac", "mac_ext", "qmac")


def canonical_types(rng, kind):
    if kind in ("mul", "add", "mac"):
        return [rng.choice(TYPES)]
    r = rng.choice(TYPES[1:])
    narrower = [t for t in TYPES if w_of(t) < w_of(r)]
    return [rng.choice(narrower), rng.choice(narrower), r]


def mutate(rng, spec, n_mut=1):
    """Near misses: same op kinds, different wiring / operand order / yielded value.  Returns (spec, [labels])."""
    spec = {"args": list(spec["args"]), "ops": [[k, list(o), r] for k, o, r in spec["ops"]], "yield": spec["yield"]}
    labels = []
    for _ in range(n_mut):
        ts = value_types(spec)
        na = len(spec["args"])
        choice = rng.random()
        if choice < 0.25:
            i = rng.randrange(len(spec["ops"]))
            if spec["ops"][i][0] in BIN:
                spec["ops"][i][1].reverse()
                labels.append(f"swap:{spec['ops'][i][0]}")
        elif choice < 0.75:
            i = rng.randrange(len(spec["ops"]))
            kind, opnds, rt = spec["ops"][i]
            j = rng.randrange(len(opnds))
            if kind == "extsi":
                cands = [v for v in range(na + i) if w_of(ts[v]) < w_of(rt) and v != opnds[j]]
            else:
                cands = [v for v in range(na + i) if ts[v] == ts[opnds[j]] and v != opnds[j]]
            if cands:
                spec["ops"][i][1][j] = rng.choice(cands)
                labels.append(f"rewire:{kind}")
        else:
            cands = [v for v in range(len(ts)) if ts[v] == spec["args"][-1] and v != spec["yield"]]
            if cands:
                spec["yield"] = rng.choice(cands)
                labels.append("yield-other")
    return spec, labels


def random_wiring(rng, kinds, args):
    """Same op-kind sequence, operands drawn at random among type-compatible values.  None when impossible."""
    ts = list(args)
    ops = []
    out_t = args[-1]
    for kind in kinds:
        if kind in BIN:
            avail = sorted({t for t in ts})
            t = out_t if (out_t in avail and rng.random() < 0.7) else rng.choice(avail)
            vals = [i for i, x in enumerate(ts) if x == t]
            ops.append([kind, [rng.choice(vals), rng.choice(vals)], t])
            ts.append(t)
        else:
            srcs = [i for i, x in enumerate(ts) if w_of(x) < 64]
            if not srcs:
                return None
            s = rng.choice(srcs)
            wider = [t for t in TYPES if w_of(t) > w_of(ts[s])]
            t = out_t if (out_t in wider and rng.random() < 0.8) else rng.choice(wider)
            ops.append(["extsi", [s], t])
            ts.append(t)
    ys = [i for i, x in enumerate(ts) if x == out_t]
    y = len(ts) - 1 if (ts[-1] == out_t and rng.random() < 0.75) else rng.choice(ys)
    spec = {"args": list(args), "ops": ops, "yield": y}
    return spec if well_typed(spec) else None


SHAPES = {
    "mul": ["muli"],
    "add": ["addi"],
    "mac": ["muli", "addi"],
    "mac_ext": ["extsi", "extsi", "muli", "addi"],
    "qmac": ["extsi", "subi", "extsi", "subi", "muli", "addi"],
}


def gen_recognition_case(rng):
    """One body for the recognition monitor.  Returns {"spec":..., "family":..., "labels": [...]}"""
    r = rng.random()
    kind = rng.choice(KERNEL_KINDS)
    if r < 0.12:
        spec = canonical(kind, canonical_types(rng, kind))
        return {"spec": spec, "family": f"canonical:{kind}", "labels": []}
    if r < 0.50:
        base = canonical(kind, canonical_types(rng, kind))
        for _ in range(8):
            spec, labels = mutate(rng, base, rng.choice((1, 1, 2, 3)))
            if labels and well_typed(spec):
                return {"spec": spec, "family": f"mutated:{kind}", "labels": labels}
        return {"spec": base, "family": f"canonical:{kind}", "labels": []}
    if r < 0.85:
        # same op kinds as a kernel, random wiring, random argument widths (biased to combinations that type-check)
        n_in = 4 if kind == "qmac" else 2
        for _ in range(20):
            if rng.random() < 0.6:
                args = list(canonical(kind, canonical_types(rng, kind))["args"])
                if rng.random() < 0.3:
                    args[rng.randrange(len(args))] = rng.choice(TYPES)
            else:
                args = [rng.choice(TYPES) for _ in range(n_in + 1)]
            spec = random_wiring(rng, SHAPES[kind], args)
            if spec is not None:
                return {"spec": spec, "family": f"wiring:{kind}", "labels": []}
    for _ in range(50):
        n_in = rng.choice((1, 2, 2, 2, 3, 4))
        args = [rng.choice(TYPES) for _ in range(n_in + 1)]
        kinds = [rng.choice(("addi", "muli", "subi", "extsi")) for _ in range(rng.randrange(1, 7))]
        spec = random_wiring(rng, kinds, args)
        if spec is not None:
            return {"spec": spec, "family": "random", "labels": []}
    spec = canonical("mul", ["i32"])
    return {"spec": spec, "family": "canonical:mul", "labels": []}


def enumerate_small(t="i32", max_ops=2):
    """Every body of <= max_ops ops from {addi, muli, subi} over three arguments of one type: all wirings, all yields."""
    for k in range(1, max_ops + 1):
        for kinds in itertools.product(BIN, repeat=k):
            ranges = []
            for i in range(k):
                ranges.append(range(3 + i))
                ranges.append(range(3 + i))
            for wiring in itertools.product(*ranges):
                ops = [[kinds[i], [wiring[2 * i], wiring[2 * i + 1]], t] for i in range(k)]
                for y in range(3 + k):
                    yield {"args": [t, t, t], "ops": ops, "yield": y}


def enumerate_mac_ext(a="i8", b="i8", r="i32"):
    """Every wiring of the op-kind sequence extsi, extsi, muli, addi over (a, b, r)."""
    narrow = [i for i, t in enumerate((a, b, r)) if w_of(t) < w_of(r)]
    for e0 in narrow:
        for e1 in narrow:
            wide3 = [i for i, t in enumerate((a, b, r, r, r)) if t == r]
            for m0 in wide3:
                for m1 in wide3:
                    wide4 = wide3 + [5]
                    for s0 in wide4:
                        for s1 in wide4:
                            for y in wide4 + [6]:
                                yield {
                                    "args": [a, b, r],
                                    "ops": [["extsi", [e0], r], ["extsi", [e1], r], ["muli", [m0, m1], r], ["addi", [s0, s1], r]],
                                    "yield": y,
                                }


# ------------------------------------------------------------------------------------------------
# rendering
# ------------------------------------------------------------------------------------------------
def render_body_lines(spec) -> list[str]:
    ts = value_types(spec)
    na = len(spec["args"])
    name = lambda i: f"%a{i}" if i < na else f"%v{i - na}"  # noqa: E731
    lines = []
    for j, (kind, opnds, rt) in enumerate(spec["ops"]):
        res = name(na + j)
        if kind == "extsi":
            lines.append(f"{res} = arith.extsi {name(opnds[0])} : {ts[opnds[0]]} to {rt}")
        else:
            lines.append(f"{res} = arith.{kind} {name(opnds[0])}, {name(opnds[1])} : {rt}")
    lines.append(f"linalg.yield {name(spec['yield'])} : {ts[spec['yield']]}")
    return lines


def render_generic(arg_types, body_lines, form="memref", shape="16", attrs="", prefix="m") -> tuple[str, str]:
    """Returns (producer line, generic text).  form in {memref, tensor}; the last argument is the output."""
    n = len(arg_types)
    cont = "memref" if form == "memref" else "tensor"
    tys = [f"{cont}<{shape}x{t}>" for t in arg_types]
    names = [f"%{prefix}{i}" for i in range(n)]
    maps = ", ".join(["affine_map<(d0) -> (d0)>"] * n)
    bargs = ", ".join(f"%a{i} : {t}" for i, t in enumerate(arg_types))
    producer = f'{", ".join(names)} = "test.op"() : () -> ({", ".join(tys)})'
    ins = f"ins({', '.join(names[:-1])} : {', '.join(tys[:-1])}) " if n > 1 else ""
    res = f" -> {tys[-1]}" if form == "tensor" else ""
    lhs = f"%{prefix}r = " if form == "tensor" else ""
    body = "\n".join("  " + ln for ln in body_lines)
    text = (
        f'{lhs}linalg.generic {{indexing_maps = [{maps}], iterator_types = ["parallel"]{attrs}}} '
        f"{ins}outs({names[-1]} : {tys[-1]}) {{\n^bb0({bargs}):\n{body}\n}}{res}"
    )
    return producer, text


def render_module(arg_types, body_lines, form="memref", shape="16", attrs="") -> str:
    p, g = render_generic(arg_types, body_lines, form, shape, attrs)
    return p + "\n" + g + "\n"


def render_recognition(case, form="memref") -> str:
    return render_module(case["spec"]["args"], render_body_lines(case["spec"]), form)


def gen_recognition_module(rng):
    """Several generics in ONE module (one application of the pass): a canonical kernel body together with bodies of the same
    argument types and op-kind sequence but another wiring, other mutations, repeats and bodies of other kernels, in any order.
    Whatever the pass remembers from one generic must not leak into the next."""
    kind = rng.choice(KERNEL_KINDS)
    base = canonical(kind, canonical_types(rng, kind))
    members = [("canonical:" + kind, base)]
    for _ in range(rng.choice((1, 1, 2, 3))):
        r = rng.random()
        spec, fam = None, None
        if r < 0.55:
            for _ in range(20):
                spec = random_wiring(rng, SHAPES[kind], list(base["args"]))
                if spec is not None:
                    fam = "sibling-wiring:" + kind
                    break
        elif r < 0.8:
            for _ in range(8):
                m, labels = mutate(rng, base, 1)
                if labels and well_typed(m):
                    spec, fam = m, "sibling-mutated:" + kind
                    break
        elif r < 0.9:
            spec, fam = copy.deepcopy(base), "repeat:" + kind
        if spec is None:
            c = gen_recognition_case(rng)
            spec, fam = c["spec"], "other:" + c["family"].split(":")[0]
        members.append((fam, spec))
    order = rng.random()
    if order < 0.25:
        rng.shuffle(members)
    elif order < 0.4:
        members.reverse()
    return {"members": members, "family": "module:" + kind}


def render_recognition_module(case, form="memref") -> str:
    prods, gens = [], []
    for i, (_fam, spec) in enumerate(case["members"]):
        p, g = render_generic(spec["args"], render_body_lines(spec), form, prefix=f"m{i}x")
        prods.append(p)
        gens.append(g)
    return "\n".join(prods + gens) + "\n"


# ------------------------------------------------------------------------------------------------
# kernel-bodied generics (expansion) and rescale parameter sets
# ------------------------------------------------------------------------------------------------
def kernel_line(kind, types, params=None) -> tuple[list[str], str]:
    """Returns (block argument types, kernel op line producing %k)."""
    if kind in ("mul", "add", "mac"):
        a, b, r = types
        return [a, b, r], f"%k = kernel.{kind} %a0, %a1 : {a}, {b} -> {r}"
    if kind == "qmac":
        a, b, za, zb, r = types
        return [a, b, za, zb, r], f"%k = kernel.qmac %a0, %a1 zp_lhs : %a2 zp_rhs : %a3 : {a}, {b}, {za}, {zb} -> {r}"
    if kind == "rescale":
        a, r = types
        p = params
        mult = ", ".join(str(x) for x in p["multiplier"])
        sh = ", ".join(str(x) for x in p["shift"])
        attrs = (
            f"{{input_zp = {p['input_zp']} : i32, output_zp = {p['output_zp']} : i32, multiplier = array<i32: {mult}>, "
            f"shift = array<{p.get('shift_type', 'i8')}: {sh}>, min_int = {p['min_int']} : i32, max_int = {p['max_int']} : i32, "
            f"double_round = {'true' if p['double_round'] else 'false'}}}"
        )
        return [a, r], f"%k = kernel.rescale %a0 {attrs} : ({a}) -> {r}"
    raise ValueError(kind)


def in_documented_domain(kind, types) -> bool:
    """Operand-type combinations for which the kernel's meaning is documented by a well-typed canonical body
    (rescale: the combination the limited lowering is written for)."""
    ws = [w_of(t) for t in types]
    if kind in ("mul", "add"):
        return ws[0] == ws[1] == ws[2]
    if kind == "mac":
        return ws[0] == ws[1] == ws[2] or (ws[0] < ws[2] and ws[1] < ws[2])
    if kind == "qmac":
        return ws[2] == ws[3] == ws[4] and ws[0] < ws[4] and ws[1] < ws[4]
    if kind == "rescale":
        return ws == [32, 8]
    return False


def gen_rescale_params(rng) -> dict:
    i32min, i32max = -(1 << 31), (1 << 31) - 1

    def zp():
        r = rng.random()
        if r < 0.3:
            return 0
        if r < 0.7:
            return rng.randrange(-128, 128)
        if r < 0.9:
            k = rng.randrange(0, 31)
            return rng.choice((1, -1)) * (1 << k)
        return rng.choice((i32min, i32max, rng.randrange(i32min, i32max)))

    r = rng.random()
    if r < 0.15:
        mult = 1
    elif r < 0.35:
        mult = 1 << rng.randrange(0, 31)
    elif r < 0.85:
        mult = rng.randrange(1 << 29, 1 << 31) if rng.random() < 0.6 else rng.randrange(1, 1 << 30)
    elif r < 0.95:
        mult = -rng.randrange(1, 1 << 31)
    else:
        mult = rng.choice((0, i32max, i32min))
    r = rng.random()
    shift = rng.randrange(0, 41) if r < 0.9 else rng.randrange(41, 63)
    clamp = rng.choice(
        [(-128, 127), (-128, 127), (-128, 127), (0, 127), (-100, 100), (-1, 1), (0, 0), (-32768, 32767), (i32min, i32max), (-128, 255), (5, 90)]
    )
    p = {
        "input_zp": zp(),
        "output_zp": zp() if rng.random() < 0.8 else rng.randrange(-128, 128),
        "multiplier": [mult],
        "shift": [shift],
        "min_int": clamp[0],
        "max_int": clamp[1],
        "double_round": rng.random() < 0.4,
        "shift_type": rng.choice(("i8", "i8", "i32")),
    }
    r = rng.random()
    if r < 0.05:  # per channel, all equal (still a scalar function)
        p["multiplier"] = [mult] * 3
        p["shift"] = [shift] * 3
    elif r < 0.08:  # per channel, differing: out of the scalar domain (counted)
        p["multiplier"] = [mult, max(1, mult // 2 + 1)]
        p["shift"] = [shift, (shift + 1) % 41]
    return p


def rescale_inputs(rng, p, w_in=32, n_random=200):
    """Input values (unsigned-normalised at w_in) biased to the range where no 32-bit intermediate overflows."""
    m = (1 << w_in) - 1
    lo, hi = -(1 << (w_in - 1)), (1 << (w_in - 1)) - 1
    vals = [lo, -1, 0, 1, hi, p["input_zp"], p["input_zp"] + 1, p["input_zp"] - 1]
    for k in range(0, w_in - 1, 3):
        vals += [1 << k, -(1 << k), (1 << k) - 1]
    mult = abs(p["multiplier"][0]) or 1
    shift = p["shift"][0]
    safe = max(2, min(hi, ((1 << (30 + max(shift, 1))) // mult)))
    for _ in range(n_random):
        r = rng.random()
        if r < 0.6:
            v = p["input_zp"] + rng.randrange(-safe, safe + 1)
        elif r < 0.75:
            v = p["input_zp"] + rng.randrange(-min(safe, 1000), min(safe, 1000) + 1)
        elif r < 0.9:
            # values around a rounding boundary: (v * mult) close to a multiple of 2^shift
            q = rng.randrange(-safe, safe + 1)
            v = p["input_zp"] + ((q << max(shift, 0)) // mult if mult else q) + rng.choice((-1, 0, 1))
        else:
            v = rng.randrange(lo, hi + 1)
        vals.append(v)
    out = []
    for v in vals:
        if lo <= v <= hi:
            out.append(v & m)
    return out


def gen_expansion_case(rng):
    """{"kind":..., "types": [...], "params": {...}|None, "form": "memref"|"tensor"}"""
    r = rng.random()
    form = "tensor" if rng.random() < 0.25 else "memref"
    if r < 0.45:
        p = gen_rescale_params(rng)
        rr = rng.random()
        types = ["i32", "i8"] if rr < 0.85 else rng.choice([["i8", "i32"], ["i32", "i16"], ["i32", "i32"], ["i16", "i8"], ["i64", "i8"]])
        return {"kind": "rescale", "types": types, "params": p, "form": form}
    kind = rng.choice(("mul", "add", "mac", "mac", "qmac", "qmac"))
    if rng.random() < 0.7:
        # documented combinations
        if kind in ("mul", "add"):
            t = rng.choice(TYPES)
            types = [t, t, t]
        elif kind == "mac":
            if rng.random() < 0.4:
                t = rng.choice(TYPES)
                types = [t, t, t]
            else:
                types = canonical_types(rng, "mac_ext")
        else:
            a, b, z = canonical_types(rng, "qmac")
            types = [a, b, z, z, z]
    else:
        n = 5 if kind == "qmac" else 3
        types = [rng.choice(TYPES) for _ in range(n)]
    case = {"kind": kind, "types": types, "params": None, "form": form}
    if rng.random() < 0.15:
        # a fused body: the kernel op is followed by further arithmetic on its result (must survive the expansion)
        case["tail"] = rng.choice(["arith.addi", "arith.subi", "arith.muli"])
    return case


def render_expansion(case) -> str:
    args, line = kernel_line(case["kind"], case["types"], case.get("params"))
    if case.get("tail"):
        t = args[-1]
        return render_module(args, [line, f"%k2 = {case['tail']} %k, %k : {t}", f"%k3 = {case['tail']} %k2, %k : {t}", f"linalg.yield %k3 : {t}"], case.get("form", "memref"))
    return render_module(args, [line, f"linalg.yield %k : {args[-1]}"], case.get("form", "memref"))


# ------------------------------------------------------------------------------------------------
# dispatch workloads
# ------------------------------------------------------------------------------------------------
SUPPORTED_HINT = [
    ("add", ["i64", "i64", "i64"]),
    ("mul", ["i64", "i64", "i64"]),
    ("qmac", ["i8", "i8", "i32", "i32", "i32"]),
    ("mac", ["i8", "i8", "i32"]),
    ("add", ["i32", "i32", "i32"]),
    ("rescale", ["i32", "i8"]),
    ("rescale", ["i8", "i32"]),
]


def gen_dispatch_case(rng, accelerators=("snax_alu", "snax_gemmx", "snax_xdma")):
    """A module with 1-4 generics and a random non-empty ordered subset of the accelerators declared."""
    k = rng.choice((1, 2, 2, 3, 3)) if len(accelerators) >= 3 else rng.choice((1, 2, 2))
    accs = rng.sample(list(accelerators), min(k, len(accelerators)))
    generics = []
    for _ in range(rng.choice((1, 1, 2, 3, 4))):
        r = rng.random()
        g = {"shape": rng.choice(("16", "16", "?", "4x?")), "pre": None}
        if r < 0.40:
            kind, types = rng.choice(SUPPORTED_HINT)
            types = list(types)
            g.update(body="kernel", kind=kind, types=types)
        elif r < 0.62:
            # a declared combination with one type changed (the near miss of dispatching)
            kind, types = rng.choice(SUPPORTED_HINT)
            types = list(types)
            for _ in range(rng.choice((1, 1, 2))):
                types[rng.randrange(len(types))] = rng.choice(TYPES)
            if rng.random() < 0.3:
                rng.shuffle(types)
            g.update(body="kernel", kind=kind, types=types)
        elif r < 0.85:
            kind = rng.choice(("mul", "add", "mac", "qmac", "rescale"))
            n = {"qmac": 5, "rescale": 2}.get(kind, 3)
            g.update(body="kernel", kind=kind, types=[rng.choice(TYPES) for _ in range(n)])
        elif r < 0.93:
            # not a kernel body at all
            t = rng.choice(TYPES)
            g.update(body="arith", kind="arith", types=[t, t, t])
        else:
            # two kernel ops (fused): must not be dispatched as a single kernel
            t = rng.choice(TYPES)
            g.update(body="fused", kind="fused", types=[t, t, t])
        if g["body"] == "kernel" and g["kind"] == "rescale":
            g["params"] = gen_rescale_params(rng)
        if rng.random() < 0.08:
            g["pre"] = rng.choice(("snax_alu", "snax_gemmx_stream", "my_library_fn"))
        generics.append(g)
    return {"accs": accs, "generics": generics}


def render_dispatch(case) -> str:
    lines = []
    for gi, g in enumerate(case["generics"]):
        if g["body"] == "kernel":
            args, line = kernel_line(g["kind"], g["types"], g.get("params"))
            body = [line, f"linalg.yield %k : {args[-1]}"]
        elif g["body"] == "arith":
            t = g["types"][0]
            args = g["types"]
            body = [f"%k = arith.addi %a0, %a1 : {t}", f"linalg.yield %k : {t}"]
        else:
            t = g["types"][0]
            args = g["types"]
            body = [f"%j = kernel.mul %a0, %a1 : {t}, {t} -> {t}", f"%k = kernel.add %j, %a2 : {t}, {t} -> {t}", f"linalg.yield %k : {t}"]
        attrs = f', library_call = "{g["pre"]}"' if g.get("pre") else ""
        shape = g["shape"]
        n = len(args)
        dims = shape.count("x") + 1
        dl = ", ".join(f"d{i}" for i in range(dims))
        maps = ", ".join([f"affine_map<({dl}) -> ({dl})>"] * n)
        iters = ", ".join(['"parallel"'] * dims)
        tys = [f"memref<{shape}x{t}>" for t in args]
        names = [f"%g{gi}_{i}" for i in range(n)]
        lines.append(f'{", ".join(names)} = "test.op"() : () -> ({", ".join(tys)})')
        bargs = ", ".join(f"%a{i} : {t}" for i, t in enumerate(args))
        ins = f"ins({', '.join(names[:-1])} : {', '.join(tys[:-1])}) " if n > 1 else ""
        btxt = "\n".join("    " + b for b in body)
        lines.append(
            f"linalg.generic {{indexing_maps = [{maps}], iterator_types = [{iters}]{attrs}}} {ins}outs({names[-1]} : {tys[-1]}) {{\n"
            f"  ^bb0({bargs}):\n{btxt}\n}}"
        )
    return "\n".join(lines) + "\n"
