"""Harness-side compatibility shim: /venv has xDSL 0.70 while the repo pins an older commit.

`irdl_options = [...]` (a list) is rejected by 0.70 (`must be a tuple`).  We wrap
`OpDef.from_pyrdl` and convert the list to a tuple before xDSL inspects the class.
Nothing in /repo is touched.  Must be imported before any `snaxc` dialect.
"""
import os
import sys
import warnings

_done = False


def install():
    global _done
    if _done:
        return
    _done = True
    warnings.filterwarnings("ignore", category=DeprecationWarning)
    from xdsl.irdl import operations as _ops

    orig = _ops.OpDef.from_pyrdl

    def from_pyrdl(pyrdl_def):
        for klass in pyrdl_def.mro():
            opts = klass.__dict__.get("irdl_options", None)
            if isinstance(opts, list):
                klass.irdl_options = tuple(opts)
        return orig(pyrdl_def)

    _ops.OpDef.from_pyrdl = staticmethod(from_pyrdl)
    _skip_detached_worklist_entries()


def _skip_detached_worklist_entries():
    """xDSL 0.70's PatternRewriteWalker sets `InsertPoint.before(op)` for every worklist entry and raises for an operation that was
    detached behind the rewriter's back (e.g. dispatch-regions replaces an existing `func.func private @snax_cluster_core_idx`
    through SymbolTable.insert_or_update while that declaration is still queued).  A pattern applied to a detached operation cannot
    change the module, so such stale entries are simply skipped: the module a pass produces is the same, only the crash is gone."""
    try:
        from xdsl.dialects.builtin import ModuleOp
        from xdsl.ir import Operation
        from xdsl.utils import worklist as _wl
    except Exception:
        return
    W = _wl.Worklist
    missing = _wl._MISSING

    def _drop(self):
        st = self._stack
        while st:
            it = st[-1]
            if it is missing:
                st.pop()
            elif isinstance(it, Operation) and it.parent is None and not isinstance(it, ModuleOp):
                st.pop()
                self._map.pop(it, None)
            else:
                break

    orig_pop = W.pop

    def __bool__(self):
        _drop(self)
        return bool(self._stack)

    def pop(self):
        _drop(self)
        return orig_pop(self)

    W.__bool__ = __bool__
    W.pop = pop


def repo_path():
    return os.environ.get("VERIF_REPO", "/repo")


install()
