"""Harness-side compatibility shim: /venv has xDSL 0.70 while the repo pins an older commit.

`irdl_options = [...]` (a list) is rejected by 0.70 (`must be a tuple`).  We wrap
`OpDef.from_pyrdl` and convert the list to a tuple before xDSL inspects the class.
Nothing in /repo is touched.  Must be imported before any `snaxc` dialect.
"""
import os
import sys
import warnings

_done = False


def install():
    global _done
    if _done:
        return
    _done = True
    warnings.filterwarnings("ignore", category=DeprecationWarning)
    from xdsl.irdl import operations as _ops

    orig = _ops.OpDef.from_pyrdl

    def from_pyrdl(pyrdl_def):
        for klass in pyrdl_def.mro():
            opts = klass.__dict__.get("irdl_options", None)
            if isinstance(opts, list):
                klass.irdl_options = tuple(opts)
        return orig(pyrdl_def)

    _ops.OpDef.from_pyrdl = staticmethod(from_pyrdl)


def repo_path():
    return os.environ.get("VERIF_REPO", "/repo")


install()
