"""Check driver: sharding, seeds, evidence, known-finding classification, replay, verdicts.

usage:  python -m vf.runner <ID> [--tier quick|thorough] [--seed N] [--replay FILE] [--shards K] [--scale F]
        python -m vf.runner <ID> --worker SHARD --out FILE ...      (internal)

A check module `vf.checks.<ID>` provides
    LEVEL, RULE, ASSUMPTIONS, TIERS = {tier: {"shards": k, "cases": n_per_shard, "timeout": s}}
    FLOORS = {tier: {counter: minimum}}          monitor-side reach floors (gate the verdict)
    run_shard(rng_seed, shard, n_cases, tier) -> ShardResult-like dict (see `new_result`)
    replay(case) -> list of violations (same dict format)   [optional]
"""
from __future__ import annotations

import argparse
import hashlib
import importlib
import json
import os
import random
import subprocess
import sys
import time
import traceback

VERIF = os.path.dirname(os.path.dirname(os.path.abspath(__file__)))
REPO = os.environ.get("VERIF_REPO", "/repo")


# ------------------------------------------------------------------------------------------------
# shard-side helpers
# ------------------------------------------------------------------------------------------------
def new_result():
    return {
        "evaluations": 0,  # cases generated / executions run
        "programs": 0,  # programs pushed through the real pass and executed (translation validation)
        "compared": 0,  # before/after (or monitor) comparisons actually made
        "nontrivial": [],  # hashes of distinct non-trivial cases
        "counters": {},  # monitor-side reach + repo-side activity (reported)
        "rejected": {},  # exception type/site -> count (pass refused the input)
        "violations": [],  # dicts {kind, detail, case, attributed}
        "samples": [],
        "sets": {},  # name -> list of distinct small items seen (shapes, trip vectors, ...)
    }


def bump(res, name, n=1):
    res["counters"][name] = res["counters"].get(name, 0) + n


def reject(res, exc_or_name):
    if isinstance(exc_or_name, BaseException):
        tb = traceback.extract_tb(exc_or_name.__traceback__)
        site = ""
        for fr in reversed(tb):
            if "/snaxc/" in fr.filename or "/xdsl/" in fr.filename:
                site = f"{os.path.basename(fr.filename)}:{fr.name}"
                break
        name = f"{type(exc_or_name).__name__}@{site}"
    else:
        name = exc_or_name
    res["rejected"][name] = res["rejected"].get(name, 0) + 1


def seen(res, setname, item, cap=400):
    s = res["sets"].setdefault(setname, [])
    if len(s) < cap and item not in s:
        s.append(item)


def nontrivial(res, *key):
    h = hashlib.blake2b(repr(key).encode(), digest_size=8).hexdigest()
    res["nontrivial"].append(h)


def violation(res, kind, detail, case, attributed=None, cap=40, info=None):
    """Record a violation.  `attributed` is the known-finding mechanism key or None."""
    # payloads are kept for the first `cap` violations of each class (attributed to a known finding / not attributed): a flood of
    # known findings must never crowd out the replay payload of a new violation
    kept = sum(1 for v in res["violations"] if v.get("case") is not None and bool(v.get("attributed")) == bool(attributed))
    if kept < cap:
        res["violations"].append({"kind": kind, "detail": detail, "case": case, "attributed": attributed, "info": info})
    else:
        # keep counting so that the parent still fails, but do not keep the payload
        res["violations"].append({"kind": kind, "detail": detail[:200], "case": None, "attributed": attributed})


def sample(res, item, cap=4):
    if len(res["samples"]) < cap:
        res["samples"].append(item)


def shard_seed(seed, prop, shard):
    h = hashlib.blake2b(f"{seed}/{prop}/{shard}".encode(), digest_size=8).digest()
    return int.from_bytes(h, "little")


# ------------------------------------------------------------------------------------------------
# known findings
# ------------------------------------------------------------------------------------------------
def load_known(prop):
    known = {}
    path = os.path.join(VERIF, "KNOWN_FINDINGS.txt")
    if not os.path.exists(path):
        return known
    for line in open(path):
        line = line.strip()
        if not line.startswith("known:"):
            continue
        parts = line.split(None, 3)
        # known: property=Cxx key=<k> <text>
        try:
            p = parts[1].split("=", 1)[1]
            k = parts[2].split("=", 1)[1]
        except Exception:
            continue
        if p == prop:
            known[k] = parts[3] if len(parts) > 3 else ""
    return known


# ------------------------------------------------------------------------------------------------
# parent
# ------------------------------------------------------------------------------------------------
def repo_state():
    try:
        head = subprocess.run(["git", "-C", REPO, "rev-parse", "HEAD"], capture_output=True, text=True).stdout.strip()
        dirty = bool(
            subprocess.run(["git", "-C", REPO, "status", "--porcelain", "-uno"], capture_output=True, text=True).stdout.strip()
        )
    except Exception:
        head, dirty = "?", False
    return head, dirty


def ensure_deps():
    deps = os.path.join(VERIF, ".deps")
    if not os.path.isdir(os.path.join(deps, "icontract")):
        subprocess.run(
            ["/venv/bin/pip", "install", "-q", "--no-index", "--find-links", "/opt/veriftools/wheels", "--target", deps, "icontract", "deal"],
            env={**os.environ, "PIP_NO_INDEX": "1"},
            stdout=subprocess.DEVNULL,
            stderr=subprocess.DEVNULL,
        )


def child_env():
    env = dict(os.environ)
    env["PYTHONPATH"] = f"{VERIF}:{VERIF}/.deps:{REPO}"
    env["PYTHONHASHSEED"] = "0"
    env["PYTHONDONTWRITEBYTECODE"] = "1"
    env.setdefault("SNAX_MLIR_VERIF", "1")
    return env


def main(argv=None):
    ap = argparse.ArgumentParser()
    ap.add_argument("prop")
    ap.add_argument("--tier", default=os.environ.get("VERIF_TIER", "quick"), choices=["quick", "thorough"])
    ap.add_argument("--seed", type=int, default=None)
    ap.add_argument("--replay", default=None)
    ap.add_argument("--shards", type=int, default=None)
    ap.add_argument("--scale", type=float, default=1.0, help="multiply cases per shard")
    ap.add_argument("--worker", type=int, default=None)
    ap.add_argument("--out", default=None)
    ap.add_argument("--cases", type=int, default=None)
    ap.add_argument("--no-evidence", action="store_true")
    args = ap.parse_args(argv)
    prop = args.prop
    seed = args.seed if args.seed is not None else int(os.environ.get("VERIF_SEED", "0") or 0)

    if args.worker is not None:
        return worker(prop, args.tier, seed, args.worker, args.cases, args.out)

    ensure_deps()
    if args.replay:
        return do_replay(prop, args.replay)

    mod_tiers = load_check_meta(prop)
    tier_cfg = mod_tiers["TIERS"][args.tier]
    nshards = args.shards or tier_cfg["shards"]
    cases = max(1, int(tier_cfg["cases"] * args.scale))
    timeout = tier_cfg.get("timeout", 900)

    t0 = time.time()
    sdir = os.path.join(VERIF, ".shards", prop)
    os.makedirs(sdir, exist_ok=True)
    procs = []
    env = child_env()
    for s in range(nshards):
        out = os.path.join(sdir, f"{args.tier}-{seed}-{s}.json")
        if os.path.exists(out):
            os.remove(out)
        log = open(os.path.join(sdir, f"{args.tier}-{seed}-{s}.log"), "w")
        p = subprocess.Popen(
            ["/venv/bin/python", "-m", "vf.runner", prop, "--tier", args.tier, "--seed", str(seed), "--worker", str(s), "--cases", str(cases), "--out", out],
            cwd=VERIF,
            env=env,
            stdout=log,
            stderr=subprocess.STDOUT,
        )
        procs.append((s, p, out, log))
    dead = []
    results = []
    deadline = t0 + timeout
    for s, p, out, log in procs:
        try:
            p.wait(timeout=max(1, deadline - time.time()))
        except subprocess.TimeoutExpired:
            p.kill()
            p.wait()
            dead.append((s, "timeout"))
            continue
        finally:
            log.close()
        if p.returncode != 0 or not os.path.exists(out):
            dead.append((s, f"exit {p.returncode}"))
            continue
        results.append(json.load(open(out)))
    wall = time.time() - t0
    if os.environ.get("VERIF_COVER"):
        merged: dict = {}
        for r in results:
            for f, ls in (r.pop("cover", None) or {}).items():
                merged.setdefault(f, set()).update(ls)
        os.makedirs(os.path.join(VERIF, "mutation"), exist_ok=True)
        with open(os.path.join(VERIF, "mutation", f"cover_{prop}.json"), "w") as f:
            json.dump({k: sorted(v) for k, v in sorted(merged.items())}, f)
        print(f"COVER property={prop} files={len(merged)} lines={sum(len(v) for v in merged.values())}")
    return conclude(prop, args.tier, seed, mod_tiers, results, dead, wall, nshards, not args.no_evidence)


def load_check_meta(prop):
    """Read check metadata in a subprocess-free way that does not import the repo in the parent."""
    env = child_env()
    code = (
        "import json,importlib;m=importlib.import_module('vf.checks.%s');"
        "print(json.dumps({k:getattr(m,k) for k in ('LEVEL','RULE','ASSUMPTIONS','TIERS','FLOORS')}))" % prop
    )
    out = subprocess.run(["/venv/bin/python", "-c", code], cwd=VERIF, env=env, capture_output=True, text=True)
    if out.returncode != 0:
        print(out.stderr, file=sys.stderr)
        print(f"INCONCLUSIVE property={prop} reason=check-module-failed-to-load")
        sys.exit(2)
    return json.loads(out.stdout.strip().splitlines()[-1])


def _start_line_coverage():
    """VERIF_COVER=1: record which source lines of the repo's package the workload executes (sys.monitoring LINE events, each
    location disabled after its first hit, so the cost is negligible).  Used by mutation_sweep.py to restrict mutation sites to code
    the check really drives, and reported in the evidence as reach of the anchored files."""
    cover: dict = {}
    mon = getattr(sys, "monitoring", None)
    if mon is None:
        return cover
    root = os.path.join(os.path.realpath(REPO), "snaxc") + os.sep
    tool = mon.COVERAGE_ID
    try:
        mon.use_tool_id(tool, "verif-cover")
    except ValueError:
        return cover

    def on_line(code, line):
        fn = code.co_filename
        if fn.startswith(root) or os.path.realpath(fn).startswith(root):
            cover.setdefault(os.path.relpath(os.path.realpath(fn), os.path.realpath(REPO)), set()).add(line)
        return mon.DISABLE

    mon.register_callback(tool, mon.events.LINE, on_line)
    mon.set_events(tool, mon.events.LINE)
    return cover


def worker(prop, tier, seed, shard, cases, out):
    sys.setrecursionlimit(10000)
    cover = _start_line_coverage() if os.environ.get("VERIF_COVER") else None
    mod = importlib.import_module(f"vf.checks.{prop}")
    res = mod.run_shard(shard_seed(seed, prop, shard), shard, cases, tier)
    if cover is not None:
        res["cover"] = {f: sorted(ls) for f, ls in cover.items()}
    with open(out + ".tmp", "w") as f:
        json.dump(res, f, default=str)
    os.replace(out + ".tmp", out)
    return 0


def conclude(prop, tier, seed, meta, results, dead, wall, nshards, write_evidence=True):
    agg = new_result()
    distinct = set()
    for r in results:
        for k in ("evaluations", "programs", "compared"):
            agg[k] += r.get(k, 0)
        distinct.update(r.get("nontrivial", []))
        for k, v in r.get("counters", {}).items():
            agg["counters"][k] = agg["counters"].get(k, 0) + v
        for k, v in r.get("rejected", {}).items():
            agg["rejected"][k] = agg["rejected"].get(k, 0) + v
        agg["violations"].extend(r.get("violations", []))
        for smp in r.get("samples", []):
            if len(agg["samples"]) < 6:
                agg["samples"].append(smp)
        for k, v in r.get("sets", {}).items():
            s = agg["sets"].setdefault(k, [])
            for item in v:
                if item not in s and len(s) < 2000:
                    s.append(item)

    known = load_known(prop)
    head, dirty = repo_state()
    unattributed = []
    by_known = {}
    for v in agg["violations"]:
        k = v.get("attributed")
        if k is not None and k in known:
            by_known.setdefault(k, []).append(v)
        else:
            unattributed.append(v)

    # replay files for unattributed violations (dedup by kind+detail head)
    lines = []
    seen_keys = set()
    rdir = os.path.join(VERIF, "replay", prop)
    for v in unattributed:
        if v.get("case") is None:
            continue  # beyond the per-shard payload cap: counted, but there is nothing to replay
        key = (v["kind"], (v.get("detail") or "")[:120])
        if key in seen_keys and len(seen_keys) > 12:
            continue
        seen_keys.add(key)
        os.makedirs(rdir, exist_ok=True)
        payload = {"property": prop, "tier": tier, "seed": seed, "repo_head": head, "repo_dirty": dirty, **v}
        h = hashlib.blake2b(json.dumps(payload, sort_keys=True, default=str).encode(), digest_size=6).hexdigest()
        path = os.path.join(rdir, f"{h}.json")
        with open(path, "w") as f:
            json.dump(payload, f, indent=1, default=str)
        if len(lines) < 25:
            lines.append(f"VIOLATION property={prop} replay={path}  # {v['kind']}: {(v.get('detail') or '')[:160]}")

    if unattributed and not lines:
        # every unattributed violation lost its payload (cannot happen with the per-class cap in `violation`, kept as a guard): the
        # verdict is still a refutation and must carry its VIOLATION line
        v = unattributed[0]
        os.makedirs(rdir, exist_ok=True)
        payload = {"property": prop, "tier": tier, "seed": seed, "repo_head": head, "repo_dirty": dirty, **v, "note": "payload not kept; re-run the check with this seed and tier"}
        path = os.path.join(rdir, "no-payload-%s-%d.json" % (tier, seed))
        with open(path, "w") as f:
            json.dump(payload, f, indent=1, default=str)
        lines.append(f"VIOLATION property={prop} replay={path}  # {v['kind']}: {(v.get('detail') or '')[:160]}")

    floors = meta["FLOORS"].get(tier, {})
    missed = []
    for name, minimum in floors.items():
        got = {"evaluations": agg["evaluations"], "programs": agg["programs"], "compared": agg["compared"], "distinct_nontrivial": len(distinct)}.get(
            name, agg["counters"].get(name, 0)
        )
        if got < minimum:
            missed.append(f"{name}={got}<{minimum}")

    coverage = {
        "evaluations": agg["evaluations"],
        "distinct_nontrivial": len(distinct),
        "rule": meta["RULE"],
        "samples": agg["samples"],
        "programs": agg["programs"],
        "disagreements_checked": agg["compared"],
        "counters": dict(sorted(agg["counters"].items())),
        "rejected_by_compiler": dict(sorted(agg["rejected"].items())),
        "distinct_seen": {k: len(v) for k, v in agg["sets"].items()},
        "distinct_seen_examples": {k: v[:12] for k, v in agg["sets"].items()},
        "known_findings_observed": {k: len(v) for k, v in by_known.items()},
        "shards": nshards,
        "shards_dead": [f"{s}:{why}" for s, why in dead],
        "floors": floors,
        "floors_missed": missed,
        "repo_head": head,
        "repo_dirty": dirty,
        "verdict": None,
    }

    for k, vs in sorted(by_known.items()):
        ex = (vs[0].get("detail") or "")[:140]
        print(f"KNOWN-FINDING: property={prop} key={k} {known[k]} [{len(vs)} occurrences this run; e.g. {ex}]")
    for ln in lines:
        print(ln)

    if unattributed:
        verdict, code = "violated", 1
    elif dead or missed:
        verdict, code = "inconclusive", 2
        why = ",".join([f"shard{s}:{w}" for s, w in dead] + missed)
        print(f"INCONCLUSIVE property={prop} reason={why}")
    else:
        verdict, code = "held_on_observed", 0
    coverage["verdict"] = verdict

    evidence = {
        "property_id": prop,
        "tier": tier,
        "seed": seed,
        "level": meta["LEVEL"],
        "coverage": coverage,
        "assumptions": meta["ASSUMPTIONS"],
        "wall_s": round(wall, 2),
        "violations": len(unattributed),
    }
    if write_evidence:
        os.makedirs(os.path.join(VERIF, "evidence"), exist_ok=True)
        with open(os.path.join(VERIF, "evidence", f"{prop}.json"), "w") as f:
            json.dump(evidence, f, indent=1, default=str)
    ctr = " ".join(f"{k}={v}" for k, v in sorted(agg["counters"].items()))
    print(
        f"{prop} [{tier} seed={seed}] verdict={verdict} evaluations={agg['evaluations']} programs={agg['programs']} "
        f"compared={agg['compared']} distinct_nontrivial={len(distinct)} known={sum(len(v) for v in by_known.values())} "
        f"unattributed={len(unattributed)} wall={wall:.1f}s"
    )
    print(f"  counters: {ctr}")
    if agg["rejected"]:
        print("  rejected: " + " ".join(f"{k}={v}" for k, v in sorted(agg["rejected"].items())))
    return code


def do_replay(prop, path):
    """Re-run one recorded case.  A violation that the check attributes to a listed known finding (mechanism predicate +
    counterfactual, exactly as in a normal run) prints KNOWN-FINDING and does not fail the replay."""
    env = child_env()
    code = (
        "import json,sys,importlib;m=importlib.import_module('vf.checks.%s');"
        "p=json.load(open(sys.argv[1]));"
        "vs=m.replay(p['case']) if p.get('case') is not None else [{'kind':p.get('kind'),'detail':'recorded without payload: '+str(p.get('detail'))}];"
        "att=getattr(m,'attribute',None) if p.get('case') is not None else None;"
        "out=[{'kind':v.get('kind'),'detail':str(v.get('detail'))[:400],'attributed':(att(v) if att else None)} for v in vs];"
        "print(json.dumps(out,default=str,indent=1))" % prop
    )
    r = subprocess.run(["/venv/bin/python", "-c", code, path], cwd=VERIF, env=env, stderr=subprocess.DEVNULL, stdout=subprocess.PIPE, text=True)
    print(r.stdout)
    if r.returncode != 0:
        print(f"INCONCLUSIVE property={prop} reason=replay-process-exit-{r.returncode}")
        return 2
    try:
        vs = json.loads(r.stdout)
    except Exception:
        print(f"INCONCLUSIVE property={prop} reason=replay-output-unreadable")
        return 2
    known = load_known(prop)
    bad = 0
    for v in vs:
        k = v.get("attributed")
        if k and k in known:
            print(f"KNOWN-FINDING: property={prop} key={k} {known[k]}")
        else:
            bad += 1
    if bad:
        print(f"VIOLATION property={prop} replay={path}")
        return 1
    return 0


if __name__ == "__main__":
    sys.exit(main())
