"""Pass-boundary helpers: snapshot/clone, pattern firing counters (repo-side activity, reported only)."""
from __future__ import annotations

import functools

_patched = set()


def count_pattern_firings(classes, counter: dict):
    """Wrap match_and_rewrite of rewrite-pattern classes; count calls that changed the IR."""
    for cls in classes:
        if cls in _patched:
            continue
        _patched.add(cls)
        orig = cls.match_and_rewrite

        def make(orig, name):
            @functools.wraps(orig)
            def wrapper(self, op, rewriter, *a, **k):
                before = rewriter.has_done_action
                r = orig(self, op, rewriter, *a, **k)
                if rewriter.has_done_action and not before:
                    counter[name] = counter.get(name, 0) + 1
                return r

            return wrapper

        cls.match_and_rewrite = make(orig, "fired:" + cls.__name__)


def ir_fingerprint(module) -> str:
    from vf.ctx import to_text

    return to_text(module)
