"""Exact row-space arithmetic over the rationals (reference for C16, no numpy, no snaxc).

A matrix is a sequence of rows of Python ints (or Fractions).  The *row space* of an (r x n) matrix is the
subspace of Q^n spanned by its rows; two matrices with the same number of columns have the same row space
iff their reduced row echelon forms (zero rows dropped) are identical.  Everything is decided with
`fractions.Fraction` Gaussian elimination, so there is no tolerance anywhere.
"""
from __future__ import annotations

from fractions import Fraction


def _as_rows(M, ncols=None):
    rows = [[Fraction(int(x)) for x in row] for row in M]
    if ncols is not None:
        for r in rows:
            if len(r) != ncols:
                raise ValueError("ragged matrix")
    return rows


def rref(M, ncols=None):
    """Reduced row echelon form of M with zero rows dropped, as a tuple of tuples of Fractions.

    `ncols` is only needed for a matrix with zero rows (it is otherwise taken from the first row)."""
    rows = _as_rows(M)
    if rows:
        n = len(rows[0])
        if any(len(r) != n for r in rows):
            raise ValueError("ragged matrix")
    else:
        n = ncols or 0
    out = []
    r = 0
    for c in range(n):
        # find a pivot in column c at or below row r
        piv = None
        for i in range(r, len(rows)):
            if rows[i][c] != 0:
                piv = i
                break
        if piv is None:
            continue
        rows[r], rows[piv] = rows[piv], rows[r]
        p = rows[r][c]
        rows[r] = [x / p for x in rows[r]]
        for i in range(len(rows)):
            if i != r and rows[i][c] != 0:
                f = rows[i][c]
                rows[i] = [a - f * b for a, b in zip(rows[i], rows[r])]
        r += 1
        if r == len(rows):
            break
    for i in range(r):
        out.append(tuple(rows[i]))
    return tuple(out)


def rank(M):
    return len(rref(M))


def same_rowspace(A, B):
    """Exact decision: do A and B (same number of columns) span the same subspace of Q^n?"""
    na = len(A[0]) if len(A) else None
    nb = len(B[0]) if len(B) else None
    if na is not None and nb is not None and na != nb:
        raise ValueError("column counts differ")
    return rref(A, na if na is not None else nb) == rref(B, nb if nb is not None else na)


def in_rowspace(v, M):
    """Is the row vector v a rational combination of the rows of M?"""
    base = rref(M, len(v))
    return rref(list(base) + [list(v)], len(v)) == base


def describe(M):
    """Human-readable RREF (for violation details)."""
    return [[str(x) for x in row] for row in rref(M, len(M[0]) if len(M) else 0)]


def _selftest():
    assert same_rowspace([[1, 0], [0, 1]], [[2, 3], [1, 1]])
    assert not same_rowspace([[1, 0]], [[0, 1]])
    assert same_rowspace([[2, 1]], [[4, 2], [-2, -1]])
    assert not same_rowspace([[2, 1]], [[3, 1]])
    assert same_rowspace([[0, 0]], [[0, 0], [0, 0]])
    assert same_rowspace([], [[0, 0, 0]])
    assert not same_rowspace([[64, 63]], [[63, 62]])
    assert rank([[1, 2, 3], [2, 4, 6], [1, 0, 1]]) == 2
    assert in_rowspace([3, 2], [[1, 0], [0, 1]]) and not in_rowspace([1, 1], [[1, 0]])
    assert same_rowspace([[1, 0, 0], [0, 0, 1]], [[1, 0, 1], [1, 0, -1]])
    return True


if __name__ == "__main__":
    print("rowspace selftest", _selftest())
