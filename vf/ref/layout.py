"""Independent reference: memref layout -> (logical index -> element address).

Only the *data* of repo attributes is read (bounds, steps, offset); none of the repo's layout
methods (get_affine_map, all_values, canonicalize, ...) are used.

RefLayout.dims[d] = [(bound, step), ...] outermost tile first; address of logical index idx is
    offset + sum_d sum_depth step * digit,   digits = mixed-radix expansion of idx[d] by the bounds (outermost first).
All quantities are in *elements* unless stated otherwise.
"""
from __future__ import annotations

import itertools
from dataclasses import dataclass, field
from math import prod


@dataclass
class RefLayout:
    dims: list  # list[list[tuple[int,int]]]
    offset: int = 0

    def shape(self):
        return [prod(b for b, _ in d) for d in self.dims]

    def addr(self, idx):
        a = self.offset
        for i, d in zip(idx, self.dims):
            rem = i
            radices = [b for b, _ in d]
            # mixed radix digits, outermost first
            digs = []
            for b in reversed(radices[1:]):
                digs.append(rem % b)
                rem //= b
            digs.append(rem)  # outermost digit is not reduced (may exceed its bound for out-of-range idx)
            digs.reverse()
            for (b, s), dg in zip(d, digs):
                a += s * dg
        return a

    def indices(self):
        return itertools.product(*[range(n) for n in self.shape()])

    def all_addrs(self):
        return [self.addr(i) for i in self.indices()]

    def max_addr(self):
        # steps may be negative in principle; enumerate when small, else bound by corners
        return max(self.all_addrs())

    def footprint(self, elsize=1):
        """Set of byte addresses (relative to the aligned pointer) covered by all logical elements."""
        s = set()
        for a in self.all_addrs():
            for b in range(elsize):
                s.add(a * elsize + b)
        return s

    def is_injective(self):
        al = self.all_addrs()
        return len(set(al)) == len(al)


def row_major(shape, offset=0):
    dims = []
    stride = 1
    for n in reversed(shape):
        dims.append([(n, stride)])
        stride *= n
    dims.reverse()
    return RefLayout(dims, offset)


def strided(shape, strides, offset=0):
    return RefLayout([[(n, s)] for n, s in zip(shape, strides)], offset)


def instantiate_tsl(tsl_data, runtime_shape=None, runtime_offset=None, runtime_strides=None):
    """Build a RefLayout from the *data* of a snaxc TiledStridedLayout (tstrides[i].strides[j].bound/step, offset).

    Dynamic entries (None):
      * bound (only outermost tile of a dim): runtime size // product of the static bounds of that dim;
      * step: the documented contiguity convention - dynamic steps are laid out, walking dims from last to first and
        depths from innermost to outermost, each one being (previous step * previous bound), starting from
        (largest static step * its bound); a runtime stride for the innermost depth of a dim (strided memref source)
        takes precedence when given.
      * offset: the runtime offset.
    """
    rank = len(tsl_data.tstrides)
    dims = []
    for d in range(rank):
        ts = tsl_data.tstrides[d].strides
        static_prod = prod(s.bound for s in ts if s.bound is not None)
        row = []
        for j, s in enumerate(ts):
            b = s.bound
            if b is None:
                if runtime_shape is None:
                    raise ValueError("dynamic bound without runtime shape")
                b = runtime_shape[d] // static_prod
            row.append([b, s.step])
        dims.append(row)
    # dynamic steps
    if any(st is None for row in dims for _, st in row):
        max_key, max_val = (rank - 1, len(dims[-1]) - 1), 0
        for d, row in enumerate(dims):
            for j, (b, st) in enumerate(row):
                if st is not None and st > max_val:
                    max_key, max_val = (d, j), st
        cur = max_val * dims[max_key[0]][max_key[1]][0]
        for d in reversed(range(rank)):
            for j in reversed(range(len(dims[d]))):
                b, st = dims[d][j]
                if st is None:
                    if runtime_strides is not None and j == len(dims[d]) - 1 and runtime_strides[d] is not None:
                        st = runtime_strides[d]
                    else:
                        st = cur
                    dims[d][j][1] = st
                    cur = st * b
    off = tsl_data.offset
    if off is None:
        if runtime_offset is None:
            raise ValueError("dynamic offset without runtime offset")
        off = runtime_offset
    return RefLayout([[(b, s) for b, s in row] for row in dims], off)


def from_memref_type(t, runtime_shape=None, runtime_strides=None, runtime_offset=None):
    """RefLayout of an xDSL MemRefType (layout none / strided / tsl).  Dynamic sizes (-1) come from runtime_shape."""
    from xdsl.dialects.builtin import NoneAttr, StridedLayoutAttr

    shape = [s for s in t.get_shape()]
    if runtime_shape is not None:
        shape = [rs if s < 0 else s for s, rs in zip(shape, runtime_shape)]
    lay = t.layout
    if isinstance(lay, NoneAttr):
        if any(s < 0 for s in shape):
            raise ValueError("dynamic shape without runtime shape")
        return row_major(shape)
    if isinstance(lay, StridedLayoutAttr):
        strides = []
        for i, s in enumerate(lay.strides.data):
            v = getattr(s, "data", None)
            if not isinstance(v, int):
                if runtime_strides is None:
                    raise ValueError("dynamic stride without runtime strides")
                v = runtime_strides[i]
            strides.append(v)
        o = getattr(lay.offset, "data", None)
        if not isinstance(o, int):
            o = runtime_offset if runtime_offset is not None else 0
        return strided(shape, strides, o)
    if lay.name == "tsl.tsl":
        return instantiate_tsl(lay.data, shape, runtime_offset, runtime_strides)
    raise ValueError(f"unsupported layout {lay}")


def elsize_of(t) -> int:
    et = t.element_type if hasattr(t, "element_type") else t
    from xdsl.dialects.builtin import IndexType

    if isinstance(et, IndexType):
        return 8
    bw = getattr(et, "bitwidth", None)
    if bw is None:
        bw = et.width.data
    return max(1, (bw + 7) // 8)
