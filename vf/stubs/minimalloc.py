"""Adversarial reference stand-in for the absent `minimalloc` C++ binding (injected by /verif, never part of /repo).

API as used by snaxc.transforms.snax_allocate:  Buffer(id, start_time, end_time, size, alignment) with a mutable end_time;
Problem(buffers, capacity).solve() -> list of offsets (one per buffer, in order).

The solver is *maximally reusing but legal*: buffers are placed in order at the lowest aligned offset that does not overlap (in
address) any already placed buffer whose lifetime [start_time, end_time] intersects its own.  An under-estimated lifetime handed
in by the caller therefore becomes an observable overlap.  Reproduces the upstream expectation of
tests/filecheck/transforms/snax-allocate-minimalloc.mlir (offsets 0, 20, 0).
"""
from __future__ import annotations


class Buffer:
    def __init__(self, id, start_time, end_time, size, alignment=1):
        self.id = id
        self.start_time = start_time
        self.end_time = end_time
        self.size = size
        self.alignment = alignment

    def __repr__(self):
        return f"Buffer({self.id},{self.start_time},{self.end_time},{self.size},{self.alignment})"


class Problem:
    def __init__(self, buffers, capacity):
        self.buffers = list(buffers)
        self.capacity = capacity

    def solve(self):
        placed = []  # (offset, size, start, end)
        result = []
        for b in self.buffers:
            al = max(1, int(b.alignment or 1))
            off = 0
            while True:
                if off % al:
                    off += al - off % al
                clash = None
                for o, s, st, en in placed:
                    if not (en < b.start_time or b.end_time < st) and off < o + s and o < off + b.size:
                        clash = o + s
                        break
                if clash is None:
                    break
                off = max(off + 1, clash)
            if off + b.size > self.capacity:
                raise RuntimeError("minimalloc (reference stand-in): no solution within capacity")
            placed.append((off, b.size, b.start_time, b.end_time))
            result.append(off)
        return result
