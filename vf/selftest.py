"""Machine self-tests run by setup.sh (oracle typos are check bugs, never violations)."""
import random
import sys

import vf.compat  # noqa
from vf.interp.core import INT_BINOPS, binop_int, signed, wrap


def arith_selftest():
    # differential against plain Python big-int semantics on a few identities and xDSL's interpreter where available
    rng = random.Random(0)
    for w in (1, 8, 16, 32, 64):
        for _ in range(300):
            a, b = rng.getrandbits(w), rng.getrandbits(w)
            assert binop_int("arith.addi", a, b, w) == (a + b) % (1 << w)
            assert binop_int("arith.subi", a, b, w) == (a - b) % (1 << w)
            assert binop_int("arith.muli", a, b, w) == (a * b) % (1 << w)
            assert signed(binop_int("arith.maxsi", a, b, w), w) == max(signed(a, w), signed(b, w))
            if b:
                q = binop_int("arith.divsi", a, b, w)
                r = binop_int("arith.remsi", a, b, w)
                assert wrap(signed(q, w) * signed(b, w) + signed(r, w), w) == a, (a, b, w)
                fq = binop_int("arith.floordivsi", a, b, w)
                assert signed(fq, w) == signed(a, w) // signed(b, w) or w == 1 or (signed(a, w) == -(1 << (w - 1)) and signed(b, w) == -1)
    return True


def minimalloc_stub_selftest():
    """The injected stand-in must reproduce the upstream expectation of snax-allocate-minimalloc.mlir (offsets 0, 20, 0)."""
    import os

    sys.path.insert(0, os.path.join(os.path.dirname(os.path.abspath(__file__)), "stubs"))
    from minimalloc import Buffer, Problem

    bufs = [Buffer("a", 2, 6, 13, 10), Buffer("b", 4, 7, 13, 10), Buffer("c", 8, 10, 13, 14)]
    assert Problem(bufs, 100).solve() == [0, 20, 0]


def main():
    arith_selftest()
    minimalloc_stub_selftest()
    print("selftest ok")


if __name__ == "__main__":
    main()
