"""Logical buffer machine (oracle side): memrefs are numpy arrays of 64-bit symbols, one per logical element.

* a *root* is one allocation (function argument, memref.alloc/alloca, global, dense constant);
  every memref value is a view (numpy slicing) of a root, so aliasing through subview / cast is for free;
* function arguments / globals / constants hold known symbols; memref.alloc returns unique **poison** (negative) symbols;
* casts (memref.cast, memref.memory_space_cast, snax.layout_cast, unrealized casts) are aliases of their source;
* memref.copy assigns element-wise (shapes must agree);
* an "accelerator op" (linalg.generic, dart.operation/schedule/access_pattern, snax_stream.streaming_region, any op
  carrying verif.acc) reads its inputs and writes a hash of (verif.id, execution count, canonical input contents,
  position) into each output; event ("X", id, n, input contents digest);
* every access is reported through on_access(op, mref, "R"|"W") so that per-core machines can record regions;
* func.call @snax_cluster_core_idx returns self.core_id;  snax.cluster_sync_op -> on_barrier().
"""
from __future__ import annotations

import hashlib

import numpy as np
from xdsl.dialects import builtin
from xdsl.dialects.builtin import DenseIntOrFPElementsAttr, IndexType, IntegerType, MemRefType, StringAttr, TensorType

from .core import H, INDEX_W, Interp, MachineError, Unsupported, signed, wrap

POISON_BASE = -(1 << 40)


class Root:
    __slots__ = ("name", "data", "ids", "kind", "space", "freed")

    def __init__(self, name, data, kind, space=None):
        self.name = name
        self.data = data
        self.ids = np.arange(data.size, dtype=np.int64).reshape(data.shape)
        self.kind = kind  # "arg" | "alloc" | "global" | "const"
        self.space = space
        self.freed = False


class MRef:
    __slots__ = ("root", "data", "ids")

    def __init__(self, root, data, ids):
        self.root = root
        self.data = data
        self.ids = ids

    @property
    def shape(self):
        return self.data.shape

    def region(self):
        return (self.root.name, frozenset(self.ids.reshape(-1).tolist()))

    def __repr__(self):
        return f"<mref {self.root.name}{list(self.data.shape)}>"


def canon_contents(arr) -> tuple:
    """Contents with poison collapsed to -1 (poison identities differ between runs)."""
    a = np.where(arr < 0, -1, arr)
    return (a.shape, a.reshape(-1).tolist())


def digest(x) -> str:
    return hashlib.blake2b(repr(x).encode(), digest_size=8).hexdigest()


ACC_OPS = {
    "linalg.generic",
    "dart.operation",
    "dart.schedule",
    "dart.access_pattern",
    "snax_stream.streaming_region",
    "linalg.matmul",
    "linalg.fill",
}


class BufMachine(Interp):
    def __init__(self, module, core_id=0, **kw):
        super().__init__(module, **kw)
        self.core_id = core_id
        self.roots: dict[str, Root] = {}
        self.poison_n = 0
        self.alloc_n = 0
        self.globals_ops = {}
        for op in module.walk():
            if op.name == "memref.global":
                self.globals_ops[op.sym_name.data] = op
        hd = self.handlers
        hd["memref.alloc"] = self._h_alloc
        hd["memref.alloca"] = self._h_alloc
        hd["memref.dealloc"] = self._h_dealloc
        hd["memref.subview"] = self._h_subview
        hd["memref.copy"] = self._h_copy
        hd["memref.cast"] = self._h_alias
        hd["memref.memory_space_cast"] = self._h_alias
        hd["snax.layout_cast"] = self._h_alias
        hd["memref.dim"] = self._h_dim
        hd["memref.load"] = self._h_load
        hd["memref.store"] = self._h_store
        hd["memref.get_global"] = self._h_get_global
        hd["memref.global"] = lambda op: None
        hd["snax.cluster_sync_op"] = self._h_barrier
        hd["accfg.accelerator"] = lambda op: None
        for n in ACC_OPS:
            hd[n] = self._h_accop
        self.call_handlers["snax_cluster_core_idx"] = lambda op, args: [self.core_id]

    # -- roots ------------------------------------------------------------------------------
    def fresh_poison(self, shape):
        n = int(np.prod(shape)) if len(shape) else 1
        base = POISON_BASE - self.poison_n
        self.poison_n += n
        return (base - np.arange(n, dtype=np.int64)).reshape(shape)

    def new_root(self, name, data, kind, space=None):
        r = Root(name, np.array(data, dtype=np.int64), kind, space)
        self.roots[name] = r
        return MRef(r, r.data, r.ids)

    def arg_buffer(self, idx, shape, tag="arg"):
        n = int(np.prod(shape)) if len(shape) else 1
        base = (idx + 1) << 24
        data = (base + np.arange(n, dtype=np.int64)).reshape(shape)
        return self.new_root(f"{tag}{idx}", data, "arg")

    # -- hooks ------------------------------------------------------------------------------
    def on_access(self, op, mref, mode):
        pass

    def on_barrier(self, op):
        self.events.append(("B",))

    # -- handlers ---------------------------------------------------------------------------
    def _dyn_shape(self, op, t):
        shape = []
        it = iter(op.operands)
        dyn = [signed(self.get(o), INDEX_W) for o in getattr(op, "dynamic_sizes", [])]
        k = 0
        for s in t.get_shape():
            if s < 0:
                shape.append(dyn[k])
                k += 1
            else:
                shape.append(s)
        return shape

    def _h_alloc(self, op):
        t = op.results[0].type
        shape = self._dyn_shape(op, t)
        if any(s < 0 for s in shape):
            raise MachineError(f"alloc of negative size {shape}")
        vid = op.attributes.get("verif.id")
        self.alloc_n += 1
        name = f"alloc:{vid.data if isinstance(vid, StringAttr) else ''}#{self.alloc_n}"
        m = self.new_root(name, self.fresh_poison(shape), "alloc", getattr(t, "memory_space", None))
        self.events.append(("alloc", name.split("#")[0], tuple(shape)))
        self.env[op.results[0]] = m

    def _h_dealloc(self, op):
        m = self.get(op.operands[0])
        self.on_access(op, m, "W")
        m.root.freed = True
        self.events.append(("dealloc", m.root.name.split("#")[0]))

    def _mixed(self, op, static_attr, dynamic_vals):
        out = []
        k = 0
        dyn = [signed(self.get(o), INDEX_W) for o in dynamic_vals]
        for v in static_attr.get_values() if hasattr(static_attr, "get_values") else [a.data for a in static_attr.data]:
            if v == -(1 << 63):
                out.append(dyn[k])
                k += 1
            else:
                out.append(v)
        return out

    def _h_subview(self, op):
        src = self.get(op.source)
        offs = self._mixed(op, op.static_offsets, op.offsets)
        sizes = self._mixed(op, op.static_sizes, op.sizes)
        strides = self._mixed(op, op.static_strides, op.strides)
        if len(offs) != src.data.ndim:
            raise MachineError("subview rank mismatch")
        sl = []
        for o, n, s, dim in zip(offs, sizes, strides, src.data.shape):
            if n < 0 or o < 0 or s <= 0:
                raise MachineError(f"subview with negative offset/size or non-positive stride: {offs} {sizes} {strides}")
            if n > 0 and o + (n - 1) * s >= dim:
                raise MachineError(f"subview out of bounds: offset {o} size {n} stride {s} in dim of {dim}")
            sl.append(slice(o, o + n * s if n > 0 else o, s))
        data = src.data[tuple(sl)]
        ids = src.ids[tuple(sl)]
        # rank reduction
        rt = op.results[0].type
        rshape = list(rt.get_shape())
        if len(rshape) != data.ndim:
            keep = []
            j = 0
            for i, n in enumerate(sizes):
                if j < len(rshape) and (rshape[j] == n or rshape[j] < 0) and not (n == 1 and len(sizes) - i > len(rshape) - j):
                    keep.append(i)
                    j += 1
            drop = tuple(i for i in range(len(sizes)) if i not in keep)
            data = np.squeeze(data, axis=drop)
            ids = np.squeeze(ids, axis=drop)
        self.events.append(("subview", tuple(offs), tuple(sizes), tuple(strides)))
        self.env[op.results[0]] = MRef(src.root, data, ids)

    def _h_copy(self, op):
        src = self.get(op.operands[0])
        dst = self.get(op.operands[1])
        if src.data.shape != dst.data.shape:
            raise MachineError(f"memref.copy shape mismatch {src.data.shape} vs {dst.data.shape}")
        self.on_access(op, src, "R")
        self.on_access(op, dst, "W")
        vid = op.attributes.get("verif.id")
        self.events.append(("copy", vid.data if isinstance(vid, StringAttr) else None, digest(canon_contents(src.data)), dst.region()[0]))
        dst.data[...] = src.data

    def _h_alias(self, op):
        self.env[op.results[0]] = self.get(op.operands[0])

    def _cell(self, op, m, idx_vals):
        idx = tuple(int(i) for i in idx_vals)
        if len(idx) != m.data.ndim or any(i < 0 or i >= n for i, n in zip(idx, m.data.shape)):
            raise MachineError(f"{op.name} index {idx} outside {tuple(m.data.shape)}")
        return idx

    def _h_load(self, op):
        m = self.get(op.operands[0])
        idx = self._cell(op, m, [self.get(i) for i in op.operands[1:]])
        sl = tuple(slice(i, i + 1) for i in idx)
        self.on_access(op, MRef(m.root, m.data[sl], m.ids[sl]), "R")
        self.set_results(op, [int(m.data[idx])])

    def _h_store(self, op):
        v = self.get(op.operands[0])
        m = self.get(op.operands[1])
        idx = self._cell(op, m, [self.get(i) for i in op.operands[2:]])
        sl = tuple(slice(i, i + 1) for i in idx)
        self.on_access(op, MRef(m.root, m.data[sl], m.ids[sl]), "W")
        v = int(v)
        m.data[idx] = v if v < (1 << 63) else v - (1 << 64)

    def _h_ucc(self, op):
        if len(op.operands) == 1 and len(op.results) == 1:
            self.env[op.results[0]] = self.get(op.operands[0])
        else:
            super()._h_ucc(op)

    def _h_dim(self, op):
        m = self.get(op.operands[0])
        i = signed(self.get(op.operands[1]), INDEX_W)
        self.env[op.results[0]] = wrap(m.data.shape[i], INDEX_W)

    def _h_get_global(self, op):
        name = op.name_.root_reference.data if hasattr(op, "name_") else op.properties["name"].root_reference.data
        key = "global:" + name
        if key not in self.roots:
            if name not in self.globals_ops:
                raise Unsupported(f"get_global of undeclared global {name}")
            g = self.globals_ops[name]
            t = g.type
            shape = list(t.get_shape())
            init = g.initial_value
            if isinstance(init, DenseIntOrFPElementsAttr):
                vals = np.array([int(v) for v in init.get_values()], dtype=np.int64)
                if vals.size == 1 and int(np.prod(shape)) != 1:
                    vals = np.full(int(np.prod(shape)), vals[0], dtype=np.int64)
                data = vals.reshape(shape)
            else:
                data = self.fresh_poison(shape)
            self.new_root(key, data, "global")
        r = self.roots[key]
        self.env[op.results[0]] = MRef(r, r.data, r.ids)

    def dense_constant(self, op, v):
        t = op.results[0].type
        shape = list(t.get_shape())
        vals = np.array([int(x) for x in v.get_values()], dtype=np.int64)
        if vals.size == 1 and int(np.prod(shape)) != 1:
            vals = np.full(int(np.prod(shape)), vals[0], dtype=np.int64)
        self.alloc_n += 1
        return self.new_root(f"const#{self.alloc_n}", vals.reshape(shape), "const")

    def _h_barrier(self, op):
        self.on_barrier(op)

    # accelerator ops ---------------------------------------------------------------------
    def acc_operands(self, op):
        ins = list(getattr(op, "inputs", []))
        outs = list(getattr(op, "outputs", []))
        if not ins and not outs:
            # generic fallback: memref operands, last one is the output
            mem = [o for o in op.operands if isinstance(o.type, MemRefType)]
            ins, outs = mem[:-1], mem[-1:]
        return ins, outs

    def _h_accop(self, op):
        ins, outs = self.acc_operands(op)
        vid = op.attributes.get("verif.id")
        key = vid.data if isinstance(vid, StringAttr) else op.name
        n = self.opaque_counter[("acc", key)]
        self.opaque_counter[("acc", key)] += 1
        in_vals = []
        for o in ins:
            v = self.get(o)
            if isinstance(v, MRef):
                self.on_access(op, v, "R")
                in_vals.append(canon_contents(v.data))
            else:
                in_vals.append(v)
        dg = digest(in_vals)
        out_regions = []
        for k, o in enumerate(outs):
            v = self.get(o)
            if not isinstance(v, MRef):
                continue
            self.on_access(op, v, "W")
            size = v.data.size
            base = H("acc", key, n, dg, k) & ((1 << 38) - 1)
            v.data[...] = ((base << 20) + np.arange(size, dtype=np.int64)).reshape(v.data.shape)
            out_regions.append(v.region()[0])
        poisoned = any(isinstance(x, tuple) and -1 in x[1] for x in in_vals)
        self.events.append(("X", key, n, dg, poisoned))
        # results (tensor-less in this machine): none expected
        for r in op.results:
            self.env[r] = self.opaque_result(op, 0, r.type) if "verif.id" in op.attributes else 0

    # test.op may touch memrefs: both read and write (neutral op convention)
    def on_testop(self, op, args):
        vid = op.attributes.get("verif.id")
        shown = []
        for a in args:
            if isinstance(a, MRef):
                self.on_access(op, a, "R")
                shown.append(("mref", a.region()[0].split("#")[0], digest(canon_contents(a.data))))
            else:
                shown.append(a if isinstance(a, int) else repr(a))
        if isinstance(vid, StringAttr) and not op.attributes.get("verif.silent"):
            self.events.append(("T", vid.data, tuple(shown)))

    def opaque_result(self, op, idx, rtype):
        if isinstance(rtype, MemRefType):
            shape = [s if s >= 0 else 4 for s in rtype.get_shape()]
            self.alloc_n += 1
            return self.new_root(f"opaque#{self.alloc_n}", self.fresh_poison(shape), "alloc")
        return super().opaque_result(op, idx, rtype)


def make_args(machine, func_op, int_values=None, dyn_size=4, rng=None):
    """Build argument values for a function: memrefs become argument roots with unique known symbols."""
    vals = []
    for i, a in enumerate(func_op.body.blocks[0].args):
        t = a.type
        if isinstance(t, MemRefType):
            shape = [s if s >= 0 else dyn_size for s in t.get_shape()]
            vals.append(machine.arg_buffer(i, shape))
        elif isinstance(t, IntegerType | IndexType):
            if int_values is not None and i in int_values:
                vals.append(int_values[i])
            else:
                vals.append(rng.randrange(0, 6) if rng else 1)
        else:
            raise Unsupported(f"argument type {t}")
    return vals
