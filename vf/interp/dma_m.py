"""DMA machine (oracle side): flat byte memory + runtime memref descriptors + snax_dma_{1d,2d}_transfer.

Semantics of the two runtime calls are those of runtime/include/snax_rt.h:
   snax_dma_1d_transfer(src, dst, size)                         -> size bytes dst[i] = src[i]
   snax_dma_2d_transfer(src, dst, size, src_stride, dst_stride, repeat)
                                                              -> for r < repeat: size bytes (dst + r*dst_stride)[i] = (src + r*src_stride)[i]
Events: ("R", addr, len), ("W", addr, len).  Memory cells hold arbitrary Python objects (tags / sentinels).
"""
from __future__ import annotations

from dataclasses import dataclass

from .core import INDEX_W, Interp, MachineError, Unsupported, signed, wrap


@dataclass
class Desc:
    """Runtime memref descriptor (element units for offset/strides, as in MLIR)."""

    base: int
    offset: int
    sizes: list
    strides: list  # may contain None when the layout is not strided (TSL): extract_strided_metadata must not be used then
    elsize: int


class DmaMachine(Interp):
    def __init__(self, module, **kw):
        super().__init__(module, **kw)
        self.mem: dict[int, object] = {}
        self.written: dict[int, list] = {}
        self.max_burst_bytes = 1 << 20
        hd = self.handlers
        hd["memref.extract_aligned_pointer_as_index"] = self._h_ptr
        hd["memref.extract_strided_metadata"] = self._h_meta
        hd["memref.dim"] = self._h_dim
        self.call_handlers["snax_dma_1d_transfer"] = self._dma1d
        self.call_handlers["snax_dma_2d_transfer"] = self._dma2d

    def _h_ptr(self, op):
        d = self.get(op.operands[0])
        self.env[op.results[0]] = wrap(d.base, INDEX_W)

    def _h_meta(self, op):
        d = self.get(op.operands[0])
        if any(s is None for s in d.strides):
            raise MachineError("extract_strided_metadata on a memref without strided layout")
        rank = len(d.sizes)
        vals = [d, wrap(d.offset, INDEX_W)] + [wrap(s, INDEX_W) for s in d.sizes] + [wrap(s, INDEX_W) for s in d.strides]
        self.set_results(op, vals[: len(op.results)])

    def _h_dim(self, op):
        d = self.get(op.operands[0])
        i = signed(self.get(op.operands[1]), INDEX_W)
        self.env[op.results[0]] = wrap(d.sizes[i], INDEX_W)

    def _move(self, src, dst, size):
        if size < 0 or size > self.max_burst_bytes:
            raise MachineError(f"DMA burst of {size} bytes")
        self.events.append(("R", src, size))
        self.events.append(("W", dst, size))
        data = [self.mem.get(src + i, ("unmapped", src + i)) for i in range(size)]
        for i, b in enumerate(data):
            self.mem[dst + i] = b
            self.written.setdefault(dst + i, []).append(b)

    def _dma1d(self, op, args):
        src, dst, size = (signed(a, INDEX_W) for a in args)
        self._move(src, dst, size)
        return []

    def _dma2d(self, op, args):
        src, dst, size, sstr, dstr, rep = (signed(a, INDEX_W) for a in args)
        if rep < 0 or rep > 1 << 16:
            raise MachineError(f"2d DMA with repeat {rep}")
        for r in range(rep):
            self._move(src + r * sstr, dst + r * dstr, size)
        return []
