"""Trace machine (oracle side): BufMachine that logs *every side-effecting op with its evaluated operands*.

Used by C17 (loop restructuring) and C14 (dispatch).  Differences with the plain buffer machine:

* the log (`self.trace`) is structural: an operand is an integer value, or a *view descriptor*
  ``("mref", root label, root shape, view shape, digest of the element ids the view covers)`` - i.e. exactly which elements
  of which allocation the op touches (this encodes evaluated subview offsets / sizes / strides and the shape of an
  allocation *at the point of use*).  Buffer *contents* are deliberately not part of the log: C14 executes one core at a
  time (other cores' writes are missing by construction) and C17 must not judge reads of uninitialised memory.
* one entry per executed side-effecting op:
    ("T", id, operands)                          test.op  (opaque marker)
    ("copy", id, src, dst)                       memref.copy
    ("X", id, ins, outs)                         accelerator op (linalg.generic, dart.*, snax_stream.streaming_region)
    ("alloc", id, shape) / ("dealloc", root)     allocation events
    ("B",)                                       snax.cluster_sync_op
    ("call", callee, id, operands)               external call (other than snax_cluster_core_idx)
  every entry is paired with the executed op's `verif.kind` attribute (or None) in `self.kinds` (same index).
* `self.subviews` lists (id, offsets, sizes, strides) of every executed memref.subview (information only, pure op).
* multi-block functions (cf.br / cf.cond_br) are executed.
* `self.loops` records (lb, ub, step, trips) of every executed scf.for (reach counters of the monitors).
"""
from __future__ import annotations

from xdsl.dialects.builtin import StringAttr

from .buf_m import ACC_OPS, BufMachine, MRef, digest
from .core import INDEX_W, MachineError, Unsupported, signed, width_of


def _sid(op, key="verif.id"):
    a = op.attributes.get(key)
    return a.data if isinstance(a, StringAttr) else None


def root_label(m: MRef) -> str:
    """Allocation identity without the per-execution counter ("arg0", "alloc:a3", "global:x")."""
    return m.root.name.split("#")[0]


def describe(v):
    """Structural descriptor of a runtime value (see module docstring)."""
    if isinstance(v, MRef):
        ids = v.ids.reshape(-1).tolist()
        return ("mref", root_label(v), tuple(v.root.data.shape), tuple(v.data.shape), digest(ids))
    if isinstance(v, int):
        return v
    return repr(v)


class TraceMachine(BufMachine):
    def __init__(self, module, core_id=0, **kw):
        super().__init__(module, core_id=core_id, **kw)
        self.trace: list = []
        self.kinds: list = []
        self.subviews: list = []
        self.loops: list = []
        self.core_idx_calls = 0
        hd = self.handlers
        hd["cf.br"] = self._h_br
        hd["cf.cond_br"] = self._h_cond_br
        hd["memref.subview"] = self._h_subview_t
        hd["memref.copy"] = self._h_copy_t
        hd["memref.alloc"] = self._h_alloc_t
        hd["memref.alloca"] = self._h_alloc_t
        hd["memref.dealloc"] = self._h_dealloc_t
        for n in ACC_OPS:
            hd[n] = self._h_accop_t
        self.call_handlers["snax_cluster_core_idx"] = self._core_idx

    # -- logging -------------------------------------------------------------------------------
    def log(self, op, entry):
        self.trace.append(entry)
        self.kinds.append(_sid(op, "verif.kind"))

    def _core_idx(self, op, args):
        self.core_idx_calls += 1
        return [self.core_id]

    # -- multi-block functions -----------------------------------------------------------------
    def _h_br(self, op):
        return ("br", (op.successor, [self.get(a) for a in op.arguments]))

    def _h_cond_br(self, op):
        if self.get(op.cond):
            return ("br", (op.then_block, [self.get(a) for a in op.then_arguments]))
        return ("br", (op.else_block, [self.get(a) for a in op.else_arguments]))

    def run_func(self, name, args):
        f = self.funcs[name]
        if not f.body.blocks:
            raise Unsupported(f"call of declaration {name}")
        block = f.body.blocks[0]
        vals = list(args)
        while True:
            kind, out = self.run_block(block, vals)
            if kind == "return":
                return out
            if kind != "br":
                raise MachineError(f"block ended with {kind}")
            block, vals = out

    # -- loops ---------------------------------------------------------------------------------
    def on_loop_exit(self, op, trips=None):
        w = width_of(op.lb.type)
        self.loops.append((signed(self.get(op.lb), w), signed(self.get(op.ub), w), signed(self.get(op.step), w), trips))

    # -- handlers ------------------------------------------------------------------------------
    def _h_subview_t(self, op):
        n = len(self.events)
        self._h_subview(op)
        ev = self.events[n:]
        if ev:
            self.subviews.append((_sid(op),) + tuple(ev[-1][1:]))

    def _h_copy_t(self, op):
        src = self.get(op.operands[0])
        dst = self.get(op.operands[1])
        self.log(op, ("copy", _sid(op), describe(src), describe(dst)))
        self._h_copy(op)

    def _h_alloc_t(self, op):
        self._h_alloc(op)
        m = self.env[op.results[0]]
        self.log(op, ("alloc", _sid(op), tuple(m.data.shape)))

    def _h_dealloc_t(self, op):
        m = self.get(op.operands[0])
        self.log(op, ("dealloc", root_label(m), tuple(m.root.data.shape)))
        self._h_dealloc(op)

    def _h_accop_t(self, op):
        ins, outs = self.acc_operands(op)
        self.log(
            op,
            ("X", _sid(op) or op.name, tuple(describe(self.get(o)) for o in ins), tuple(describe(self.get(o)) for o in outs)),
        )
        self._h_accop(op)

    def on_barrier(self, op):
        super().on_barrier(op)
        self.log(op, ("B",))

    def on_testop(self, op, args):
        super().on_testop(op, args)
        if not op.attributes.get("verif.silent"):
            self.log(op, ("T", _sid(op), tuple(describe(a) for a in args)))

    def external_call(self, op, callee, args):
        self.log(op, ("call", callee, _sid(op), tuple(describe(a) for a in args)))
        return [self.opaque_result(op, i, r.type) for i, r in enumerate(op.results)]


def first_diff(a, b):
    """Index and the two entries of the first difference between two traces (None when equal)."""
    n = min(len(a), len(b))
    for i in range(n):
        if a[i] != b[i]:
            return i, a[i], b[i]
    if len(a) != len(b):
        return n, (a[n] if len(a) > n else "<end of trace>"), (b[n] if len(b) > n else "<end of trace>")
    return None


def fmt_diff(d, before="before", after="after"):
    i, x, y = d
    return f"traces differ at event {i}: {before}={_short(x)} {after}={_short(y)}"


def _short(e):
    s = repr(e)
    return s if len(s) <= 260 else s[:257] + "..."
