"""accfg register machine (oracle side).

setup   : regs[acc][field] = value for exactly the listed fields; returns a fresh state token
launch  : event ("L", acc, launch values, snapshot of regs[acc])
await   : event ("A", acc)
reset   : re-poison all registers of that accelerator
clobber : an op that may reconfigure accelerators behind the compiler's back (rule below, written
          from the property statement, NOT imported from snaxc.inference.helpers.has_accfg_effects)
          re-poisons every register of every accelerator with unique poison.
"""
from __future__ import annotations

from xdsl.dialects import builtin

from .core import Interp, Unsupported


class Poison:
    __slots__ = ("n", "why")

    def __init__(self, n, why):
        self.n = n
        self.why = why

    def __repr__(self):
        return f"<poison#{self.n}:{self.why}>"

    def __eq__(self, o):
        return isinstance(o, Poison) and o.n == self.n

    def __hash__(self):
        return hash(("poison", self.n))


def effects_annotation(op):
    a = op.attributes.get("accfg.effects")
    if a is None:
        return None
    d = getattr(a, "data", None)
    return getattr(d, "value", None)  # "none" | "full"


def oracle_clobbers(op) -> bool:
    """The oracle's own rule for a *leaf* op: does executing it possibly reconfigure accelerators?"""
    ann = effects_annotation(op)
    if ann is not None:
        return ann != "none"
    return op.name in ("func.call", "llvm.call")


class AccfgMachine(Interp):
    def __init__(self, module, **kw):
        super().__init__(module, **kw)
        self.regs: dict[str, dict[str, object]] = {}
        self.poison_n = 0
        self.token_n = 0
        self.last_token: dict[str, object] = {}
        self.known_accs: set[str] = set()
        self.log_writes = False
        self.loops_done = 0  # loops that completed >=1 iteration so far
        self.loops_skipped = 0  # loops that were passed with zero iterations so far
        self.loop_depth = 0
        self.hooks = []  # objects with optional on_state_defined(machine, value), on_setup(...), on_launch(...)
        hd = self.handlers
        hd["accfg.setup"] = self._h_setup
        hd["accfg.launch"] = self._h_launch
        hd["accfg.await"] = self._h_await
        hd["accfg.reset"] = self._h_reset
        hd["accfg.accelerator"] = lambda op: None
        hd["llvm.call"] = self._h_llvm_call
        hd["memref.extract_aligned_pointer_as_index"] = self._h_opaque_pure
        hd["memref.dim"] = self._h_opaque_pure

    def on_loop_enter(self, op):
        self.loop_depth += 1

    def on_loop_exit(self, op, trips=None):
        self.loop_depth -= 1
        if trips is None or trips > 0:
            self.loops_done += 1
        else:
            self.loops_skipped += 1

    # -- poison ---------------------------------------------------------------------------
    def fresh_poison(self, why):
        self.poison_n += 1
        return Poison(self.poison_n, why)

    def reg(self, acc, field):
        r = self.regs.setdefault(acc, {})
        if field not in r:
            r[field] = self.fresh_poison("never-written")
        return r[field]

    def clobber(self, why="call"):
        for acc, r in self.regs.items():
            for f in list(r):
                r[f] = self.fresh_poison(why)
        for acc in list(self.last_token) + list(self.known_accs):
            self.last_token[acc] = self.fresh_poison("token-" + why)
        self.events.append(("C", why))

    # -- handlers -------------------------------------------------------------------------
    def _h_setup(self, op):
        acc = op.accelerator.data
        self.known_accs.add(acc)
        in_tok = self.get(op.in_state) if op.in_state is not None else None
        for h in self.hooks:
            f = getattr(h, "on_setup", None)
            if f:
                f(self, op, acc, in_tok)
        r = self.regs.setdefault(acc, {})
        for name, val in zip(op.param_names.data, op.values):
            r[name.data] = self.get(val)
            if self.log_writes:
                self.events.append(("W", acc, name.data, r[name.data], val.type.name == "index"))
        self.token_n += 1
        tok = ("tok", acc, self.token_n)
        self.last_token[acc] = tok
        self.set_results(op, [tok])

    def _h_launch(self, op):
        acc = op.accelerator.data
        self.known_accs.add(acc)
        tok = self.get(op.state)
        for h in self.hooks:
            f = getattr(h, "on_launch", None)
            if f:
                f(self, op, acc, tok)
        vals = tuple(self.get(v) for v in op.values)
        names = tuple(n.data for n in op.param_names.data)
        self.events.append(
            ("L", acc, tuple(zip(names, vals)), dict(self.regs.setdefault(acc, {})), {"loops_done": self.loops_done, "loops_skipped": self.loops_skipped, "depth": self.loop_depth})
        )
        self.set_results(op, [("launchtok", acc, len(self.events))])

    def _h_await(self, op):
        tok = self.get(op.token)
        self.events.append(("A", tok[1] if isinstance(tok, tuple) else "?"))

    def _h_reset(self, op):
        self.get(op.in_state)
        acc = op.in_state.type.accelerator.data
        r = self.regs.setdefault(acc, {})
        for f in list(r):
            r[f] = self.fresh_poison("reset")
        self.last_token[acc] = self.fresh_poison("token-reset")

    def external_call(self, op, callee, args):
        self.events.append(("X", callee, tuple(a if isinstance(a, int) else repr(a) for a in args)))
        if oracle_clobbers(op):
            self.clobber(f"call@{callee}")
        return [self.opaque_result(op, i, r.type) for i, r in enumerate(op.results)]

    def _h_llvm_call(self, op):
        args = [self.get(o) for o in op.operands]
        self.events.append(("X", "llvm.call", tuple(a if isinstance(a, int) else repr(a) for a in args)))
        if oracle_clobbers(op):
            self.clobber("llvm.call")
        self.set_results(op, [self.opaque_result(op, i, r.type) for i, r in enumerate(op.results)])

    def _h_opaque_pure(self, op):
        # pure function of operands (pointer of a memref argument, its dimension): hash of the operand values
        from .core import H

        args = tuple(self.get(o) for o in op.operands)
        self.set_results(op, [H(op.name, args) & 0xFFFFFFFF])

    def on_testop(self, op, args):
        super().on_testop(op, args)
        ann = effects_annotation(op)
        if ann is not None and ann != "none":
            self.clobber("annotated-op")

    # -- state-definition hook --------------------------------------------------------------
    def set_results(self, op, vals):
        super().set_results(op, vals)
        if self.hooks:
            for r in op.results:
                if r.type.name == "accfg.state":
                    for h in self.hooks:
                        f = getattr(h, "on_state_defined", None)
                        if f:
                            f(self, r)

    def on_block_entry(self, block):
        if self.hooks:
            for a in block.args:
                if a.type.name == "accfg.state":
                    for h in self.hooks:
                        f = getattr(h, "on_state_defined", None)
                        if f:
                            f(self, a)


class Mismatch(str):
    """Description of a trace mismatch (a str) with structured details in .info"""

    info: dict

    def __new__(cls, desc, **info):
        o = super().__new__(cls, desc)
        o.info = info
        return o


def compare_launch_traces(ev1, ev2):
    """C01/C06 oracle.  Returns None if equal w.r.t. the property, else a Mismatch (str with .info).

    (1) L/A/X/T event sequences equal in kind, accelerator, order, launch values (and opaque-call args);
    (2) at the k-th launch, every field that is non-poison in ev1's snapshot holds the same value in ev2's.
    """
    a = [e for e in ev1 if e[0] in ("L", "A", "X", "T")]
    b = [e for e in ev2 if e[0] in ("L", "A", "X", "T")]
    n_launch = 0
    for k, (x, y) in enumerate(zip(a, b)):
        if x[0] != y[0]:
            return Mismatch(f"event {k}: kind {x[0]} vs {y[0]} ({x[:2]} vs {y[:2]})", what="sequence")
        if x[0] == "L":
            n_launch += 1
            if x[1] != y[1]:
                return Mismatch(f"event {k}: launch of {x[1]} vs {y[1]}", what="sequence")
            if x[2] != y[2]:
                return Mismatch(f"event {k}: launch values {x[2]} vs {y[2]}", what="launch-values")
            s1, s2 = x[3], y[3]
            for f, v in s1.items():
                if isinstance(v, Poison):
                    continue
                v2 = s2.get(f, "<absent>")
                if v2 != v:
                    return Mismatch(
                        f"launch #{n_launch} of {x[1]} (event {k}): field {f} expected {v} observed {v2}",
                        what="register",
                        field=f,
                        expected=v,
                        observed=v2,
                        observed_poison=isinstance(v2, Poison) or v2 == "<absent>",
                        meta_after=y[4] if len(y) > 4 else {},
                    )
        elif x != y:
            return Mismatch(f"event {k}: {x} vs {y}", what="sequence")
    if len(a) != len(b):
        return Mismatch(f"event count {len(a)} vs {len(b)} (first extra: {(a + b)[min(len(a), len(b))][:2]})", what="sequence")
    return None
