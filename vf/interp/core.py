"""Small-step interpreter for the IR subset the snax-mlir passes consume and emit.

Oracle-side code (trusted base).  Integers are kept as *unsigned* Python ints in [0, 2^w);
`index` is 64 bit wide.  Every handler is keyed by the op's name so that no repo class is needed.
Reading an SSA value without a binding raises UseBeforeDef (dynamic dominance monitor); bindings of
a block's own results are dropped on block entry so a stale binding from a previous iteration
cannot mask a use-before-def.
"""
from __future__ import annotations

import hashlib
from collections import Counter

from xdsl.dialects import builtin
from xdsl.dialects.builtin import (
    AnyFloat,
    DenseIntOrFPElementsAttr,
    FloatAttr,
    IndexType,
    IntegerAttr,
    IntegerType,
)
from xdsl.ir import Block, Operation, SSAValue


class Unsupported(Exception):
    pass


class UseBeforeDef(Exception):
    pass


class StepBudget(Exception):
    pass


class MachineError(Exception):
    """Raised by a machine when the executed program does something the machine forbids."""


INDEX_W = 64


def width_of(t) -> int:
    if isinstance(t, IntegerType):
        return t.width.data
    if isinstance(t, IndexType):
        return INDEX_W
    raise Unsupported(f"width of {t}")


def wrap(x: int, w: int) -> int:
    return x & ((1 << w) - 1)


def signed(x: int, w: int) -> int:
    x &= (1 << w) - 1
    return x - (1 << w) if x >> (w - 1) else x


def H(*parts) -> int:
    """Deterministic 48-bit hash used for opaque results / unique markers."""
    h = hashlib.blake2b(repr(parts).encode(), digest_size=6).digest()
    return int.from_bytes(h, "little")


def _cdiv(a, b):
    return -((-a) // b)


def _tdiv(a, b):
    q = abs(a) // abs(b)
    return q if (a < 0) == (b < 0) else -q


CMPI = {
    0: lambda a, b, w: a == b,
    1: lambda a, b, w: a != b,
    2: lambda a, b, w: signed(a, w) < signed(b, w),
    3: lambda a, b, w: signed(a, w) <= signed(b, w),
    4: lambda a, b, w: signed(a, w) > signed(b, w),
    5: lambda a, b, w: signed(a, w) >= signed(b, w),
    6: lambda a, b, w: a < b,
    7: lambda a, b, w: a <= b,
    8: lambda a, b, w: a > b,
    9: lambda a, b, w: a >= b,
}


def binop_int(name: str, a: int, b: int, w: int) -> int:
    """Two's complement semantics of arith integer binary ops on unsigned-normalised values."""
    if name == "arith.addi":
        r = a + b
    elif name == "arith.subi":
        r = a - b
    elif name == "arith.muli":
        r = a * b
    elif name == "arith.andi":
        r = a & b
    elif name == "arith.ori":
        r = a | b
    elif name == "arith.xori":
        r = a ^ b
    elif name == "arith.shli":
        r = a << b if b < w else 0
    elif name == "arith.shrui":
        r = a >> b if b < w else 0
    elif name == "arith.shrsi":
        r = signed(a, w) >> min(b, w - 1)
    elif name == "arith.divui":
        if b == 0:
            raise MachineError("division by zero")
        r = a // b
    elif name == "arith.remui":
        if b == 0:
            raise MachineError("division by zero")
        r = a % b
    elif name == "arith.divsi":
        if b == 0:
            raise MachineError("division by zero")
        r = _tdiv(signed(a, w), signed(b, w))
    elif name == "arith.remsi":
        if b == 0:
            raise MachineError("division by zero")
        sa, sb = signed(a, w), signed(b, w)
        r = sa - sb * _tdiv(sa, sb)
    elif name == "arith.floordivsi":
        if b == 0:
            raise MachineError("division by zero")
        r = signed(a, w) // signed(b, w)
    elif name == "arith.ceildivsi":
        if b == 0:
            raise MachineError("division by zero")
        r = _cdiv(signed(a, w), signed(b, w))
    elif name == "arith.ceildivui":
        if b == 0:
            raise MachineError("division by zero")
        r = _cdiv(a, b)
    elif name == "arith.minsi":
        r = min(signed(a, w), signed(b, w))
    elif name == "arith.maxsi":
        r = max(signed(a, w), signed(b, w))
    elif name == "arith.minui":
        r = min(a, b)
    elif name == "arith.maxui":
        r = max(a, b)
    else:
        raise Unsupported(name)
    return wrap(r, w)


INT_BINOPS = {
    "arith.addi",
    "arith.subi",
    "arith.muli",
    "arith.andi",
    "arith.ori",
    "arith.xori",
    "arith.shli",
    "arith.shrui",
    "arith.shrsi",
    "arith.divui",
    "arith.remui",
    "arith.divsi",
    "arith.remsi",
    "arith.floordivsi",
    "arith.ceildivsi",
    "arith.ceildivui",
    "arith.minsi",
    "arith.maxsi",
    "arith.minui",
    "arith.maxui",
}


class Interp:
    """Interpreter with pluggable op handlers (`self.handlers[name](op) -> None | terminator`)."""

    def __init__(self, module: Operation, step_budget: int = 2_000_000, seed: int = 0):
        self.module = module
        self.funcs = {}
        for op in module.walk():
            if op.name == "func.func":
                self.funcs[op.sym_name.data] = op
        self.env: dict[SSAValue, object] = {}
        self.steps = 0
        self.step_budget = step_budget
        self.seed = seed
        self.opaque_counter: Counter = Counter()
        self.events: list = []
        self.handlers: dict = {}
        self.call_handlers: dict = {}  # callee name -> fn(op, args) -> results
        self._install_base()

    # -- environment ---------------------------------------------------------------------
    def get(self, v: SSAValue):
        try:
            return self.env[v]
        except KeyError:
            raise UseBeforeDef(f"value {v} read before definition (owner {getattr(v.owner, 'name', 'block')})")

    def set(self, v: SSAValue, x):
        self.env[v] = x

    def set_results(self, op: Operation, vals):
        for r, x in zip(op.results, vals, strict=True):
            self.env[r] = x

    # -- execution -----------------------------------------------------------------------
    def run_func(self, name: str, args):
        f = self.funcs[name]
        if not f.body.blocks:
            raise Unsupported(f"call of declaration {name}")
        if len(f.body.blocks) != 1:
            raise Unsupported("multi-block function")
        kind, vals = self.run_block(f.body.blocks[0], args)
        assert kind == "return", kind
        return vals

    def run_block(self, block: Block, args=()):
        env = self.env
        for op in block.ops:
            for r in op.results:
                env.pop(r, None)
        for a, x in zip(block.args, args, strict=True):
            env[a] = x
        self.on_block_entry(block)
        handlers = self.handlers
        for op in block.ops:
            self.steps += 1
            if self.steps > self.step_budget:
                raise StepBudget()
            h = handlers.get(op.name)
            if h is None:
                h = self.default_handler
            t = h(op)
            if t is not None:
                return t
        return ("fallthrough", ())

    def on_block_entry(self, block: Block):
        pass

    def default_handler(self, op: Operation):
        raise Unsupported(op.name)

    # -- opaque values -------------------------------------------------------------------
    def opaque_result(self, op: Operation, idx: int, rtype):
        vid = op.attributes.get("verif.id")
        key = vid.data if isinstance(vid, builtin.StringAttr) else None
        if key is None:
            raise Unsupported(f"opaque producer without verif.id: {op.name}")
        n = self.opaque_counter[(key, idx)]
        self.opaque_counter[(key, idx)] += 1
        h = H(self.seed, key, idx, n)
        if isinstance(rtype, IntegerType | IndexType):
            w = width_of(rtype)
            return h & ((1 << min(w, 40)) - 1) if w > 1 else h & 1
        return h

    # -- base handlers -------------------------------------------------------------------
    def _install_base(self):
        hd = self.handlers
        for n in INT_BINOPS:
            hd[n] = self._h_binop
        hd["arith.constant"] = self._h_constant
        hd["arith.cmpi"] = self._h_cmpi
        hd["arith.select"] = self._h_select
        hd["arith.index_cast"] = self._h_sext_like
        hd["arith.index_castui"] = self._h_zext_like
        hd["arith.extsi"] = self._h_sext_like
        hd["arith.extui"] = self._h_zext_like
        hd["arith.trunci"] = self._h_zext_like
        hd["scf.for"] = self._h_for
        hd["scf.if"] = self._h_if
        hd["scf.while"] = self._h_while
        hd["scf.yield"] = lambda op: ("yield", [self.get(o) for o in op.operands])
        hd["scf.condition"] = lambda op: ("condition", [self.get(o) for o in op.operands])
        hd["func.return"] = lambda op: ("return", [self.get(o) for o in op.operands])
        hd["func.call"] = self._h_call
        hd["builtin.unrealized_conversion_cast"] = self._h_ucc
        hd["test.op"] = self._h_testop
        hd["affine.min"] = self._h_affine_min
        hd["affine.apply"] = self._h_affine_apply

    def _h_binop(self, op):
        w = width_of(op.results[0].type)
        self.env[op.results[0]] = binop_int(op.name, self.get(op.operands[0]), self.get(op.operands[1]), w)

    def _h_constant(self, op):
        v = op.value
        if isinstance(v, IntegerAttr):
            self.env[op.results[0]] = wrap(v.value.data, width_of(v.type))
        elif isinstance(v, FloatAttr):
            self.env[op.results[0]] = float(v.value.data)
        elif isinstance(v, DenseIntOrFPElementsAttr):
            self.env[op.results[0]] = self.dense_constant(op, v)
        else:
            raise Unsupported(f"constant {v}")

    def dense_constant(self, op, v):
        raise Unsupported("dense constant")

    def _h_cmpi(self, op):
        w = width_of(op.operands[0].type)
        p = op.predicate.value.data
        self.env[op.results[0]] = int(CMPI[p](self.get(op.operands[0]), self.get(op.operands[1]), w))

    def _h_select(self, op):
        c = self.get(op.operands[0])
        self.env[op.results[0]] = self.get(op.operands[1]) if c else self.get(op.operands[2])

    def _h_sext_like(self, op):
        wi = width_of(op.operands[0].type)
        wo = width_of(op.results[0].type)
        self.env[op.results[0]] = wrap(signed(self.get(op.operands[0]), wi), wo)

    def _h_zext_like(self, op):
        wo = width_of(op.results[0].type)
        self.env[op.results[0]] = wrap(self.get(op.operands[0]), wo)

    def _h_for(self, op):
        w = width_of(op.lb.type)
        lb, ub, step = signed(self.get(op.lb), w), signed(self.get(op.ub), w), signed(self.get(op.step), w)
        if step <= 0:
            raise MachineError(f"scf.for with non-positive step {step}")
        carried = [self.get(a) for a in op.iter_args]
        block = op.body.blocks[0]
        i = lb
        n = 0
        self.on_loop_enter(op)
        while i < ub:
            self.on_iteration(op, block, n)
            kind, vals = self.run_block(block, [wrap(i, w), *carried])
            assert kind == "yield", kind
            carried = vals
            i += step
            n += 1
        self.on_loop_exit(op, n)
        self.set_results(op, carried)

    def on_loop_enter(self, op):
        pass

    def on_iteration(self, op, block, n):
        pass

    def on_loop_exit(self, op, trips=None):
        pass

    def _h_if(self, op):
        c = self.get(op.cond)
        region = op.true_region if c else op.false_region
        if not region.blocks:
            if op.results:
                raise MachineError("scf.if with results but empty region")
            return
        kind, vals = self.run_block(region.blocks[0], ())
        if kind == "fallthrough":
            vals = []
        self.set_results(op, vals)

    def _h_while(self, op):
        vals = [self.get(a) for a in op.operands]
        while True:
            kind, cv = self.run_block(op.before_region.blocks[0], vals)
            assert kind == "condition"
            if not cv[0]:
                self.set_results(op, cv[1:])
                return
            kind, vals = self.run_block(op.after_region.blocks[0], cv[1:])
            assert kind == "yield"

    def _h_call(self, op):
        callee = op.callee.string_value()
        args = [self.get(o) for o in op.operands]
        ch = self.call_handlers.get(callee)
        if ch is not None:
            res = ch(op, args)
        elif callee in self.funcs and self.funcs[callee].body.blocks:
            res = self.run_func(callee, args)
        else:
            res = self.external_call(op, callee, args)
        self.set_results(op, res or [])

    def external_call(self, op, callee, args):
        raise Unsupported(f"external call {callee}")

    def _h_ucc(self, op):
        if len(op.operands) == len(op.results):
            for o, r in zip(op.operands, op.results):
                self.env[r] = self.get(o)
        else:
            raise Unsupported("unrealized_conversion_cast n->m")

    def _h_testop(self, op):
        args = [self.get(o) for o in op.operands]
        self.on_testop(op, args)
        for i, r in enumerate(op.results):
            self.env[r] = self.opaque_result(op, i, r.type)

    def on_testop(self, op, args):
        vid = op.attributes.get("verif.id")
        if isinstance(vid, builtin.StringAttr) and not op.attributes.get("verif.silent"):
            self.events.append(("T", vid.data, tuple(a if isinstance(a, int) else repr(a) for a in args)))

    # affine helpers
    def _eval_affine(self, expr, dims, syms):
        from xdsl.ir.affine import AffineBinaryOpExpr, AffineBinaryOpKind, AffineConstantExpr, AffineDimExpr, AffineSymExpr

        if isinstance(expr, AffineConstantExpr):
            return expr.value
        if isinstance(expr, AffineDimExpr):
            return dims[expr.position]
        if isinstance(expr, AffineSymExpr):
            return syms[expr.position]
        if isinstance(expr, AffineBinaryOpExpr):
            a = self._eval_affine(expr.lhs, dims, syms)
            b = self._eval_affine(expr.rhs, dims, syms)
            k = expr.kind
            if k == AffineBinaryOpKind.Add:
                return a + b
            if k == AffineBinaryOpKind.Mul:
                return a * b
            if k == AffineBinaryOpKind.Mod:
                return a % b
            if k == AffineBinaryOpKind.FloorDiv:
                return a // b
            if k == AffineBinaryOpKind.CeilDiv:
                return _cdiv(a, b)
        raise Unsupported(f"affine expr {expr}")

    def _affine_operands(self, op, amap):
        vals = [signed(self.get(o), INDEX_W) for o in op.operands]
        return vals[: amap.num_dims], vals[amap.num_dims :]

    def _h_affine_min(self, op):
        amap = op.map.data
        d, s = self._affine_operands(op, amap)
        self.env[op.results[0]] = wrap(min(self._eval_affine(e, d, s) for e in amap.results), INDEX_W)

    def _h_affine_apply(self, op):
        amap = op.map.data
        d, s = self._affine_operands(op, amap)
        self.env[op.results[0]] = wrap(self._eval_affine(amap.results[0], d, s), INDEX_W)
