"""PE interpreter: evaluates an abstract `phs.pe` graph under a concrete switch assignment (oracle side, trusted base).

Semantics (snaxc/dialects/phs.py docstrings; the generated hardware is combinational):
  * the last `switch_no` block arguments of the PE are switches, the others are data inputs;
  * `phs.choose` computes the operation of the region selected by its switch (0 = default region, i = i-th case region)
    on ALL its data operands; a choose with a single region has its switch optimised away in hardware (value 0);
  * `phs.mux` forwards lhs when its switch is 0 and rhs when it is 1;
  * `phs.yield` of the PE body gives the outputs.
A decoded switch list is mapped onto the switches in block-argument order, skipping the switches of single-region
chooses - exactly the order in which `phs_switch_i` fields are numbered.

The graph is evaluated demand-driven from the yield (hardware is wiring, not a program order): a value that is needed
under the given assignment but depends on itself is a combinational loop (`PEError`), a value that is never selected is
never looked at.  Ops are recognised by *name*; no repo class is imported.  The operation inside a choose region is
executed by vf/interp/scalar.py (same evaluator as the kernel bodies, so float rounding is identical on both sides).
"""
from __future__ import annotations

from xdsl.dialects.builtin import IndexType
from xdsl.ir import Block, BlockArgument

from vf.interp import scalar as S


class PEError(Exception):
    """The graph cannot compute under this assignment (switch out of range, combinational loop, ill-typed wiring,
    wrong number of switch values)."""


def pe_block(pe) -> Block:
    return pe.regions[0].blocks[0]


def split_args(pe):
    """(data block arguments, switch block arguments) from the `switch_no` property."""
    block = pe_block(pe)
    n = pe.properties["switch_no"].value.data
    args = list(block.args)
    if n < 0 or n > len(args):
        raise PEError(f"switch_no = {n} with {len(args)} block arguments")
    return (args[: len(args) - n], args[len(args) - n :]) if n else (args, [])


def switch_user(sw):
    uses = list(sw.uses)
    if len(uses) != 1:
        raise PEError(f"switch #{sw.index} drives {len(uses)} operations")
    use = uses[0]
    op = use.operation
    if op.name == "phs.choose":
        if use.index != len(op.operands) - 1:
            raise PEError("switch used as a data operand of phs.choose")
    elif op.name == "phs.mux":
        if use.index != 2:
            raise PEError("switch used as a data operand of phs.mux")
    else:
        raise PEError(f"switch drives {op.name}")
    return op


def true_switches(pe):
    """Switches that exist in hardware: every mux switch and every choose switch with >= 2 regions."""
    out = []
    for sw in split_args(pe)[1]:
        op = switch_user(sw)
        if op.name == "phs.mux" or len(op.regions) > 1:
            out.append(sw)
    return out


def assign(pe, decoded) -> dict:
    """Map a decoded switch list onto the PE's switches.  Raises PEError when the counts differ."""
    ts = true_switches(pe)
    if len(ts) != len(decoded):
        raise PEError(f"{len(decoded)} switch values for {len(ts)} hardware switches")
    m = {sw: 0 for sw in split_args(pe)[1]}
    for sw, v in zip(ts, decoded):
        m[sw] = int(v)
    return m


def graph_stats(pe) -> dict:
    block = pe_block(pe)
    muxes = sum(1 for o in block.ops if o.name == "phs.mux")
    chooses = [o for o in block.ops if o.name == "phs.choose"]
    return {
        "muxes": muxes,
        "chooses": len(chooses),
        "max_alternatives": max([len(c.regions) for c in chooses], default=0),
        "multi_choice": sum(1 for c in chooses if len(c.regions) > 1),
        "switches": len(split_args(pe)[1]),
    }


class ConfiguredPE:
    """The PE under one switch assignment, compiled into a step list over the active path."""

    def __init__(self, pe, switch_values: dict):
        self.pe = pe
        self.sw = switch_values
        self.block = pe_block(pe)
        self.data_args, self.switch_args = split_args(pe)
        self.data_types = [a.type for a in self.data_args]
        self.slot_of: dict = {a: i for i, a in enumerate(self.data_args)}
        self.n_slots = len(self.data_args)
        self.steps: list = []
        self.active_ops: list[str] = []
        self._busy: set = set()
        term = self.block.last_op
        if term is None or term.name != "phs.yield":
            raise PEError("PE body does not end in phs.yield")
        self.out_slots = [self._resolve(o) for o in term.operands]
        self.out_types = [o.type for o in term.operands]

    def _switch_value(self, v):
        if not isinstance(v, BlockArgument) or v not in self.sw:
            raise PEError("switch operand is not a switch block argument of the PE")
        return self.sw[v]

    def _resolve(self, v) -> int:
        s = self.slot_of.get(v)
        if s is not None:
            return s
        if isinstance(v, BlockArgument):
            if v.owner is self.block and isinstance(v.type, IndexType):
                raise PEError("a switch is used as data")
            raise PEError("value from outside the PE")
        op = v.owner
        if op.parent_block() is not self.block:
            raise PEError(f"value of {op.name} defined outside the PE body")
        if op in self._busy:
            raise PEError(f"combinational loop through {op.name} under this switch assignment")
        self._busy.add(op)
        try:
            if op.name == "phs.mux":
                sel = self._switch_value(op.operands[2])
                if sel not in (0, 1):
                    raise PEError(f"mux switch value {sel}")
                src = op.operands[sel]
                if S.type_key(src.type) != S.type_key(v.type):
                    raise PEError(f"mux forwards {S.type_key(src.type)} as {S.type_key(v.type)}")
                s = self._resolve(src)
                self.slot_of[v] = s
                return s
            if op.name == "phs.choose":
                sel = self._switch_value(op.operands[-1])
                regions = list(op.regions)
                if not 0 <= sel < len(regions):
                    raise PEError(f"choose switch value {sel} with {len(regions)} regions")
                data = list(op.operands[:-1])
                rblock = regions[sel].blocks[0]
                if [S.type_key(a.type) for a in rblock.args] != [S.type_key(d.type) for d in data]:
                    raise PEError(
                        f"choose region takes ({', '.join(S.type_key(a.type) for a in rblock.args)}) but is wired to "
                        f"({', '.join(S.type_key(d.type) for d in data)})"
                    )
                ins = [self._resolve(d) for d in data]
                try:
                    body = S.Body(rblock, expect_yield_types=[r.type for r in op.results])
                except S.IllTyped as e:
                    raise PEError(f"ill-typed choose region: {e}") from e
                outs = []
                for r in op.results:
                    self.slot_of[r] = self.n_slots
                    outs.append(self.n_slots)
                    self.n_slots += 1
                self.steps.append((body, tuple(ins), tuple(outs)))
                self.active_ops.append("/".join(body.names) or "pass")
                return self.slot_of[v]
            raise PEError(f"unexpected op {op.name} in PE body")
        finally:
            self._busy.discard(op)

    def __call__(self, data):
        if len(data) != len(self.data_args):
            raise ValueError(f"PE has {len(self.data_args)} data inputs, got {len(data)}")
        env = list(data) + [None] * (self.n_slots - len(data))
        for body, ins, outs in self.steps:
            vals = body([env[i] for i in ins])
            for o, x in zip(outs, vals, strict=True):
                env[o] = x
        return [env[s] for s in self.out_slots]
