"""Fixed-width scalar evaluator for straight-line bodies (linalg.generic bodies, phs.choose regions).

Oracle-side code (trusted base), independent of the repo: ops are keyed by *name*, no snaxc class is imported.
Integers are unsigned Python ints in [0, 2^w) (two's complement at the width of each SSA value); floats are Python
floats rounded to the declared format after every operation (f16/f32 through `struct`, f64 native).

`Body(block)` compiles a single block once (type-checking it on the way: `IllTyped`), `body(args)` evaluates it and
returns the values handed to the terminator.  Values defined outside the block may be `arith.constant`s only.

kernel.* ops are evaluated by their documented meaning, *not* by the repo's `equivalent_region`:
    kernel.mul      res = sext(lhs) * sext(rhs)                                   (mod 2^w_res)
    kernel.add      res = sext(lhs) + sext(rhs)                                   (mod 2^w_res)
    kernel.mac      res = out + sext(lhs) * sext(rhs)                             (out = last block argument of the body)
    kernel.qmac     res = out + (sext(lhs) - sext(zp_lhs)) * (sext(rhs) - sext(zp_rhs))
    kernel.rescale  util/gemmx/simd_golden_model.py `postprocessing_simd_golden_model` (the spec linked in kernel.py is
                    a gist that is unreachable offline; this model has the op's exact parameter list and is the golden
                    reference of kernels/gemm/gemm_rescale.py), transcribed to exact integers; an input for which a
                    32-bit intermediate of that model overflows is `OutOfDomain` (counted, never judged).
`sext` stands for the conversion to the result width: sign extension of a narrower operand, truncation of a wider one
(mod 2^w arithmetic makes the latter the only consistent reading; such combinations have no well-typed canonical body and
are never *judged* by the expansion monitor, see vf/checks/C18.py).
"""
from __future__ import annotations

import math
import struct

from xdsl.dialects.builtin import (
    BFloat16Type,
    DenseArrayBase,
    Float16Type,
    Float32Type,
    Float64Type,
    FloatAttr,
    IndexType,
    IntegerAttr,
    IntegerType,
)
from xdsl.ir import Block, BlockArgument, SSAValue

from vf.interp.core import CMPI, binop_int, signed, wrap


class IllTyped(Exception):
    """The body is not well typed (an op mixes widths, the terminator's type differs from what is expected)."""


class UnsupportedOp(Exception):
    """The evaluator has no semantics for this op: the case is skipped and counted."""


class UndefinedResult(Exception):
    """The body has no defined result on this input vector (integer division by zero)."""


class OutOfDomain(Exception):
    """The documented meaning of a kernel op does not cover this operand-type combination / input."""


# ------------------------------------------------------------------------------------------------
# types and values
# ------------------------------------------------------------------------------------------------
def is_int(t) -> bool:
    return isinstance(t, IntegerType | IndexType)


def is_float(t) -> bool:
    return isinstance(t, Float16Type | Float32Type | Float64Type)


def width(t) -> int:
    if isinstance(t, IntegerType):
        return t.width.data
    if isinstance(t, IndexType):
        return 64
    if isinstance(t, Float16Type):
        return 16
    if isinstance(t, Float32Type):
        return 32
    if isinstance(t, Float64Type):
        return 64
    raise UnsupportedOp(f"type {t}")


def type_key(t) -> str:
    if isinstance(t, IntegerType):
        return f"i{t.width.data}"
    if isinstance(t, IndexType):
        return "index"
    if isinstance(t, Float16Type):
        return "f16"
    if isinstance(t, Float32Type):
        return "f32"
    if isinstance(t, Float64Type):
        return "f64"
    if isinstance(t, BFloat16Type):
        return "bf16"
    return str(t)


def round_float(x: float, w: int) -> float:
    """Round a Python float (binary64) to the format of width w (round-to-nearest-even, overflow -> inf)."""
    if w == 64 or x != x or x in (math.inf, -math.inf):
        return x
    fmt = "<f" if w == 32 else "<e"
    try:
        return struct.unpack(fmt, struct.pack(fmt, x))[0]
    except OverflowError:
        return math.copysign(math.inf, x)


def same_value(a, b) -> bool:
    """Bit-level equality (NaN == NaN, +0.0 != -0.0) for floats, plain equality for ints."""
    if isinstance(a, float) or isinstance(b, float):
        if not (isinstance(a, float) and isinstance(b, float)):
            return False
        if a != a or b != b:
            return a != a and b != b
        return a == b and math.copysign(1.0, a) == math.copysign(1.0, b)
    return a == b


def show(v, t=None):
    if isinstance(v, float):
        return repr(v)
    if t is not None and is_int(t):
        return signed(v, width(t))
    return v


def _fdiv(a: float, b: float) -> float:
    if b == 0.0:
        if a == 0.0 or a != a:
            return math.nan
        return math.copysign(math.inf, a) * math.copysign(1.0, b)
    try:
        return a / b
    except OverflowError:
        return math.copysign(math.inf, a) * math.copysign(1.0, b)


def _fmul(a, b):
    try:
        return a * b
    except OverflowError:  # cannot happen for floats, kept for symmetry
        return math.copysign(math.inf, a) * math.copysign(1.0, b)


def _fmax_prop(a, b):  # arith.maximumf: NaN propagates, +0 > -0
    if a != a or b != b:
        return math.nan
    if a == b == 0.0:
        return a if math.copysign(1.0, a) > 0 else b
    return a if a > b else b


def _fmin_prop(a, b):
    if a != a or b != b:
        return math.nan
    if a == b == 0.0:
        return a if math.copysign(1.0, a) < 0 else b
    return a if a < b else b


def _fmaxnum(a, b):  # arith.maxnumf: the non-NaN operand wins
    if a != a:
        return b
    if b != b:
        return a
    return _fmax_prop(a, b)


def _fminnum(a, b):
    if a != a:
        return b
    if b != b:
        return a
    return _fmin_prop(a, b)


FLOAT_BINOPS = {
    "arith.addf": lambda a, b: a + b,
    "arith.subf": lambda a, b: a - b,
    "arith.mulf": _fmul,
    "arith.divf": _fdiv,
    "arith.maximumf": _fmax_prop,
    "arith.minimumf": _fmin_prop,
    "arith.maxnumf": _fmaxnum,
    "arith.minnumf": _fminnum,
}

INT_BINOPS = {
    "arith.addi",
    "arith.subi",
    "arith.muli",
    "arith.andi",
    "arith.ori",
    "arith.xori",
    "arith.shli",
    "arith.shrui",
    "arith.shrsi",
    "arith.divui",
    "arith.remui",
    "arith.divsi",
    "arith.remsi",
    "arith.floordivsi",
    "arith.ceildivsi",
    "arith.ceildivui",
    "arith.minsi",
    "arith.maxsi",
    "arith.minui",
    "arith.maxui",
}
_DIVS = {"arith.divui", "arith.remui", "arith.divsi", "arith.remsi", "arith.floordivsi", "arith.ceildivsi", "arith.ceildivui"}

CMPF = {
    0: lambda a, b: False,
    1: lambda a, b: a == b,  # oeq
    2: lambda a, b: a > b,
    3: lambda a, b: a >= b,
    4: lambda a, b: a < b,
    5: lambda a, b: a <= b,
    6: lambda a, b: a == a and b == b and a != b,  # one
    7: lambda a, b: a == a and b == b,  # ord
    8: lambda a, b: a != a or b != b or a == b,  # ueq
    9: lambda a, b: a != a or b != b or a > b,
    10: lambda a, b: a != a or b != b or a >= b,
    11: lambda a, b: a != a or b != b or a < b,
    12: lambda a, b: a != a or b != b or a <= b,
    13: lambda a, b: a != b,  # une (true when unordered)
    14: lambda a, b: a != a or b != b,  # uno
    15: lambda a, b: True,
}


# ------------------------------------------------------------------------------------------------
# documented meaning of the kernel ops
# ------------------------------------------------------------------------------------------------
def fits(x: int, w: int) -> bool:
    return -(1 << (w - 1)) <= x < (1 << (w - 1))


def rescale_params(op) -> dict:
    """Read the parameter set of a kernel.rescale op into plain ints (attribute names as documented in kernel.py)."""
    a = op.attributes

    def arr(x):
        if isinstance(x, DenseArrayBase):
            return [int(v) for v in x.get_values()]
        raise UnsupportedOp(f"rescale array attribute {x}")

    return {
        "input_zp": a["input_zp"].value.data,
        "output_zp": a["output_zp"].value.data,
        "multiplier": arr(a["multiplier"]),
        "shift": arr(a["shift"]),
        "max_int": a["max_int"].value.data,
        "min_int": a["min_int"].value.data,
        "double_round": bool(a["double_round"].value.data),
    }


def rescale_meaning(x: int, p: dict, w_out: int) -> int:
    """x: signed input value.  Returns the unsigned-normalised result at w_out bits, or raises OutOfDomain."""
    mults, shifts = p["multiplier"], p["shift"]
    if len(set(mults)) != 1 or len(set(shifts)) != 1:
        raise OutOfDomain("per-channel parameters: not a function of the scalar input alone")
    mult, shift = mults[0], shifts[0]
    if p["min_int"] > p["max_int"]:
        raise OutOfDomain("empty clamp range")
    v = x - p["input_zp"]  # step 1
    if not fits(v, 32):
        raise OutOfDomain("input - input_zp exceeds 32 bit")
    prod = v * mult  # step 2 (exact in 64 bit: |v|,|mult| <= 2^31)
    if not fits(prod, 64):
        raise OutOfDomain("product exceeds 64 bit")
    if shift < 1:
        # the model shifts by (shift - 1) first: undefined for shift 0.  Without rounding the intent is unambiguous.
        if shift < 0 or p["double_round"]:
            raise OutOfDomain("shift < 1 with rounding")
        y = prod
        if not fits(y, 32):
            raise OutOfDomain("32-bit intermediate overflows")
    else:
        y = prod >> (shift - 1)  # step 3
        if not fits(y, 32):
            raise OutOfDomain("32-bit intermediate overflows")
        if p["double_round"]:  # step 4
            y = y + 1 if y >= 0 else y - 1
            if not fits(y, 32):
                raise OutOfDomain("32-bit intermediate overflows")
        y >>= 1  # step 5
    y += p["output_zp"]  # step 6
    if not fits(y, 32):
        raise OutOfDomain("32-bit intermediate overflows")
    y = max(p["min_int"], min(p["max_int"], y))  # step 7
    return wrap(y, w_out)


def _sext_to(v: int, w_from: int, w_to: int, what: str) -> int:
    """Signed value of an operand; the caller reduces the final result mod 2^w_to, which truncates wider operands."""
    return signed(v, w_from)


# ------------------------------------------------------------------------------------------------
# compiled straight-line body
# ------------------------------------------------------------------------------------------------
class Body:
    """Compile one straight-line block into a step list."""

    def __init__(self, block: Block, expect_yield_types=None):
        self.block = block
        self.arg_types = [a.type for a in block.args]
        self.slots: dict[SSAValue, int] = {}
        self.init: list = []
        self.steps: list = []
        self.names: list[str] = []
        for a in block.args:
            self._new_slot(a)
        self.nargs = len(block.args)
        self.yield_slots: list[int] = []
        self.yield_types: list = []
        term = None
        for op in block.ops:
            if op is block.last_op and op.name.endswith(".yield"):
                term = op
                break
            self._compile(op)
        if term is None:
            raise IllTyped("block has no yield terminator")
        for o in term.operands:
            self.yield_slots.append(self._slot(o))
            self.yield_types.append(o.type)
        if expect_yield_types is not None:
            if [type_key(t) for t in self.yield_types] != [type_key(t) for t in expect_yield_types]:
                raise IllTyped(
                    f"terminator yields ({', '.join(type_key(t) for t in self.yield_types)}) where "
                    f"({', '.join(type_key(t) for t in expect_yield_types)}) is expected"
                )

    # -- slots -----------------------------------------------------------------------------------
    def _new_slot(self, v: SSAValue) -> int:
        self.slots[v] = len(self.init)
        self.init.append(None)
        return self.slots[v]

    def _slot(self, v: SSAValue) -> int:
        s = self.slots.get(v)
        if s is not None:
            return s
        # a value defined outside the block: constants only
        owner = v.owner
        if isinstance(owner, Block) or owner.name != "arith.constant":
            if not isinstance(owner, Block) and owner.parent_block() is self.block:
                raise IllTyped(f"use of {owner.name} result before its definition")
            raise UnsupportedOp(f"value from outside the body: {getattr(owner, 'name', 'block argument')}")
        s = self._new_slot(v)
        self.init[s] = _constant_value(owner)
        return s

    # -- ops -------------------------------------------------------------------------------------
    def _compile(self, op):
        n = op.name
        ins = [self._slot(o) for o in op.operands]
        ots = [o.type for o in op.operands]
        rts = [r.type for r in op.results]
        fn = None
        if n in INT_BINOPS:
            if not (len(ots) == 2 and len(rts) == 1 and is_int(rts[0]) and type_key(ots[0]) == type_key(ots[1]) == type_key(rts[0])):
                raise IllTyped(f"{n} on ({', '.join(map(type_key, ots))}) -> {', '.join(map(type_key, rts))}")
            w = width(rts[0])
            if n in _DIVS:

                def fn(a, b, n=n, w=w):
                    if b == 0:
                        raise UndefinedResult("division by zero")
                    if n in ("arith.divsi", "arith.floordivsi", "arith.ceildivsi", "arith.remsi") and signed(a, w) == -(1 << (w - 1)) and signed(b, w) == -1:
                        raise UndefinedResult("signed division overflow")
                    return binop_int(n, a, b, w)

            elif n == "arith.addi":
                m = (1 << w) - 1
                fn = lambda a, b, m=m: (a + b) & m  # noqa: E731
            elif n == "arith.subi":
                m = (1 << w) - 1
                fn = lambda a, b, m=m: (a - b) & m  # noqa: E731
            elif n == "arith.muli":
                m = (1 << w) - 1
                fn = lambda a, b, m=m: (a * b) & m  # noqa: E731
            elif n in ("arith.shli", "arith.shrui", "arith.shrsi"):

                def fn(a, b, n=n, w=w):
                    if b >= w:
                        raise UndefinedResult("shift amount >= width")
                    return binop_int(n, a, b, w)

            else:
                fn = lambda a, b, n=n, w=w: binop_int(n, a, b, w)  # noqa: E731
        elif n in FLOAT_BINOPS:
            if not (len(ots) == 2 and len(rts) == 1 and is_float(rts[0]) and type_key(ots[0]) == type_key(ots[1]) == type_key(rts[0])):
                raise IllTyped(f"{n} on ({', '.join(map(type_key, ots))}) -> {', '.join(map(type_key, rts))}")
            w = width(rts[0])
            f = FLOAT_BINOPS[n]
            fn = lambda a, b, f=f, w=w: round_float(f(a, b), w)  # noqa: E731
        elif n == "arith.negf":
            w = width(rts[0])
            fn = lambda a: -a  # noqa: E731
        elif n == "arith.constant":
            val = _constant_value(op)
            fn = lambda val=val: val  # noqa: E731
        elif n in ("arith.extsi", "arith.extui", "arith.trunci"):
            if not (is_int(ots[0]) and is_int(rts[0])):
                raise IllTyped(f"{n} on {type_key(ots[0])} -> {type_key(rts[0])}")
            wi, wo = width(ots[0]), width(rts[0])
            if (n != "arith.trunci" and wi >= wo) or (n == "arith.trunci" and wi <= wo):
                raise IllTyped(f"{n} from i{wi} to i{wo}")
            if n == "arith.extsi":
                fn = lambda a, wi=wi, wo=wo: wrap(signed(a, wi), wo)  # noqa: E731
            else:
                fn = lambda a, wo=wo: wrap(a, wo)  # noqa: E731
        elif n == "arith.cmpi":
            if type_key(ots[0]) != type_key(ots[1]) or not is_int(ots[0]) or type_key(rts[0]) != "i1":
                raise IllTyped(f"{n} on ({', '.join(map(type_key, ots))})")
            w = width(ots[0])
            p = CMPI[op.predicate.value.data]
            fn = lambda a, b, p=p, w=w: int(p(a, b, w))  # noqa: E731
        elif n == "arith.cmpf":
            if type_key(ots[0]) != type_key(ots[1]) or not is_float(ots[0]) or type_key(rts[0]) != "i1":
                raise IllTyped(f"{n} on ({', '.join(map(type_key, ots))})")
            p = CMPF[op.predicate.value.data]
            fn = lambda a, b, p=p: int(p(a, b))  # noqa: E731
        elif n == "arith.select":
            if type_key(ots[0]) != "i1" or type_key(ots[1]) != type_key(ots[2]) or type_key(ots[1]) != type_key(rts[0]):
                raise IllTyped(f"{n} on ({', '.join(map(type_key, ots))})")
            fn = lambda c, a, b: a if c else b  # noqa: E731
        elif n in ("kernel.mul", "kernel.add"):
            self._need_ints(n, ots + rts)
            wl, wr_, wo = width(ots[0]), width(ots[1]), width(rts[0])
            mul = n == "kernel.mul"

            def fn(a, b, wl=wl, wr_=wr_, wo=wo, mul=mul, n=n):
                x, y = _sext_to(a, wl, wo, n), _sext_to(b, wr_, wo, n)
                return wrap(x * y if mul else x + y, wo)

        elif n == "kernel.mac":
            self._need_ints(n, ots + rts)
            out = self.block.args[-1]
            if type_key(out.type) != type_key(rts[0]):
                raise OutOfDomain("kernel.mac result type differs from the accumulator (last block argument) type")
            ins = ins + [self.slots[out]]
            wl, wr_, wo = width(ots[0]), width(ots[1]), width(rts[0])

            def fn(a, b, acc, wl=wl, wr_=wr_, wo=wo):
                return wrap(acc + _sext_to(a, wl, wo, "kernel.mac") * _sext_to(b, wr_, wo, "kernel.mac"), wo)

        elif n == "kernel.qmac":
            self._need_ints(n, ots + rts)
            out = self.block.args[-1]
            if type_key(out.type) != type_key(rts[0]):
                raise OutOfDomain("kernel.qmac result type differs from the accumulator (last block argument) type")
            ins = ins + [self.slots[out]]
            ws = [width(t) for t in ots]
            wo = width(rts[0])

            def fn(a, b, za, zb, acc, ws=ws, wo=wo):
                q = "kernel.qmac"
                x = _sext_to(a, ws[0], wo, q) - _sext_to(za, ws[2], wo, q)
                y = _sext_to(b, ws[1], wo, q) - _sext_to(zb, ws[3], wo, q)
                return wrap(acc + x * y, wo)

        elif n == "kernel.rescale":
            self._need_ints(n, ots + rts)
            p = rescale_params(op)
            wi, wo = width(ots[0]), width(rts[0])
            fn = lambda a, p=p, wi=wi, wo=wo: rescale_meaning(signed(a, wi), p, wo)  # noqa: E731
        else:
            raise UnsupportedOp(n)
        if len(op.results) != 1:
            raise UnsupportedOp(f"{n} with {len(op.results)} results")
        out_slot = self._new_slot(op.results[0])
        self.steps.append((fn, tuple(ins), out_slot))
        self.names.append(n)

    @staticmethod
    def _need_ints(n, types):
        for t in types:
            if not isinstance(t, IntegerType):
                raise OutOfDomain(f"{n} on non-integer type {t}")

    # -- evaluation ------------------------------------------------------------------------------
    def __call__(self, args):
        env = list(self.init)
        if len(args) != self.nargs:
            raise ValueError(f"body takes {self.nargs} arguments, got {len(args)}")
        env[: self.nargs] = args
        for fn, ins, out in self.steps:
            env[out] = fn(*[env[i] for i in ins])
        return [env[s] for s in self.yield_slots]


def _constant_value(op):
    v = op.properties.get("value") if hasattr(op, "properties") else None
    if v is None:
        v = op.attributes.get("value")
    if isinstance(v, IntegerAttr):
        t = v.type
        return wrap(v.value.data, width(t))
    if isinstance(v, FloatAttr):
        return round_float(float(v.value.data), width(v.type))
    raise UnsupportedOp(f"constant {v}")


# ------------------------------------------------------------------------------------------------
# input vectors
# ------------------------------------------------------------------------------------------------
def corner_values(t) -> list:
    """{min, -1, 0, 1, max} for integers; a small special set for floats."""
    if is_int(t):
        w = width(t)
        if w == 1:
            return [0, 1]
        return [1 << (w - 1), (1 << w) - 1, 0, 1, (1 << (w - 1)) - 1]
    return [0.0, -0.0, 1.0, -1.0, 0.5, 3.0, -2.5, math.inf, -math.inf, math.nan]


def random_value(rng, t):
    if is_int(t):
        w = width(t)
        if w == 1:
            return rng.randrange(2)
        r = rng.random()
        if r < 0.30:
            return rng.getrandbits(w)
        if r < 0.55:  # +-2^k and neighbours
            k = rng.randrange(w)
            v = (1 << k) + rng.choice((0, 0, -1, 1))
            return wrap(v if rng.random() < 0.5 else -v, w)
        if r < 0.80:
            return wrap(rng.randrange(-20, 21), w)
        if r < 0.90:
            return rng.choice(corner_values(t))
        # half-width magnitudes: products that just overflow / just do not
        return wrap(rng.randrange(-(1 << (w // 2 + 1)), 1 << (w // 2 + 1)), w)
    w = width(t)
    r = rng.random()
    if r < 0.15:
        return rng.choice(corner_values(t))
    if r < 0.55:
        return round_float(rng.randrange(-64, 65) / rng.choice((1, 2, 4, 8, 3, 7)), w)
    if r < 0.8:
        return round_float(rng.uniform(-1e3, 1e3), w)
    e = rng.randrange(-30, 31) if w > 16 else rng.randrange(-10, 11)
    return round_float(rng.uniform(-2, 2) * (2.0**e), w)


def input_vectors(rng, types, n_random=200, max_corner=400):
    """All corner combinations (sampled down to max_corner when the product is larger) plus n_random random vectors."""
    import itertools

    corners = [corner_values(t) for t in types]
    total = 1
    for c in corners:
        total *= len(c)
    vecs = []
    if total <= max_corner:
        vecs.extend(list(v) for v in itertools.product(*corners))
    else:
        for _ in range(max_corner):
            vecs.append([rng.choice(c) for c in corners])
    for _ in range(n_random):
        vecs.append([random_value(rng, t) for t in types])
    return vecs
