"""CSR / RoCC instruction machine (oracle side): interprets llvm.inline_asm emitted by convert-accfg-to-csr.

  "csrw $0, $1"  -> event ("CW", addr, value)
  "csrr $0, $1"  -> event ("CR", addr), result follows the status protocol of the barrier style
  "nop"          -> ignored
  ".insn r CUSTOM_3, 0x3, <funct7> ,x0, $0, $1" -> event ("I", funct7, rs1, rs2)

Status protocol (from the C snippets in snaxc/accelerators/snax.py docstrings): after a write of a non-zero
value to a launch register the accelerator is busy for k further polls (k from the `busy_polls` sequence);
style 1/3 read non-zero while busy and 0 when done, style 2 reads a value v with (v >> 1) == 1 when done.
"""
from __future__ import annotations

import re

from .accfg_m import AccfgMachine
from .core import MachineError, Unsupported, wrap


class CsrMachine(AccfgMachine):
    def __init__(self, module, barrier_styles=None, launch_addrs=(), busy_polls=(0, 1, 3), **kw):
        super().__init__(module, **kw)
        self.barrier_styles = barrier_styles or {}  # barrier addr -> style
        self.launch_addrs = set(launch_addrs)
        self.busy_polls = list(busy_polls)
        self.n_launch_writes = 0
        self.busy = 0
        self.polls = 0
        self.handlers["llvm.inline_asm"] = self._h_asm

    def _h_asm(self, op):
        asm = op.asm_string.data.strip()
        args = [self.get(o) for o in op.operands]
        if asm.startswith("csrw"):
            addr, val = args
            val = wrap(val, 32)
            self.events.append(("CW", addr, val))
            if addr in self.launch_addrs and val != 0:
                self.busy = self.busy_polls[self.n_launch_writes % len(self.busy_polls)]
                self.n_launch_writes += 1
        elif asm.startswith("csrr"):
            (addr,) = args
            self.events.append(("CR", addr))
            self.polls += 1
            style = self.barrier_styles.get(addr, 3)
            if self.busy > 0:
                self.busy -= 1
                v = 1
            else:
                v = 2 if style == 2 else 0
            self.set_results(op, [v])
        elif asm.startswith("nop"):
            pass
        elif asm.startswith(".insn r"):
            m = re.match(r"\.insn r CUSTOM_(\d+),\s*0x3,\s*(\d+)\s*,x0,\s*\$0,\s*\$1", asm)
            if not m:
                raise Unsupported(f"asm {asm}")
            self.events.append(("I", int(m.group(2)), args[0], args[1]))
        else:
            raise Unsupported(f"asm {asm}")
