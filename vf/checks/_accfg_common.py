"""Shared workflow for C01 / C06 / C07: generate G-accfg programs, run real passes, execute on the accfg machine."""
from __future__ import annotations

import random

from vf.ctx import PassTimeout, make_ctx, parse, run_passes_limited, to_text
from vf.gen.accfg_gen import gen_program, input_vectors
from vf.interp.accfg_m import AccfgMachine, Poison, compare_launch_traces
from vf.interp.core import MachineError, StepBudget, Unsupported, UseBeforeDef
from vf import runner as R

ASSUME_COMMON = [
    "xDSL 0.70 is used through the /verif/vf/compat.py shim instead of the commit the repo pins",
    "accfg machine: a launch latches the whole register file; a setup writes exactly its listed fields (snaxc/dialects/accfg.py docstrings)",
    "an op may reconfigure accelerators iff it is a func.call/llvm.call without #accfg.effects<none> or carries #accfg.effects<full>",
    "exceptions raised by a pass (crash / refusal) are rejections of the input, not violations of this property",
]


def exec_prog(module, prog, vec, hooks=(), seed=0):
    m = AccfgMachine(module, seed=seed, step_budget=400_000)
    m.hooks = list(hooks)
    m.run_func("main", [vec[a.name] for a in prog.args])
    return m


def stage(ctx, module, spec, res, seconds=3):
    """Clone + run the real pass.  Returns new module or None (rejected / timed out, already counted)."""
    m2 = module.clone()
    try:
        run_passes_limited(ctx, m2, spec, seconds)
    except PassTimeout:
        R.reject(res, f"PassTimeout@{spec}")
        return None
    except Exception as e:  # crash or refusal of the real pass
        R.reject(res, e)
        return None
    return m2


def changed(m1, m2) -> bool:
    return to_text(m1) != to_text(m2)
