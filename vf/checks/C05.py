"""C05 - DMA lowering of a copy moves every element to its layout position (translation validation).

memref.copy between two generated layouts -> REAL snax-copy-to-dma -> emitted arith/scf/func.call code executed on the DMA machine
(byte memory, runtime descriptors, snax_dma_1d/2d_transfer semantics of runtime/include/snax_rt.h).  Oracle: with the independent
reference layout function every destination element holds the tags of the corresponding source element, reads stay inside the
source footprint, writes inside the destination footprint, no conflicting writes.
"""
from __future__ import annotations

import random
from math import prod

from vf import runner as R
from vf.ctx import PassTimeout, make_ctx, parse, run_passes_limited, to_text
from vf.gen.copy_gen import ELTYPES, dense_steps, factorize, gen_shape, tsl_text
from vf.interp.core import MachineError, StepBudget, Unsupported, UseBeforeDef
from vf.interp.dma_m import Desc, DmaMachine
from vf.ref.layout import RefLayout, from_memref_type

LEVEL = "translation_validation"
RULE = (
    "G-copy: memref.copy between layout pairs (row-major / strided with permuted or padded strides and static or dynamic offset / "
    "tiled-strided with 1..3 tile levels, random nesting order, padding gaps, offsets, dynamic outermost bounds and steps), ranks 1..3, "
    "<=512 elements, i8..i64, static and dynamic shapes (runtime sizes multiples of the inner tile product); both layouts share tile "
    "bounds; 30 % of the modules hold a second copy of the same shape and element type with other layouts (swapped / to or from "
    "row-major) in another function, before or after the judged one, so that nothing the pass remembers from one copy can leak "
    "into the next unnoticed. Non-trivial: layouts differ and >=2 DMA bursts executed; distinct by (rank, layout kinds, tile depths, dynamic flags, "
    "number of loop levels emitted)."
)
ASSUMPTIONS = [
    "xDSL 0.70 is used through the /verif/vf/compat.py shim instead of the commit the repo pins",
    "DMA machine vf/interp/dma_m.py mirrors snrt_dma_start_1d/2d as called in runtime/include/snax_rt.h",
    "reference layout function vf/ref/layout.py; dynamic steps follow the documented contiguity convention (packed after the largest static stride)",
    "out of domain (counted, not judged): overlapping destination layouts, dynamic sizes not divisible by the inner tile product, layouts with different tile bounds",
    "exceptions raised by the pass are rejections",
]
TIERS = {
    "quick": {"shards": 16, "cases": 500, "timeout": 600},
    "thorough": {"shards": 16, "cases": 48000, "timeout": 7200},
}
FLOORS = {
    "quick": {"programs": 1500, "elements_compared": 100000, "distinct_nontrivial": 150, "bursts_observed": 20000, "cases_with_loops": 200, "cases_dynamic": 200, "cases_offset": 200, "cases_unit-dims": 200, "cases_second_copy_in_module": 300},
    "thorough": {"programs": 40000, "elements_compared": 3000000, "distinct_nontrivial": 400},
}

SRC_BASE = 0x10000
DST_BASE = 0x900000


def gen_layout(rng, shape, tile_bounds, kind, allow_dyn):
    """Returns spec dict for one side."""
    rank = len(shape)
    if kind == "none":
        return {"kind": "none"}
    if kind == "strided":
        dyn_str = [allow_dyn and rng.random() < 0.35 for _ in range(rank)]
        strides = [0] * rank
        cur = 1
        if any(dyn_str):
            # dynamic strides are only in the compiler's domain when they follow its contiguity assumption: static strides form
            # a dense chain, dynamic ones continue it (last dimension first).  Anything else is out of domain (DESIGN.md section 7).
            order = [d for d in range(rank) if not dyn_str[d]]
            rng.shuffle(order)
            order += [d for d in reversed(range(rank)) if dyn_str[d]]
            for d in order:
                strides[d] = cur
                cur *= shape[d]
        else:
            # permuted / padded strides
            order = list(range(rank))
            rng.shuffle(order)
            for d in order:
                strides[d] = cur
                cur *= shape[d]
                if rng.random() < 0.3:
                    cur += rng.randint(1, 4)
        off = rng.choice([0, 0, rng.randint(1, 9)])
        dyn_off = allow_dyn and rng.random() < 0.3
        return {"kind": "strided", "strides": strides, "offset": off, "dyn_offset": dyn_off, "dyn_strides": dyn_str}
    steps = dense_steps(rng, tile_bounds, pad=0.15)
    off = rng.choice([0, 0, 0, rng.randint(1, 9)])
    return {"kind": "tsl", "tb": tile_bounds, "steps": steps, "offset": off, "dyn": []}


def make_dynamic_tsl(rng, spec, dyn_dims):
    """Rewrite a static TSL spec into the convention's dynamic form for dims in dyn_dims (outermost bound dynamic)."""
    tb, rank = spec["tb"], len(spec["tb"])
    keys_static = [(d, j) for d in range(rank) for j in range(len(tb[d])) if not (j == 0 and d in dyn_dims)]
    rng.shuffle(keys_static)
    steps = {}
    cur = 1
    for k in keys_static:
        steps[k] = cur
        cur *= tb[k[0]][k[1]]
    dd = sorted(dyn_dims)
    # the largest static step sits on one dynamic-bound outer stride; the others get dynamic steps (dims reversed)
    first = rng.choice(dd)
    steps[(first, 0)] = cur
    dyn = [(d, "b", 0) for d in dd]
    cur = cur * tb[first][0]
    for d in reversed(dd):
        if d == first:
            continue
        steps[(d, 0)] = cur
        dyn.append((d, "s", 0))
        cur *= tb[d][0]
    spec = dict(spec)
    spec["steps"] = [[steps[(d, j)] for j in range(len(tb[d]))] for d in range(rank)]
    spec["dyn"] = dyn
    return spec


def type_text(shape, dyn_dims, el, spec):
    dims = "x".join("?" if d in dyn_dims else str(n) for d, n in enumerate(shape))
    if spec["kind"] == "none":
        return f"memref<{dims}x{el}>"
    if spec["kind"] == "strided":
        st = ", ".join("?" if dy else str(s) for s, dy in zip(spec["strides"], spec["dyn_strides"]))
        off = "?" if spec["dyn_offset"] else str(spec["offset"])
        o = f", offset: {off}" if (spec["dyn_offset"] or spec["offset"]) else ""
        return f"memref<{dims}x{el}, strided<[{st}]{o}>>"
    dyn = {tuple(x) for x in spec["dyn"]}
    return f"memref<{dims}x{el}, {tsl_text(spec['tb'], spec['steps'], spec['offset'], dyn)}>"


def ref_of(shape, spec):
    if spec["kind"] == "none":
        from vf.ref.layout import row_major

        return row_major(shape)
    if spec["kind"] == "strided":
        from vf.ref.layout import strided

        return strided(shape, spec["strides"], spec["offset"])
    return RefLayout([[(b, s) for b, s in zip(tb, st)] for tb, st in zip(spec["tb"], spec["steps"])], spec["offset"])


def desc_of(base, shape, spec, elsize):
    if spec["kind"] == "none":
        st = []
        cur = 1
        for n in reversed(shape):
            st.insert(0, cur)
            cur *= n
        return Desc(base, 0, list(shape), st, elsize)
    if spec["kind"] == "strided":
        return Desc(base, spec["offset"], list(shape), list(spec["strides"]), elsize)
    return Desc(base, spec["offset"], list(shape), [None] * len(shape), elsize)


def gen_case(rng):
    if rng.random() < 0.12:
        # equal steps in different dimensions: unit bounds (possibly only known at run time) next to a real dimension
        rank = rng.choice([2, 2, 3])
        shape = [1] * rank
        for d in rng.sample(range(rank), rng.choice([1, 1, 2]) if rank == 3 else 1):
            shape[d] = rng.choice([2, 3, 4, 6, 8])
        el, elsize = rng.choice(ELTYPES)
        pair = rng.choice([("strided", "strided"), ("strided", "strided"), ("strided", "none"), ("none", "strided")])
        dynamic = rng.random() < 0.85
        tb = [[n] for n in shape]
        # static (permuted / padded) strides, dynamic sizes: the compiler cannot tell which dimension is the unit one
        src = gen_layout(rng, shape, tb, pair[0], False)
        dst = gen_layout(rng, shape, tb, pair[1], False)
        dyn_dims = ([d for d in range(rank) if rng.random() < 0.9] or [0]) if dynamic else []
        return {"shape": shape, "el": el, "elsize": elsize, "src": src, "dst": dst, "dyn_dims": dyn_dims, "class": "unit-dims"}
    rank = rng.choice([1, 2, 2, 3, 3, 4])
    shape = gen_shape(rng, rank)
    el, elsize = rng.choice(ELTYPES)
    depth = [rng.choice([1, 1, 2, 2, 3]) for _ in range(rank)]
    pair = rng.choice([("none", "none"), ("none", "tsl"), ("tsl", "none"), ("tsl", "tsl"), ("tsl", "tsl"), ("strided", "tsl"), ("tsl", "strided"), ("strided", "strided"), ("strided", "none"), ("none", "strided")])
    if "tsl" in pair:
        tb = [factorize(rng, n, dp) for n, dp in zip(shape, depth)]
    else:
        tb = [[n] for n in shape]
    dynamic = rng.random() < 0.3
    src = gen_layout(rng, shape, tb, pair[0], dynamic)
    dst = gen_layout(rng, shape, tb, pair[1], dynamic)
    dyn_dims = []
    if dynamic:
        dyn_dims = [d for d in range(rank) if rng.random() < 0.6] or [0]
        for sp in (src, dst):
            if sp["kind"] == "tsl":
                new = make_dynamic_tsl(rng, sp, set(dyn_dims))
                sp.clear()
                sp.update(new)
    return {"shape": shape, "el": el, "elsize": elsize, "src": src, "dst": dst, "dyn_dims": dyn_dims}


def module_text(case):
    ts = type_text(case["shape"], set(case["dyn_dims"]), case["el"], case["src"])
    td = type_text(case["shape"], set(case["dyn_dims"]), case["el"], case["dst"])
    main = f"""  func.func @main(%src: {ts}, %dst: {td}) {{
    "memref.copy"(%src, %dst) : ({ts}, {td}) -> ()
    func.return
  }}
"""
    before = after = ""
    dec = case.get("decoy")
    if dec:
        # a second copy of the same shape and element type with other layouts, in another function of the same module: the pass
        # rewrites both in one application, so whatever it remembers from one copy must not leak into the judged one
        none = {"kind": "none"}
        ds, dd = {"swapped": (case["dst"], case["src"]), "to-row-major": (case["src"], none), "from-row-major": (none, case["dst"]),
                  "row-major": (none, none)}[dec["kind"]]
        us = type_text(case["shape"], set(case["dyn_dims"]), case["el"], ds)
        ud = type_text(case["shape"], set(case["dyn_dims"]), case["el"], dd)
        f = f"""  func.func @decoy(%a: {us}, %b: {ud}) {{
    "memref.copy"(%a, %b) : ({us}, {ud}) -> ()
    func.return
  }}
"""
        if dec["pos"] == "before":
            before = f
        else:
            after = f
    return "builtin.module {\n" + before + main + after + "}\n"


_ctx = None


def run_case(case, res):
    global _ctx
    if _ctx is None:
        _ctx = make_ctx()
    c = _ctx
    out = []
    shape, elsize = case["shape"], case["elsize"]
    text = module_text(case)
    res["evaluations"] += 1
    try:
        m = parse(c, text)
        m.verify()
    except Exception as e:
        R.bump(res, "generator_invalid")
        R.reject(res, e)
        return out
    # reference layouts are instantiated from the *types the compiler sees* plus the runtime descriptor values
    fargs = [op for op in m.walk() if op.name == "func.func" and op.sym_name.data == "main"][0].body.blocks[0].args
    try:
        rs = from_memref_type(fargs[0].type, shape, case["src"].get("strides"), case["src"].get("offset", 0))
        rd = from_memref_type(fargs[1].type, shape, case["dst"].get("strides"), case["dst"].get("offset", 0))
    except Exception as e:
        R.bump(res, "out_of_domain:reference-cannot-instantiate")
        return out
    if rs.shape() != list(shape) or rd.shape() != list(shape):
        R.bump(res, "out_of_domain:size-not-divisible-by-tiles")
        return out
    if not rs.is_injective():
        R.bump(res, "out_of_domain:overlapping-source")
        return out
    if not rd.is_injective():
        R.bump(res, "out_of_domain:overlapping-destination")
        return out
    try:
        run_passes_limited(c, m, "snax-copy-to-dma", 5)
        m.verify()
    except PassTimeout:
        R.reject(res, "PassTimeout")
        return out
    except Exception as e:
        R.reject(res, e)
        return out
    if any(op.name == "memref.copy" for op in m.walk()):
        R.reject(res, "copy-left-unlowered")
        return out
    res["programs"] += 1
    if case.get("decoy"):
        R.bump(res, "cases_second_copy_in_module")
        R.bump(res, "second_copy:" + case["decoy"]["kind"] + ":" + case["decoy"]["pos"])
    mach = DmaMachine(m, step_budget=400_000)
    # source memory: unique tags per (element, byte); everything else unmapped
    src_fp = set()
    idx_list = list(rs.indices())
    for n, idx in enumerate(idx_list):
        a = SRC_BASE + rs.addr(idx) * elsize
        for b in range(elsize):
            mach.mem[a + b] = ("src", n, b)
            src_fp.add(a + b)
    dst_fp = {}
    for n, idx in enumerate(idx_list):
        a = DST_BASE + rd.addr(idx) * elsize
        for b in range(elsize):
            dst_fp[a + b] = ("src", n, b)
    dsrc = desc_of(SRC_BASE, shape, case["src"], elsize)
    ddst = desc_of(DST_BASE, shape, case["dst"], elsize)
    try:
        mach.run_func("main", [dsrc, ddst])
    except (UseBeforeDef, MachineError, StepBudget) as e:
        out.append({"kind": "emitted-code-fails", "detail": f"{type(e).__name__}: {e}"[:300], "case": case})
        return out
    except Unsupported as e:
        R.bump(res, "oracle_skipped:Unsupported")
        R.reject(res, "oracle-unsupported:" + str(e)[:40])
        return out
    res["compared"] += 1
    bursts = [e for e in mach.events if e[0] == "W"]
    R.bump(res, "bursts_observed", len(bursts))
    # (1) reads inside the source footprint, writes inside the destination footprint
    for e in mach.events:
        if e[0] == "R":
            for i in range(e[2]):
                if e[1] + i not in src_fp:
                    out.append({"kind": "read-outside-source-footprint", "detail": f"byte {e[1] + i:#x} (burst of {e[2]} at {e[1]:#x}); source base {SRC_BASE:#x}", "case": case})
                    return out
        elif e[0] == "W":
            for i in range(e[2]):
                if e[1] + i not in dst_fp:
                    out.append({"kind": "write-outside-destination-footprint", "detail": f"byte {e[1] + i:#x} (burst of {e[2]} at {e[1]:#x}); destination base {DST_BASE:#x}", "case": case})
                    return out
    # (2) every destination byte holds the tag of the corresponding source element byte
    for a, want in dst_fp.items():
        got = mach.mem.get(a)
        if got != want:
            n = want[1]
            out.append(
                {
                    "kind": "element-not-at-its-layout-position",
                    "detail": f"destination element {idx_list[n]} byte {want[2]} holds {got} instead of source element {idx_list[n]}",
                    "case": case,
                }
            )
            return out
        ws = mach.written.get(a, [])
        if any(w != want for w in ws):
            out.append({"kind": "conflicting-writes", "detail": f"byte {a:#x} written with {ws[:3]}", "case": case})
            return out
    R.bump(res, "elements_compared", len(idx_list))
    nloops = sum(1 for op in m.walk() if op.name == "scf.for")
    has2d = any(op.name == "func.call" and op.callee.string_value() == "snax_dma_2d_transfer" for op in m.walk())
    if nloops:
        R.bump(res, "cases_with_loops")
    if has2d:
        R.bump(res, "cases_with_2d_transfer")
    if case["dyn_dims"]:
        R.bump(res, "cases_dynamic")
    if case.get("class"):
        R.bump(res, "cases_" + case["class"])
    if case["src"].get("offset") or case["dst"].get("offset"):
        R.bump(res, "cases_offset")
    if case["src"].get("dyn_offset") or case["dst"].get("dyn_offset"):
        R.bump(res, "cases_dynamic_offset")
    if case["src"] != case["dst"] and len(bursts) >= 2:
        depths = tuple(len(t) for t in case["src"].get("tb", [])) if case["src"]["kind"] == "tsl" else ()
        R.nontrivial(res, len(shape), case["src"]["kind"], case["dst"]["kind"], depths, bool(case["dyn_dims"]), nloops, has2d, case["elsize"])
    return out


def attribute(v):
    return None


def run_shard(seed, shard, n_cases, tier):
    res = R.new_result()
    rng = random.Random(seed)
    rng_d = random.Random((seed << 4) ^ 0xDEC0)  # own stream: the judged copies stay what they were
    for i in range(n_cases):
        case = gen_case(rng)
        if rng_d.random() < 0.3:
            case["decoy"] = {"kind": rng_d.choice(["swapped", "swapped", "to-row-major", "from-row-major", "row-major"]), "pos": rng_d.choice(["before", "after"])}
        for v in run_case(case, res):
            R.violation(res, v["kind"], v["detail"], v["case"], attribute(v), info=v.get("info"))
        if i < 3 and shard == 0:
            R.sample(res, {"module": module_text(case), "runtime_shape": case["shape"]})
    return res


def replay(case):
    return run_case(case, R.new_result())
