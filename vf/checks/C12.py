"""C12 - Materialised casts deliver the right data to every consumer (translation validation).

G-mem function P -> REAL set-memory-space -> P1 -> REAL realize-memref-casts -> P2, all executed on the logical buffer machine:
buffers are arrays of symbols, arguments/globals hold known symbols, allocations unique poison, casts are *aliases* (their meaning),
copies assign element-wise, every accelerator op logs a digest of the contents of its inputs and overwrites its outputs with a
hash of (op id, execution count, inputs).  Oracle: accelerator-op logs of P and P2 are equal (every consumer read exactly the data
it would have read, no poison), final contents of externally visible buffers are equal, after set-memory-space every accelerator
operand lives in L1 and function boundaries keep their external space, re-laid-out globals decode to the same logical values.
"""
from __future__ import annotations

import random

import numpy as np
from xdsl.dialects.builtin import DenseIntOrFPElementsAttr, MemRefType

from vf import runner as R
from vf.ctx import PassTimeout, make_ctx, parse, run_passes_limited, to_text
from vf.gen.copy_gen import dense_steps, factorize, tsl_text
from vf.interp.buf_m import BufMachine, MRef, canon_contents, digest, make_args
from vf.interp.core import MachineError, StepBudget, Unsupported, UseBeforeDef
from vf.ref.layout import from_memref_type

LEVEL = "translation_validation"
RULE = (
    "G-mem functions: 2-5 buffers from {function arguments (external space), memref.alloc, memref.global with dense initialiser (read only), "
    "static subview of a larger dense global (the global's only user), arith.constant dense<..> of memref type}, "
    "1-5 accelerator ops (linalg.generic with library_call; ins/outs drawn from the buffers in any order: reader-after-writer, "
    "writer-after-reader, same buffer as input of one op and output of another), optional explicit snax.layout_cast to a dense static #tsl "
    "(all step-order permutations) on operands, optional scf.for (trip counts 0..3) around groups of ops, neutral test.op readers. "
    "Non-trivial: >=1 cast realised as alloc+copy whose value has >=2 users or sits in a loop, or a global transformed at compile time; "
    "distinct by (skeleton of ops/operands, cast kinds)."
)
ASSUMPTIONS = [
    "xDSL 0.70 is used through the /verif/vf/compat.py shim instead of the commit the repo pins",
    "logical buffer machine vf/interp/buf_m.py; reader/writer convention as the compiler's own: ins are read, outs are written (not read), "
    "operands of other ops are both read and written",
    "a memory-space / layout cast *means* an alias of its source before realisation",
    "reference layout function vf/ref/layout.py decodes re-laid-out dense globals; exceptions raised by a pass are rejections",
]
TIERS = {
    "quick": {"shards": 16, "cases": 110, "timeout": 600},
    "thorough": {"shards": 16, "cases": 9000, "timeout": 7200},
}
FLOORS = {
    "quick": {"programs": 1200, "accelerator_ops_compared": 6000, "external_buffers_compared": 2500, "distinct_nontrivial": 300, "memory_space_walks": 1200, "globals_decoded": 50, "constants_decoded": 100, "transposed_constants_checked": 100},
    "thorough": {"programs": 35000, "accelerator_ops_compared": 180000, "distinct_nontrivial": 3000},
}


class CastMachine(BufMachine):
    """Buffer machine that decodes dense globals stored in a tiled-strided memory order into logical arrays."""

    def _h_get_global(self, op):
        name = op.name_.root_reference.data
        key = "global:" + name
        if key not in self.roots:
            if name not in self.globals_ops:
                raise Unsupported(f"undeclared global {name}")
            g = self.globals_ops[name]
            t = g.type
            shape = list(t.get_shape())
            init = g.initial_value
            if isinstance(init, DenseIntOrFPElementsAttr):
                flat = np.array([int(v) for v in init.get_values()], dtype=np.int64)
                if flat.size == 1 and int(np.prod(shape)) != 1:
                    flat = np.full(int(np.prod(shape)), flat[0], dtype=np.int64)
                if getattr(t.layout, "name", "") == "tsl.tsl":
                    ref = from_memref_type(t)
                    data = np.zeros(shape, dtype=np.int64)
                    for idx in ref.indices():
                        a = ref.addr(idx)
                        if a >= flat.size:
                            raise MachineError(f"global {name}: layout address {a} outside the {flat.size} stored values")
                        data[idx] = flat[a]
                    self.events.append(("global-decoded", name))
                else:
                    data = flat.reshape(shape)
            else:
                data = self.fresh_poison(shape)
            self.new_root(key.replace("_transformed", ""), data, "global")
            self.roots[key] = self.roots[key.replace("_transformed", "")]
        r = self.roots[key]
        self.env[op.results[0]] = MRef(r, r.data, r.ids)

    def dense_constant(self, op, v):
        """arith.constant dense<..> : memref<.., layout>: stored values are in memory order of the layout (row-major without one)."""
        t = op.results[0].type
        if not isinstance(t, MemRefType):
            raise Unsupported("dense constant of non-memref type")
        shape = list(t.get_shape())
        flat = np.array([int(x) for x in v.get_values()], dtype=np.int64)
        if flat.size == 1 and int(np.prod(shape)) != 1:
            flat = np.full(int(np.prod(shape)), flat[0], dtype=np.int64)
        if getattr(t.layout, "name", "") == "tsl.tsl":
            ref = from_memref_type(t)
            data = np.zeros(shape, dtype=np.int64)
            for idx in ref.indices():
                a = ref.addr(idx)
                if a >= flat.size:
                    raise MachineError(f"constant: layout address {a} outside the {flat.size} stored values")
                data[idx] = flat[a]
            self.events.append(("constant-decoded", len(self.events)))
        else:
            data = flat.reshape(shape)
        self.const_n = getattr(self, "const_n", 0) + 1
        return self.new_root(f"const#{self.const_n}", data, "const")


# -- generator ---------------------------------------------------------------------------------------
def gen_case(rng):
    n = rng.choice([4, 8, 8, 16])
    two_d = rng.random() < 0.4
    shape = [rng.choice([2, 4]), n] if two_d else [n]
    dims = "x".join(map(str, shape))
    T = f"memref<{dims}xi32>"
    nbuf = rng.randint(2, 5)
    bufs = []
    header = []
    args = []
    body = []
    gsubs = []
    gwhole = []
    for i in range(nbuf):
        kind = rng.choice(["arg", "arg", "alloc", "global", "gsub", "const", "asub"])
        if kind == "asub":
            # a writable block of a larger function argument (its own argument: blocks of different buffers never overlap)
            mult = rng.choice([2, 2, 4])
            j = rng.randrange(mult)
            if len(shape) == 1:
                gshape, offs = [shape[0] * mult], [j * shape[0]]
                st_txt = f"strided<[1], offset: {offs[0]}>"
            elif rng.random() < 0.5:
                gshape, offs = [shape[0] * mult, shape[1]], [j * shape[0], 0]
                st_txt = f"strided<[{gshape[1]}, 1], offset: {offs[0] * gshape[1]}>"
            else:
                gshape, offs = [shape[0], shape[1] * mult], [0, j * shape[1]]
                st_txt = f"strided<[{gshape[1]}, 1], offset: {offs[1]}>"
            GT = f"memref<{'x'.join(map(str, gshape))}xi32>"
            ST = f"memref<{dims}xi32, {st_txt}>"
            args.append(f"%big{i}: {GT}")
            body.append(
                f"    %a{i} = memref.subview %big{i}[{', '.join(map(str, offs))}] [{', '.join(map(str, shape))}] [{', '.join(['1'] * len(shape))}] : {GT} to {ST}"
            )
            bufs.append({"name": f"%a{i}", "kind": "asub", "ro": False, "type": ST})
            continue
        if kind == "gsub":
            # a block of a larger read-only global, taken by a static subview; sometimes a second block of the SAME global (then the
            # global has two users and must not be re-laid-out for one of them)
            share = [g_ for g_ in gsubs if len(g_["used"]) < g_["mult"]] if rng.random() < 0.5 else []
            if share:
                g_ = rng.choice(share)
                j = rng.choice([x for x in range(g_["mult"]) if x not in g_["used"]])
                g_["used"].append(j)
                gshape, axis, GT, gname = g_["gshape"], g_["axis"], g_["GT"], g_["gg"]
            else:
                mult = rng.choice([2, 2, 4])
                j = rng.randrange(mult)
                if len(shape) == 1:
                    gshape, axis = [shape[0] * mult], 0
                elif rng.random() < 0.5:
                    gshape, axis = [shape[0] * mult, shape[1]], 0
                else:
                    gshape, axis = [shape[0], shape[1] * mult], 1
                gdims = "x".join(map(str, gshape))
                GT = f"memref<{gdims}xi32>"
                total = 1
                for s_ in gshape:
                    total *= s_
                flat = [1000 * (i + 1) + k for k in range(total)]
                if len(gshape) == 1:
                    vals = "[" + ", ".join(map(str, flat)) + "]"
                else:
                    rows = [flat[r * gshape[1] : (r + 1) * gshape[1]] for r in range(gshape[0])]
                    vals = "[" + ", ".join("[" + ", ".join(map(str, r)) + "]" for r in rows) + "]"
                header.append(f'  "memref.global"() <{{sym_name = "g{i}", type = {GT}, initial_value = dense<{vals}> : tensor<{gdims}xi32>, sym_visibility = "private", constant}}> : () -> ()')
                gname = f"%gg{i}"
                body.append(f"    {gname} = memref.get_global @g{i} : {GT}")
                gsubs.append({"gg": gname, "gshape": gshape, "axis": axis, "GT": GT, "mult": mult, "used": [j]})
                if rng.random() < 0.3:
                    # the whole global is an operand as well (then the global must not be re-laid-out under the subview's feet)
                    gwhole.append((gname, GT, len(gshape), i))
            if len(shape) == 1:
                offs = [j * shape[0]]
                st_txt = f"strided<[1], offset: {offs[0]}>"
            elif axis == 0:
                offs = [j * shape[0], 0]
                st_txt = f"strided<[{gshape[1]}, 1], offset: {offs[0] * gshape[1]}>"
            else:
                offs = [0, j * shape[1]]
                st_txt = f"strided<[{gshape[1]}, 1], offset: {offs[1]}>"
            ST = f"memref<{dims}xi32, {st_txt}>"
            body.append(
                f"    %a{i} = memref.subview {gname}[{', '.join(map(str, offs))}] [{', '.join(map(str, shape))}] [{', '.join(['1'] * len(shape))}] : {GT} to {ST}"
            )
            bufs.append({"name": f"%a{i}", "kind": "gsub", "ro": True, "type": ST})
        elif kind == "const":
            total = 1
            for s_ in shape:
                total *= s_
            flat = [5000 * (i + 1) + k for k in range(total)]
            if len(shape) == 1:
                vals = "[" + ", ".join(map(str, flat)) + "]"
            else:
                rows = [flat[r * shape[1] : (r + 1) * shape[1]] for r in range(shape[0])]
                vals = "[" + ", ".join("[" + ", ".join(map(str, r)) + "]" for r in rows) + "]"
            body.append(f"    %a{i} = arith.constant dense<{vals}> : {T}")
            bufs.append({"name": f"%a{i}", "kind": "const", "ro": True})
        elif kind == "arg":
            args.append(f"%a{i}: {T}")
            bufs.append({"name": f"%a{i}", "kind": "arg", "ro": False})
        elif kind == "alloc":
            body.append(f'    %a{i} = "memref.alloc"() <{{operandSegmentSizes = array<i32: 0, 0>}}> : () -> {T}')
            bufs.append({"name": f"%a{i}", "kind": "alloc", "ro": False})
        else:
            total = 1
            for s in shape:
                total *= s
            flat = [1000 * (i + 1) + k for k in range(total)]
            if len(shape) == 1:
                vals = "[" + ", ".join(map(str, flat)) + "]"
            else:
                rows = [flat[r * shape[1] : (r + 1) * shape[1]] for r in range(shape[0])]
                vals = "[" + ", ".join("[" + ", ".join(map(str, r)) + "]" for r in rows) + "]"
            header.append(f'  "memref.global"() <{{sym_name = "g{i}", type = {T}, initial_value = dense<{vals}> : tensor<{dims}xi32>, sym_visibility = "private", constant}}> : () -> ()')
            body.append(f"    %a{i} = memref.get_global @g{i} : {T}")
            bufs.append({"name": f"%a{i}", "kind": "global", "ro": True})
    writable = [b for b in bufs if not b["ro"]]
    if not writable:
        args.append(f"%aw: {T}")
        bufs.append({"name": "%aw", "kind": "arg", "ro": False})
        writable = [bufs[-1]]
    nops = rng.randint(1, 5)
    skel = []
    vid = 0
    rank = len(shape)
    ident = "affine_map<(" + ", ".join(f"d{k}" for k in range(rank)) + ") -> (" + ", ".join(f"d{k}" for k in range(rank)) + ")>"
    iters = ", ".join("#linalg.iterator_type<parallel>" for _ in range(rank))
    lc_n = 0
    loop_n = 0
    ind = "    "
    open_loop = False

    def layout_cast(name):
        nonlocal lc_n
        lc_n += 1
        tb = [factorize(rng, s, rng.choice([1, 2])) for s in shape]
        steps = dense_steps(rng, tb, pad=0.0)
        TT = f"memref<{dims}xi32, {tsl_text(tb, steps)}>"
        body.append(f'{ind}%lc{lc_n} = "snax.layout_cast"({name}) : ({T}) -> {TT}')
        return f"%lc{lc_n}", TT

    for k in range(nops):
        if not open_loop and rng.random() < 0.25:
            loop_n += 1
            body.append(f"{ind}scf.for %i{loop_n} = %c0 to %n{loop_n} step %c1 {{")
            args.append(f"%n{loop_n}: index")
            ind = "      "
            open_loop = True
            skel.append("F(")
        nin = rng.choice([1, 2, 2])
        ins = [rng.choice(bufs) for _ in range(nin)]
        out = rng.choice(writable)
        vid += 1
        names, types = [], []
        for b in ins + [out]:
            nm, tt = b["name"], b.get("type", T)
            names.append(nm)
            types.append(tt)
        blk = ", ".join(f"%x{vid}_{q}: i32" for q in range(nin + 1))
        maps = ", ".join([ident] * (nin + 1))
        body.append(
            f'{ind}"linalg.generic"({", ".join(names)}) <{{indexing_maps = [{maps}], iterator_types = [{iters}], operandSegmentSizes = array<i32: {nin}, 1>, library_call = "snax_alu"}}> ({{\n'
            f"{ind}^bb0({blk}):\n{ind}  \"linalg.yield\"(%x{vid}_0) : (i32) -> ()\n{ind}}}) {{verif.id = \"acc{vid}\"}} : ({', '.join(types)}) -> ()"
        )
        skel.append("G" + "".join(str(bufs.index(b)) for b in ins) + ">" + str(bufs.index(out)))
        if open_loop and rng.random() < 0.5:
            body.append("      scf.yield\n    }")
            ind = "    "
            open_loop = False
            skel.append(")")
    if open_loop:
        body.append("      scf.yield\n    }")
        skel.append(")")
    for gname, GT, grank, gi in gwhole:
        # an accelerator op on the WHOLE global, beside the ops on its block
        vid += 1
        args.append(f"%ow{gi}: {GT}")
        gid = "affine_map<(" + ", ".join(f"d{k}" for k in range(grank)) + ") -> (" + ", ".join(f"d{k}" for k in range(grank)) + ")>"
        git = ", ".join("#linalg.iterator_type<parallel>" for _ in range(grank))
        body.append(
            f'    "linalg.generic"({gname}, %ow{gi}) <{{indexing_maps = [{gid}, {gid}], iterator_types = [{git}], operandSegmentSizes = array<i32: 1, 1>, library_call = "snax_alu"}}> ({{\n'
            f"    ^bb0(%xw{vid}_0: i32, %xw{vid}_1: i32):\n      \"linalg.yield\"(%xw{vid}_0) : (i32) -> ()\n    }}) {{verif.id = \"acc{vid}\"}} : ({GT}, {GT}) -> ()"
        )
        skel.append("W")
    # neutral readers of the original buffers: only after the last accelerator op (direct accesses to the original between two
    # uses of a cast are outside what a single copy-in / copy-out can serve, see DESIGN.md section 7)
    for b in bufs:
        if rng.random() < 0.3:
            vid += 1
            body.append(f'    "test.op"({b["name"]}) {{verif.id = "t{vid}"}} : ({b.get("type", T)}) -> ()')
            skel.append("t" + str(bufs.index(b)))
    ret = ""
    rett = ""
    plain = [x for x in bufs if "type" not in x]
    if rng.random() < 0.2 and plain:
        b = rng.choice(plain)
        ret, rett = b["name"], T
    text = (
        "builtin.module {\n"
        + "\n".join(header)
        + ("\n" if header else "")
        + f"  func.func public @main({', '.join(args)})"
        + (f" -> {rett}" if ret else "")
        + " {\n    %c0 = arith.constant 0 : index\n    %c1 = arith.constant 1 : index\n"
        + "\n".join(body)
        + f"\n    func.return{(' ' + ret + ' : ' + rett) if ret else ''}\n  }}\n}}\n"
    )
    lseed = rng.randrange(1 << 30)
    return {"text": text, "skel": "".join(skel), "nloops": loop_n, "layout_seed": lseed, "p_layout": rng.choice([0.0, 0.3, 0.6])}


def insert_layout_casts(module, seed, p):
    """After set-memory-space (as set-memory-layout does in the real pipeline): put a snax.layout_cast to a dense static #tsl on random
    accelerator operands.  Uses the repo's op constructor only to build IR."""
    from snaxc.dialects.snax import LayoutCast
    from snaxc.dialects.tsl import TiledStridedLayoutAttr
    from snaxc.ir.tsl import Stride, TiledStride, TiledStridedLayout
    from xdsl.rewriter import InsertPoint, Rewriter

    rng = random.Random(seed)
    n = 0
    rw = Rewriter()
    for op in list(module.walk()):
        if op.name != "linalg.generic" or rng.random() >= p:
            continue
        # like set-memory-layout: every memref operand of the chosen op gets its own layout cast
        for i, o in enumerate(list(op.operands)):
            if not isinstance(o.type, MemRefType):
                continue
            shape = list(o.type.get_shape())
            tb = [factorize(rng, s, rng.choice([1, 2])) for s in shape]
            steps = dense_steps(rng, tb, pad=0.0)
            tsl = TiledStridedLayoutAttr(TiledStridedLayout([TiledStride([Stride(st, b) for b, st in zip(tbd, std)]) for tbd, std in zip(tb, steps)]))
            lc = LayoutCast.from_type_and_target_layout(o, tsl)
            rw.insert_op(lc, InsertPoint.before(op))
            op.operands[i] = lc.dest
            n += 1
    return n


# -- execution ---------------------------------------------------------------------------------------
def execute(module, trips):
    m = CastMachine(module, step_budget=200_000)
    f = m.funcs["main"]
    args = []
    k = 0
    for i, a in enumerate(f.body.blocks[0].args):
        if isinstance(a.type, MemRefType):
            args.append(m.arg_buffer(i, [s for s in a.type.get_shape()]))
        else:
            args.append(trips[k] if k < len(trips) else 1)
            k += 1
    rets = m.run_func("main", args)
    ext = {}
    for name, r in m.roots.items():
        if r.kind in ("arg", "global"):
            ext[name] = canon_contents(r.data)
    xs = [e for e in m.events if e[0] in ("X", "T")]
    retd = [canon_contents(v.data) if isinstance(v, MRef) else v for v in rets]
    return xs, ext, retd, m


def run_case(case, res):
    global _ctx
    out = []
    c = make_ctx()
    res["evaluations"] += 1
    try:
        p0 = parse(c, case["text"])
        p0.verify()
    except Exception as e:
        R.bump(res, "generator_invalid")
        R.reject(res, e)
        return out
    p1 = p0.clone()
    try:
        run_passes_limited(c, p1, "set-memory-space", 10)
        p1.verify()
    except PassTimeout:
        R.reject(res, "PassTimeout")
        return out
    except Exception as e:
        R.reject(res, e)
        return out
    # (3) memory spaces
    R.bump(res, "memory_space_walks")
    for op in p1.walk():
        if op.name in ("linalg.generic", "dart.operation"):
            for o in op.operands:
                if isinstance(o.type, MemRefType):
                    ms = o.type.memory_space
                    if getattr(ms, "data", None) != "L1":
                        out.append({"kind": "accelerator-operand-not-in-local-memory", "detail": f"{op.name} operand of type {o.type}", "case": case})
                        return out
        if op.name == "func.func" and op.body.blocks:
            for t in list(op.function_type.inputs) + list(op.function_type.outputs):
                if isinstance(t, MemRefType) and getattr(t.memory_space, "data", None) != "L3":
                    out.append({"kind": "function-boundary-lost-external-space", "detail": f"{t}", "case": case})
                    return out
    p2 = p1.clone()
    try:
        nlc = insert_layout_casts(p2, case["layout_seed"], case["p_layout"])
        p2.verify()
        standins = several_standins(p2)
        R.bump(res, "layout_casts_inserted", nlc)
        run_passes_limited(c, p2, "realize-memref-casts", 10)
        p2.verify()
    except PassTimeout:
        R.reject(res, "PassTimeout")
        return out
    except Exception as e:
        R.reject(res, e)
        return out
    if any(op.name in ("memref.memory_space_cast", "snax.layout_cast") and op.results[0].uses.get_length() for op in p2.walk()):
        R.bump(res, "casts_left_unrealised")
    res["programs"] += 1
    # a view's type must describe, relative to its first element, the addresses its source's layout assigns to the same block
    # (the base pointer of a view is computed from the source; its declared strides / tiles are what DMA and streamers use)
    for op in p2.walk():
        if op.name != "memref.subview" or op.offsets or op.sizes or op.strides:
            continue
        try:
            offs = [int(x) for x in op.static_offsets.get_values()]
            sizes = [int(x) for x in op.static_sizes.get_values()]
            strs = [int(x) for x in op.static_strides.get_values()]
            if any(x != 1 for x in strs) or len(sizes) != len(op.results[0].type.get_shape()):
                continue
            ref_s = from_memref_type(op.operands[0].type)
            ref_r = from_memref_type(op.results[0].type)
        except Exception:
            continue
        R.bump(res, "views_checked_against_source_layout")
        base_s = ref_s.addr(tuple(offs))
        base_r = ref_r.addr(tuple([0] * len(sizes)))
        bad = None
        for idx in ref_r.indices():
            a_s = ref_s.addr(tuple(o + i for o, i in zip(offs, idx))) - base_s
            a_r = ref_r.addr(idx) - base_r
            if a_s != a_r:
                bad = (idx, a_s, a_r)
                break
        if bad:
            out.append(
                {
                    "kind": "view-type-disagrees-with-source-layout",
                    "detail": f"memref.subview at {offs} of {op.operands[0].type}: element {bad[0]} lies {bad[1]} elements after the block's first element in the source layout, the result type {op.results[0].type} says {bad[2]}",
                    "case": case,
                }
            )
            return out
    realised = sum(1 for op in p2.walk() if op.name == "memref.copy")
    glob_t = any(op.name == "memref.global" and op.sym_name.data.endswith("_transformed") for op in p2.walk())
    for trips in ([2] * case["nloops"], [0] * case["nloops"], [1] * case["nloops"], [3] * case["nloops"]):
        try:
            x0, e0, r0, m0 = execute(p0, trips)
        except (Unsupported, MachineError, StepBudget, UseBeforeDef) as e:
            R.bump(res, "oracle_skipped:" + type(e).__name__)
            break
        try:
            x2, e2, r2, m2 = execute(p2, trips)
        except (MachineError, UseBeforeDef, StepBudget) as e:
            out.append({"kind": "realised-program-fails", "detail": f"{type(e).__name__}: {e}"[:300], "case": case, "info": {"trips": trips}})
            break
        except Unsupported as e:
            R.bump(res, "oracle_skipped:Unsupported")
            break
        res["compared"] += 1
        R.bump(res, "accelerator_ops_compared", len(x0))
        R.bump(res, "external_buffers_compared", len(e0))
        R.bump(res, "globals_decoded", sum(1 for e in m2.events if e[0] == "global-decoded"))
        R.bump(res, "constants_decoded", sum(1 for e in m2.events if e[0] == "constant-decoded"))
        bad = None
        if len(x0) != len(x2):
            bad = f"{len(x0)} accelerator/neutral op executions before, {len(x2)} after"
        else:
            for a, b in zip(x0, x2):
                if a != b:
                    why = "uninitialised (poison) data" if (b[0] == "X" and b[4]) else "different data"
                    bad = f"op {a[1]} execution {a[2] if a[0] == 'X' else ''} read {why} after realisation (digest {a[3] if a[0] == 'X' else a[2]} vs {b[3] if b[0] == 'X' else b[2]})"
                    break
        if not bad:
            for k in e0:
                if k.startswith("global:") and k not in e2:
                    continue  # the (unused) get_global was removed
                if e0[k] != e2.get(k):
                    bad = f"final contents of external buffer {k} differ"
                    break
        if not bad and r0 != r2:
            bad = "returned memref contents differ"
        if bad:
            out.append({"kind": "consumer-observes-different-data", "detail": bad + f" (trips {trips})", "case": case, "info": {"trips": trips, "several_standins": standins}})
            break
        if not case["nloops"]:
            break
    if realised >= 1 or glob_t:
        R.nontrivial(res, case["skel"], realised, glob_t)
    if glob_t:
        R.bump(res, "globals_transformed_at_compile_time")
    return out


def several_standins(module):
    """Predicate: some original buffer has >=2 distinct cast values that are used by non-cast ops, at least one of them written."""
    groups = {}
    for op in module.walk():
        if op.name not in ("memref.memory_space_cast", "snax.layout_cast"):
            continue
        users = [u.operation for u in op.results[0].uses if u.operation.name not in ("memref.memory_space_cast", "snax.layout_cast")]
        if not users:
            continue
        src = op.operands[0]
        while getattr(src.owner, "name", "") in ("memref.memory_space_cast", "snax.layout_cast"):
            src = src.owner.operands[0]
        written = any(u.name != "linalg.generic" or op.results[0] in u.outputs for u in users)
        g = groups.setdefault(src, [0, False])
        g[0] += 1
        g[1] = g[1] or written
    return any(n >= 2 and w for n, w in groups.values())


def attribute(v):
    """Known finding by mechanism: predicate on the program with casts + counterfactual realisation with per-use copies."""
    info = v.get("info") or {}
    case = v.get("case")
    if v["kind"] == "consumer-observes-different-data" and info.get("several_standins") and case:
        from vf.counterfactual.realize_per_use import realize_with_per_use_copies

        with realize_with_per_use_copies():
            again = run_case(case, R.new_result())
        if not again:
            return "several-stand-ins-of-one-buffer-not-kept-coherent"
    return None


_ctx = None


# -- monitor 2: constants transposed at compile time (frontend remove-transpose-constants) --------------------------------------
def gen_transpose_case(rng):
    r, c = rng.choice([1, 2, 3, 4, 5, 8]), rng.choice([1, 2, 3, 4, 5, 8])
    el = rng.choice(["i8", "i32", "i32", "i64"])
    lim = 100 if el == "i8" else 100000
    vals = [[rng.randrange(-lim, lim) for _ in range(c)] for _ in range(r)]
    return {"transpose": True, "r": r, "c": c, "el": el, "vals": vals, "extra_user": rng.random() < 0.2, "computing": rng.random() < 0.25}


def run_transpose_case(case, res):
    """linalg.generic that only transposes an arith.constant tensor -> REAL RemoveTransposeConstants pattern -> the constant left in the
    function must hold in[j][i] at [i][j] (values read back from the dense attribute, independent of how the pass computed them)."""
    global _ctx
    if _ctx is None:
        _ctx = make_ctx()
    c = _ctx
    out = []
    r, cc, el, vals = case["r"], case["c"], case["el"], case["vals"]
    dense = "[" + ", ".join("[" + ", ".join(map(str, row)) + "]" for row in vals) + "]"
    extra = f'    "test.op"(%w) {{verif.id = "other"}} : (tensor<{r}x{cc}x{el}>) -> ()\n' if case.get("extra_user") else ""
    # a transposing generic whose body also computes (here 2 * x) is not a plain transpose: it may only be folded to the computed values
    computing = bool(case.get("computing"))
    body_ops = f"      %dbl = arith.addi %x, %x : {el}\n" if computing else ""
    yv = "%dbl" if computing else "%x"
    text = f"""builtin.module {{
  func.func public @main() -> tensor<{cc}x{r}x{el}> {{
    %w = arith.constant dense<{dense}> : tensor<{r}x{cc}x{el}>
    %e = tensor.empty() : tensor<{cc}x{r}x{el}>
{extra}    %t = linalg.generic {{indexing_maps = [affine_map<(d0, d1) -> (d1, d0)>, affine_map<(d0, d1) -> (d0, d1)>], iterator_types = ["parallel", "parallel"]}} ins(%w : tensor<{r}x{cc}x{el}>) outs(%e : tensor<{cc}x{r}x{el}>) {{
    ^bb0(%x: {el}, %y: {el}):
{body_ops}      linalg.yield {yv} : {el}
    }} -> tensor<{cc}x{r}x{el}>
    func.return %t : tensor<{cc}x{r}x{el}>
  }}
}}
"""
    res["evaluations"] += 1
    try:
        m = parse(c, text)
        m.verify()
    except Exception as e:
        R.bump(res, "generator_invalid")
        R.reject(res, e)
        return out
    try:
        # the pattern is applied exactly as PreprocessPass does after its mlir-opt steps (mlir-opt is absent here)
        from xdsl.pattern_rewriter import PatternRewriteWalker

        from snaxc.transforms.frontend.remove_transpose_constants import RemoveTransposeConstants
        from vf.ctx import time_limit

        with time_limit(5):
            PatternRewriteWalker(RemoveTransposeConstants(), apply_recursively=False).rewrite_module(m)
        m.verify()
    except PassTimeout:
        R.reject(res, "PassTimeout")
        return out
    except Exception as e:
        R.reject(res, e)
        return out
    ret = [op for op in m.walk() if op.name == "func.return"][0]
    src = ret.operands[0].owner
    if getattr(src, "name", "") != "arith.constant":
        R.bump(res, "transpose_not_folded")
        return out
    res["programs"] += 1
    res["compared"] += 1
    R.bump(res, "transposed_constants_checked")
    got = [int(x) for x in src.value.get_values()]
    shape = list(src.results[0].type.get_shape())
    bad = None
    if shape != [cc, r] or len(got) != r * cc:
        bad = f"folded constant has shape {shape} / {len(got)} values, the transpose of {r}x{cc} is {cc}x{r}"
    else:
        for i in range(cc):
            for j in range(r):
                want_v = vals[j][i]
                if computing:
                    bits = int(el[1:])
                    want_v = ((2 * want_v + (1 << (bits - 1))) % (1 << bits)) - (1 << (bits - 1))
                if got[i * r + j] != want_v:
                    bad = f"element [{i}][{j}] of the folded constant is {got[i * r + j]}, the generic computes {want_v} there (source holds {vals[j][i]} at [{j}][{i}]{', body doubles it' if computing else ''})"
                    break
            if bad:
                break
    if bad:
        out.append({"kind": "constant-relaid-out-with-different-values", "detail": "[remove-transpose-constants] " + bad, "case": case, "info": {}})
    else:
        R.nontrivial(res, "transpose", r, cc, el)
    return out


def run_shard(seed, shard, n_cases, tier):
    res = R.new_result()
    rng = random.Random(seed)
    for i in range(n_cases):
        case = gen_case(rng)
        for v in run_case(case, res):
            R.violation(res, v["kind"], v["detail"], v["case"], attribute(v), info=v.get("info"))
        if i < 2 and shard == 0:
            R.sample(res, {"module": case["text"][:3000]})
    rng_t = random.Random(seed ^ 0x7A11)
    for i in range(max(4, n_cases // 4)):
        case = gen_transpose_case(rng_t)
        for v in run_transpose_case(case, res):
            R.violation(res, v["kind"], v["detail"], v["case"], attribute(v), info=v.get("info"))
    return res


def replay(case):
    if case.get("transpose"):
        return run_transpose_case(case, R.new_result())
    return run_case(case, R.new_result())
