"""C09 - Chosen memory layouts are one-to-one on the operand (exploration, result certification).

Every snax.layout_cast result type produced by the REAL set-memory-layout (tiled=true/false) on dart.schedule ops - from the real
scheduler on G-stream operations and from synthetic schedules - is certified with the independent reference layout function:
all logical indices map to distinct addresses and the tile bounds cover exactly the operand's shape.  Operands that already carry
a tiled-strided layout must be left untouched.
"""
from __future__ import annotations

import random
from math import prod

from vf import runner as R
from vf.ctx import PassTimeout, make_ctx, parse, run_passes_limited, to_text
from vf.gen.stream_gen import MAC, amap, gen_op
from vf.ref.layout import from_memref_type

LEVEL = "exploration"
RULE = (
    "(a) G-stream dart.operation ops (gemmx matmul/gemm/rescale/conv-like, alu 1-D/2-D, xdma add; shapes incl. non-multiples of the template) "
    "scheduled by the real dart-scheduler; (b) synthetic dart.schedule ops: matmul-like access with 1-2 levels of outer tiling, any order of "
    "the outer schedule dimensions, element widths 8/16/32/64; each run through the real "
    "set-memory-layout with tiled=true and tiled=false. One evaluation = one layout_cast result certified. Non-trivial: >=2 dims or a tiled "
    "result or a stride that is not the contiguous one (padding); distinct by (shape, element width, resulting layout)."
)
ASSUMPTIONS = [
    "xDSL 0.70 is used through the /verif/vf/compat.py shim instead of the commit the repo pins",
    "reference layout function vf/ref/layout.py",
    "exceptions raised by the scheduler / the pass are rejections",
]
TIERS = {
    "quick": {"shards": 16, "cases": 60, "timeout": 600},
    "thorough": {"shards": 16, "cases": 10000, "timeout": 7200},
}
FLOORS = {
    "quick": {"programs": 700, "layouts_certified": 3000, "distinct_nontrivial": 150, "layouts_tiled": 500, "layouts_padded": 30, "existing_tsl_checked": 50},
    "thorough": {"programs": 20000, "layouts_certified": 90000, "distinct_nontrivial": 600},
}

_ctx = None


def ctx():
    global _ctx
    if _ctx is None:
        from snaxc.accelerators.snax_xdma import SNAXXDMAAccelerator

        _ctx = make_ctx(extra_accelerators={"snax_xdma": lambda: SNAXXDMAAccelerator()})
    return _ctx


def synthetic_schedule(rng):
    """matmul-like dart.schedule for snax_gemmx with random outer order / tiling levels / widths / oversize shapes."""
    levels = {d: rng.choice([1, 1, 2]) for d in "mnk"}
    outer = []  # (name, dim, factor)
    sizes = {}
    coeff = {}
    # innermost (spatial) extents: the gemmx 8x8x8 mostly; other extents make the running stride leave the access granularity early,
    # so that padded strides are followed by further tile levels and dimensions
    odd = rng.random() < 0.35
    inner_b = {d: (rng.choice([8, 1, 1, 2, 3, 4, 5, 6]) if odd else 8) for d in "mnk"}
    for d in "mnk":
        bs = [rng.choice([1, 2, 3, 4]) for _ in range(levels[d])]
        mult = inner_b[d]
        facs = []
        for b in reversed(bs):
            facs.insert(0, (b, mult))
            mult *= b
        sizes[d] = mult
        for i, (b, mu) in enumerate(facs):
            outer.append((f"{d}{i}", d, b, mu))
    rng.shuffle(outer)
    nd = len(outer) + 3
    pos = {name: i for i, (name, *_r) in enumerate(outer)}
    inner = {"m": nd - 3, "n": nd - 2, "k": nd - 1}

    def expr(d):
        terms = [f"d{pos[name]} * {mu}" for name, dd, b, mu in outer if dd == d]
        terms.append(f"d{inner[d]}")
        return " + ".join(terms)

    bounds = [b for _, _, b, _ in outer] + [inner_b["m"], inner_b["n"], inner_b["k"]]
    # the schedule always covers the whole operand (what every dart.operation -> dart.schedule gives); operands larger than the
    # accessed range were tried first and are out of domain (see DESIGN.md section 7)
    over = {d: 0 for d in "mnk"}
    partial = rng.random() < 0.15
    if partial:
        # an operand dimension that is not a multiple of the tile: the schedule covers the full tiles, a partial last tile remains
        # (e.g. 20 rows on an 8-row array); the layout must still be one-to-one on the WHOLE operand
        d_ = rng.choice("mnk")
        if inner_b[d_] > 1:
            over[d_] = rng.randrange(1, inner_b[d_])
        else:
            partial = False
    S = {d: sizes[d] + over[d] for d in "mnk"}
    el_in = rng.choice(["i8", "i8", "i16", "i32", "i64"])
    el_out = rng.choice(["i32", "i32", "i8", "i16", "i64"])
    shapes = [[S["m"], S["k"]], [S["k"], S["n"]], [S["m"], S["n"]]]
    els = [el_in, el_in, el_out]
    exprs = [[expr("m"), expr("k")], [expr("k"), expr("n")], [expr("m"), expr("n")]]
    unit = rng.random() < 0.25
    if unit:
        # operand dimensions the schedule never moves along (batch = 1 and the like): a unit dimension at a random position
        for o in range(3):
            if rng.random() < 0.6:
                pos_u = rng.randrange(len(shapes[o]) + 1)
                shapes[o].insert(pos_u, 1)
                exprs[o].insert(pos_u, "0")
    maps = [amap(nd, e) for e in exprs]
    types = ["memref<" + "x".join(map(str, s)) + f"x{e}>" for s, e in zip(shapes, els)]
    body = MAC.replace("i8", "IN").replace("i32", "OUT").replace("IN", el_in).replace("OUT", el_out)
    text = f"""builtin.module {{
  func.func @main(%a0: {types[0]}, %a1: {types[1]}, %a2: {types[2]}) {{
    "dart.schedule"(%a0, %a1, %a2) <{{patterns = [{", ".join(maps)}], accelerator = "snax_gemmx", tiles = [[]], bounds = [{", ".join(f"{b} : index" for b in bounds)}], operandSegmentSizes = array<i32: 2, 1>}}> ({{
    ^bb0(%s0: !dart.stream<{el_in}>, %s1: !dart.stream<{el_in}>, %s2: !dart.stream<{el_out}>):
{body}
      dart.yield %g : !dart.stream<{el_out}>
    }}) : ({", ".join(types)}) -> ()
    func.return
  }}
}}
"""
    return {"text": text, "kind": "synthetic_matmul" + ("+odd-inner" if odd else "") + ("+unit-dims" if unit else "") + ("+partial-last-tile" if partial else ""), "acc": "snax_gemmx", "pre": "insert-accfg-op{accelerator=snax_gemmx}"}


def merge_two(t1, t2):
    """Two single-function modules -> one module with @main and @main2 (whatever the pass remembers from the first operation must
    not leak into the second)."""
    b1 = t1.strip().split("\n")
    b2 = t2.strip().split("\n")
    assert b1[0].startswith("builtin.module") and b2[0].startswith("builtin.module")
    inner2 = "\n".join(b2[1:-1]).replace("@main(", "@main2(")
    return "\n".join(b1[:-1]) + "\n" + inner2 + "\n}\n"


def certify(module, case, tiled, res):
    out = []
    for op in module.walk():
        if op.name != "snax.layout_cast":
            continue
        t = op.results[0].type
        src_t = op.operands[0].type
        shape = list(t.get_shape())
        R.bump(res, "layouts_certified")
        res["compared"] += 1
        c = {**case, "tiled": tiled}
        try:
            ref = from_memref_type(t)
        except Exception as e:
            out.append({"kind": "layout-not-interpretable", "detail": f"{t}: {e}"[:300], "case": c})
            continue
        if ref.shape() != shape:
            out.append({"kind": "layout-does-not-cover-shape", "detail": f"tile bounds give {ref.shape()} for operand of shape {shape}: {t}", "case": c})
            continue
        if prod(shape) > 200_000:
            R.bump(res, "too_large_skipped")
            continue
        addrs = ref.all_addrs()
        if len(set(addrs)) != len(addrs):
            seen = {}
            w = None
            for idx, a in zip(ref.indices(), addrs):
                if a in seen:
                    w = (seen[a], idx, a)
                    break
                seen[a] = idx
            out.append({"kind": "layout-aliases-elements", "detail": f"{t}: elements {w[0]} and {w[1]} share address {w[2]}", "case": c})
            continue
        depth2 = any(len(d) > 1 for d in ref.dims)
        dense = max(addrs) == len(addrs) - 1
        if depth2:
            R.bump(res, "layouts_tiled")
        if not dense:
            R.bump(res, "layouts_padded")
        if len(shape) >= 2 or depth2 or not dense:
            R.nontrivial(res, tuple(shape), str(t.element_type), str(t.layout))
    return out


def run_case(case, res):
    c = ctx()
    out = []
    res["evaluations"] += 1
    for tiled in ("true", "false"):
        try:
            m = parse(c, case["text"])
            m.verify()
        except Exception as e:
            R.bump(res, "generator_invalid")
            R.reject(res, e)
            return out
        pre = case.get("pre") or f"insert-accfg-op{{accelerator={case['acc']}}},dart-scheduler"
        try:
            run_passes_limited(c, m, pre, 10)
            before_ops = [[o for o in op.operands] for op in m.walk() if op.name == "dart.schedule"]
            has_tsl = any(getattr(getattr(o.type, "layout", None), "name", "") == "tsl.tsl" for ops in before_ops for o in ops)
            run_passes_limited(c, m, f"set-memory-layout{{tiled={tiled}}}", 10)
            m.verify()
        except PassTimeout:
            R.reject(res, "PassTimeout")
            continue
        except StopIteration:
            R.reject(res, "StopIteration@scheduler(no schedule)")
            continue
        except Exception as e:
            R.reject(res, e)
            continue
        res["programs"] += 1
        if has_tsl:
            # operands that already carry an explicit layout are left untouched
            R.bump(res, "existing_tsl_checked")
            after_ops = [[o for o in op.operands] for op in m.walk() if op.name == "dart.schedule"]
            if any(a is not b for x, y in zip(before_ops, after_ops) for a, b in zip(x, y)) or any(op.name == "snax.layout_cast" for op in m.walk()):
                out.append({"kind": "explicit-layout-not-left-untouched", "detail": "schedule op with a #tsl operand was modified", "case": {**case, "tiled": tiled}})
            continue
        out.extend(certify(m, case, tiled, res))
    return out


def attribute(v):
    return None


def run_shard(seed, shard, n_cases, tier):
    res = R.new_result()
    rng = random.Random(seed)
    for i in range(n_cases):
        r = rng.random()
        if r < 0.45:
            case = synthetic_schedule(rng)
            if rng.random() < 0.15:
                other = synthetic_schedule(rng)
                case = {**case, "text": merge_two(case["text"], other["text"]), "kind": case["kind"] + "+second-operation-in-module"}
        elif r < 0.9:
            g = gen_op(rng, layouts=("none", "none", "strided"))
            case = {"text": g["text"], "kind": g["kind"], "acc": g["acc"]}
        else:
            g = gen_op(rng, layouts=("tsl", "none"), kinds=["gemmx_matmul", "alu"])
            case = {"text": g["text"], "kind": g["kind"] + "+given-tsl", "acc": g["acc"]}
        for v in run_case(case, res):
            R.violation(res, v["kind"], v["detail"], v["case"], attribute(v), info=v.get("info"))
        R.seen(res, "kinds", case["kind"])
        if i < 2 and shard == 0:
            R.sample(res, {"module": case["text"]})
    return res


def replay(case):
    return run_case(case, R.new_result())
