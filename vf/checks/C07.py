"""C07 - Assumed accelerator state is always a subset of the real state (exploration, hooked invariants).

After the real accfg-trace-states, the program is executed on the accfg machine with two hooks:
 claim hook     : whenever execution defines an !accfg.state value (setup result, scf.if / scf.for result,
                  loop block argument at *every* iteration entry) the real infer_state_of(value) is called and
                  every in-scope claimed (field -> SSA value) is compared with the concrete register file;
 linearity hook : a setup's in_state / a launch's state must be the token of the setup that really executed
                  last on that accelerator on this path (clobbers poison the token).
"""
from __future__ import annotations

import random

from vf import runner as R
from vf.checks._accfg_common import (
    ASSUME_COMMON,
    AccfgMachine,
    MachineError,
    Poison,
    StepBudget,
    Unsupported,
    UseBeforeDef,
    gen_program,
    input_vectors,
    make_ctx,
    parse,
    stage,
)
from vf.corpus import accfg_corpus, assign_ids

LEVEL = "exploration"
RULE = (
    "G-accfg programs (incl. calls with/without #accfg.effects<none> at any depth, partially pre-threaded states) and the accfg "
    "filecheck corpus, traced by the real accfg-trace-states and executed for up to 8 runtime vectors (trip counts {0,1,2,3,5}, "
    "second iteration and zero-trip exit always included). A claim check is non-trivial when infer_state_of returns a non-empty "
    "dictionary with >=1 in-scope entry; distinct by (control-flow skeleton, kind of state value, trip vector)."
)
ASSUMPTIONS = ASSUME_COMMON + [
    "a claim about an SSA value that does not dominate the state value is vacuous (no consumer can name it) and is only counted",
]
TIERS = {
    "quick": {"shards": 16, "cases": 110, "timeout": 600},
    "thorough": {"shards": 16, "cases": 7000, "timeout": 7200},
}
FLOORS = {
    "quick": {
        "programs": 600,
        "claims_checked": 50000,
        "claims_at_loop_head_iter2plus": 2000,
        "claims_at_for_result_zero_trip": 100,
        "claims_at_if_result": 500,
        "clobbers_executed": 1000,
        "linearity_checks": 20000,
        "distinct_nontrivial": 300,
    },
    "thorough": {"programs": 20000, "claims_checked": 1500000, "claims_at_loop_head_iter2plus": 60000, "distinct_nontrivial": 5000},
}

_ctx = None


def ctx():
    global _ctx
    if _ctx is None:
        _ctx = make_ctx()
    return _ctx


class Violation(Exception):
    pass


def block_is_ancestor_or_same(anc, blk):
    while blk is not None:
        if blk is anc:
            return True
        blk = blk.parent_block()
    return False


def in_scope(ssa, state_val):
    """Does `ssa` dominate the program point right after the definition of `state_val`?"""
    from xdsl.ir import Block

    if isinstance(state_val.owner, Block):
        blk, at = state_val.owner, None  # start of that block
    else:
        blk, at = state_val.owner.parent_block(), state_val.owner
    if isinstance(ssa.owner, Block):
        return block_is_ancestor_or_same(ssa.owner, blk)
    def_block = ssa.owner.parent_block()
    while blk is not def_block:
        at = blk.parent_op()
        if at is None:
            return False
        blk = at.parent_block()
        if blk is None:
            return False
    if at is None:
        return False
    if ssa.owner is at:
        return at is state_val.owner  # another result of the very op that defines the state value
    return def_block.get_operation_index(ssa.owner) < def_block.get_operation_index(at)


class ClaimHook:
    def __init__(self, res, infer):
        self.res = res
        self.infer = infer
        self.loop_iter = {}
        self.found = None
        self.after_clobber = False
        self.kinds = set()

    def on_state_defined(self, m, val):
        from xdsl.ir import Block

        if self.found:
            return
        res = self.res
        try:
            claim = self.infer(val)
        except RecursionError:
            raise
        except Exception as e:
            R.bump(res, "infer_raised:" + type(e).__name__)
            return
        owner = val.owner
        if isinstance(owner, Block):
            kind = "loop_head"
        else:
            kind = owner.name
        acc = val.type.accelerator.data
        regs = m.regs.setdefault(acc, {})
        R.bump(res, "state_values_defined")
        checked = 0
        for field, ssa in claim.items():
            if not in_scope(ssa, val) or ssa not in m.env:
                R.bump(res, "claims_vacuous_out_of_scope")
                continue
            actual = regs.get(field, "<never-written>")
            expected = m.env[ssa]
            checked += 1
            if actual != expected:
                self.found = (
                    f"state value defined by {kind} claims {acc}.{field} == {ssa.name_hint or ssa} (= {expected}) "
                    f"but the register holds {actual}"
                )
                return
        if checked:
            R.bump(res, "claims_checked", checked)
            self.kinds.add(kind)
            if kind == "loop_head":
                it = m.loop_iters.get(id(owner), 0)
                if it >= 1:
                    R.bump(res, "claims_at_loop_head_iter2plus", checked)
            elif kind == "scf.for":
                if m.last_trip_count.get(id(owner)) == 0:
                    R.bump(res, "claims_at_for_result_zero_trip", checked)
                else:
                    R.bump(res, "claims_at_for_result_nonzero", checked)
            elif kind == "scf.if":
                R.bump(res, "claims_at_if_result", checked)
        if m.clobbered_since_setup.get(acc):
            R.bump(res, "claims_after_clobber")  # evaluated (and required to be empty/true) after a clobber

    def on_setup(self, m, op, acc, in_tok):
        res = self.res
        if in_tok is not None:
            R.bump(res, "linearity_checks")
            if in_tok != m.last_token.get(acc) and not self.found:
                self.found = (
                    f"setup of {acc} consumes state {in_tok} but the setup/clobber that really precedes it on this path "
                    f"produced {m.last_token.get(acc)}"
                )
        m.clobbered_since_setup[acc] = False

    def on_launch(self, m, op, acc, tok):
        R.bump(self.res, "linearity_checks")
        if tok != m.last_token.get(acc) and not self.found:
            self.found = f"launch of {acc} uses state {tok} but the last setup/clobber produced {m.last_token.get(acc)}"


class C07Machine(AccfgMachine):
    def __init__(self, module, **kw):
        super().__init__(module, **kw)
        self.loop_iters = {}
        self.last_trip_count = {}
        self.clobbered_since_setup = {}
        self._cur = []

    def on_iteration(self, op, block, n):
        self.loop_iters[id(block)] = n

    def on_loop_exit(self, op, trips=None):
        super().on_loop_exit(op, trips)
        self.last_trip_count[id(op)] = trips

    def clobber(self, why="call"):
        super().clobber(why)
        self.n_clobbers = getattr(self, "n_clobbers", 0) + 1
        for acc in self.known_accs:
            self.clobbered_since_setup[acc] = True


def run_one(text, argnames, vecs, res, skeleton="", fname="main", pretraced=False):
    from snaxc.inference.trace_acc_state import infer_state_of

    c = ctx()
    out = []
    try:
        p0 = parse(c, text)
        p0.verify()
        assign_ids(p0)
    except Exception:
        R.bump(res, "generator_invalid")
        return out
    res["evaluations"] += 1
    p1 = stage(c, p0, "accfg-trace-states", res)
    if p1 is None:
        return out
    try:
        p1.verify()
    except Exception as e:
        out.append({"kind": "verify-failed-after-trace-states", "detail": str(e)[:300], "case": {"text": text, "fname": fname, "args": argnames, "vec": None}})
        return out
    res["programs"] += 1
    for trips, vec in vecs:
        args = [vec[a] for a in argnames]
        m = C07Machine(p1, step_budget=400_000)
        hook = ClaimHook(res, infer_state_of)
        m.hooks = [hook]
        try:
            m.run_func(fname, args)
        except UseBeforeDef as e:
            out.append({"kind": "use-before-def-after-trace-states", "detail": str(e)[:300], "case": {"text": text, "fname": fname, "args": argnames, "vec": vec}})
            break
        except (StepBudget, Unsupported, MachineError) as e:
            R.bump(res, "oracle_skipped:" + type(e).__name__)
            continue
        res["compared"] += 1
        R.bump(res, "vectors_executed")
        R.bump(res, "clobbers_executed", getattr(m, "n_clobbers", 0))
        if hook.found:
            kind = "false-state-claim" if "claims" in hook.found else "state-threading-not-linear"
            out.append({"kind": kind, "detail": hook.found, "case": {"text": text, "fname": fname, "args": argnames, "vec": vec}})
            break
        for k in hook.kinds:
            R.nontrivial(res, skeleton or text, k, tuple(trips))
    return out


def attribute(v):
    return None


def run_shard(seed, shard, n_cases, tier):
    res = R.new_result()
    rng = random.Random(seed)
    c = ctx()
    if shard == 0:
        for text, fname, argn, vecs, name in accfg_corpus(rng, c):
            for v in run_one(text, argn, vecs, res, skeleton="corpus:" + name, fname=fname):
                R.violation(res, v["kind"], v["detail"], v["case"], attribute(v))
            R.bump(res, "corpus_cases")
    for i in range(n_cases):
        prog = gen_program(rng, profile="trace")
        vecs = input_vectors(prog, rng, 8)
        argn = [a.name for a in prog.args]
        for v in run_one(prog.text, argn, vecs, res, skeleton=prog.skeleton):
            R.violation(res, v["kind"], v["detail"], v["case"], attribute(v))
        for f in prog.features:
            R.bump(res, "feature:" + f)
        R.seen(res, "skeletons", prog.skeleton, cap=300)
        if i < 2 and shard == 0:
            R.sample(res, {"program": prog.text, "vectors": [vec for _, vec in vecs[:2]]})
    return res


def replay(case):
    res = R.new_result()
    vec = case.get("vec")
    vecs = [((), vec)] if vec else []
    return run_one(case["text"], case["args"], vecs, res, fname=case.get("fname", "main"))
