"""C10 - A tiled-strided layout means the same thing everywhere (exploration, differential views).

For every generated layout L (vf/gen/tsl_gen.py) the reference function f_L of vf/ref/layout.py (written without
snaxc.ir.tsl) is compared with every view the real code offers:

 affine_map   TiledStridedLayoutAttr.get_affine_map()          evaluated at every logical index         == f_L(idx)
 bound_ops    get_bound_ops (shape-op list and memref modes)   emitted ops interpreted at runtime shape == bounds of L
 step_ops     get_step_ops (no memref / memref, elements/bytes) emitted ops interpreted                  == steps of L (x elsize)
 all_values   all_values() / self_overlaps() / is_dense()      multiset == {f_L(idx) - offset}; <=> duplicates; <=> {0..n-1}
 text         str(attr) -> Parser(ctx).parse_attribute()       field-wise equal (bounds, steps, '?', offset)
 canonicalize canonicalize()                                   f preserved at every index, shape preserved, idempotent
 from_strides TiledStridedLayout.from_strides                  == offset + sum stride_d * idx_d ; get_step_ops on a strided memref
 lccb         largest_common_contiguous_block(A, B, s0)        contiguous chain from s0, each stride at a common (dim, depth)
 subview      convert-memref-to-arith (real pass)              pointer(subview) - pointer(source) == (f_L(offsets) - f_L(0)) * elsize
"""
from __future__ import annotations

import itertools
import random
from math import prod

from vf import runner as R
from vf.gen import affine_gen as AG
from vf.gen import tsl_gen as G

LEVEL = "exploration"
RULE = (
    "G-tsl (vf/gen/tsl_gen.py): layouts sampled from the exhaustive small box (rank<=2 x depth<=2, bounds {1,2,3}, steps "
    "{1,2,3,4}, offset {0,5}: 48 984 layouts; quick samples it, thorough enumerates it completely) and random layouts up to "
    "rank 4 x depth 3 (dense tile permutations, padded, random/overlapping, repeated steps, row-major; unit bounds; offsets 0, "
    "positive, negative, dynamic; dynamic outermost bounds/steps; <=4096 logical indices, every index evaluated). Derived cases: "
    "from_strides inputs (static/dynamic strides, multi-depth tile bounds, dynamic outermost bound, strided memref at runtime), "
    "layout pairs with equal tile bounds for the common contiguous block (element and byte units), subviews (static/dynamic, "
    "tile-aligned/unaligned offsets, 4 runtime vectors, i8..i64) pushed through the real convert-memref-to-arith. Non-trivial: "
    "depth>=2 in some dim or an offset or a dynamic entry; distinct by structural skeleton (depths, unit bounds, dynamic "
    "entries, offset class, step mode)."
)
ASSUMPTIONS = [
    "reference layout function vf/ref/layout.py (mixed-radix digits by tile bounds, outermost digit unreduced; dynamic steps follow "
    "the contiguity convention stated in get_step_ops: largest static step * its bound, then right-to-left / inner-to-outer)",
    "xDSL 0.70 through the /verif/vf/compat.py shim; AffineMap evaluation by the oracle's own evaluator (vf/gen/affine_gen.py)",
    "arith / memref.dim / memref.extract_strided_metadata semantics of vf/interp/core.py plus the handlers in this file",
    "extract_aligned_pointer_as_index excludes the layout's constant offset (snax_copy_to_dma adds it separately); only pointer "
    "differences between a subview and its source are judged",
    "steps of 0, bounds of 0, negative steps and dynamic entries below the outermost tile of a TSL are out of domain (counted, "
    "not judged); exceptions raised by the code under test are rejections",
]
TIERS = {
    "quick": {"shards": 16, "cases": 900, "timeout": 600},
    "thorough": {"shards": 16, "cases": 81000, "timeout": 7200},
}
FLOORS = {
    "quick": {
        "programs": 35000,
        "distinct_nontrivial": 1500,
        "layouts_box": 1700,
        "layouts_random": 1700,
        "calls:get_affine_map": 3300,
        "evals:get_affine_map": 700000,
        "calls:get_bound_ops": 11000,
        "calls:get_step_ops": 11000,
        "evals:bound_step_values": 90000,
        "calls:all_values": 2900,
        "calls:text_roundtrip": 3400,
        "calls:canonicalize": 3400,
        "evals:canonicalize": 1000000,
        "calls:from_strides": 430,
        "calls:largest_common_contiguous_block": 430,
        "subview_pointers_compared": 1000,
    },
    "thorough": {
        "programs": 1050000,
        "distinct_nontrivial": 4000,
        "layouts_box": 51000,
        "layouts_random": 51000,
        "calls:get_affine_map": 99000,
        "evals:get_affine_map": 21000000,
        "calls:get_bound_ops": 330000,
        "calls:get_step_ops": 330000,
        "evals:bound_step_values": 2700000,
        "calls:all_values": 87000,
        "calls:text_roundtrip": 102000,
        "calls:canonicalize": 102000,
        "evals:canonicalize": 30000000,
        "calls:from_strides": 12900,
        "calls:largest_common_contiguous_block": 12900,
        "subview_pointers_compared": 30000,
        "box_layouts_enumerated": 48984,
    },
}

# case schedule (weights)
KINDS = (("box", 4), ("random", 4), ("from_strides", 1), ("lccb", 1), ("subview", 1))

_ctx = None


def ctx():
    global _ctx
    if _ctx is None:
        from vf.ctx import make_ctx

        _ctx = make_ctx()
    return _ctx


def V(kind, detail, case, **info):
    return {"kind": kind, "detail": detail, "case": case, "info": info}


# ----------------------------------------------------------------------------------------------------------------
# tiny op-list / module interpreter with memref descriptors
# ----------------------------------------------------------------------------------------------------------------
class RtMemref:
    def __init__(self, base, shape, strides=None, offset=0, derived=False):
        self.base, self.shape, self.strides, self.offset, self.derived = base, shape, strides, offset, derived


def make_interp(module=None):
    from xdsl.dialects.builtin import ModuleOp

    from vf.interp.core import Interp, Unsupported

    class TslInterp(Interp):
        def __init__(self, module):
            super().__init__(module)
            h = self.handlers
            h["memref.dim"] = self._dim
            h["memref.extract_strided_metadata"] = self._meta
            h["memref.extract_aligned_pointer_as_index"] = self._ptr
            h["memref.subview"] = self._subview

        def _dim(self, op):
            m = self.get(op.operands[0])
            self.env[op.results[0]] = m.shape[self.get(op.operands[1])]

        def _meta(self, op):
            m = self.get(op.operands[0])
            if m.strides is None:
                raise Unsupported("strided metadata of a memref without runtime strides")
            rank = len(m.shape)
            vals = [m, m.offset, *m.shape, *m.strides]
            if len(vals) != len(op.results) or len(m.strides) != rank:
                raise Unsupported("metadata arity")
            self.set_results(op, vals)

        def _ptr(self, op):
            m = self.get(op.operands[0])
            if m.derived:
                raise Unsupported("aligned pointer of a view (not lowered by the pass)")
            self.env[op.results[0]] = m.base

        def _subview(self, op):
            for o in op.operands:
                self.get(o)  # dynamic dominance
            self.env[op.results[0]] = RtMemref(None, None, derived=True)

        def run_ops(self, ops):
            for op in ops:
                fn = self.handlers.get(op.name)
                if fn is None:
                    raise Unsupported(op.name)
                fn(op)

    return TslInterp(module if module is not None else ModuleOp([]))


# ----------------------------------------------------------------------------------------------------------------
# views of one layout
# ----------------------------------------------------------------------------------------------------------------
def _attr(lay):
    from snaxc.dialects.tsl import TiledStridedLayoutAttr

    return TiledStridedLayoutAttr(G.build_tsl(lay))


def view_affine_map(lay, ref, idxs, want, res, case):
    """static layouts only (the dynamic case announces NotImplementedError)."""
    out = []
    attr = _attr(lay)
    R.bump(res, "calls:get_affine_map")
    try:
        m = attr.get_affine_map()
    except Exception as x:
        R.reject(res, x)
        return out
    res["programs"] += 1
    if m.num_dims != len(lay["dims"]) or len(m.results) != 1:
        return [V("affine-map-differs-from-layout", f"{attr}: map {m} has the wrong signature", case, view="affine_map")]
    f = AG.compile_json(AG.expr_to_json(m.results[0]))
    got = [f(i) for i in idxs]
    R.bump(res, "evals:get_affine_map", len(idxs))
    res["compared"] += len(idxs)
    # the real AffineMap.eval on a few points (the form consumers call)
    for i in idxs[:: max(1, len(idxs) // 3)][:3]:
        if m.eval(list(i), [])[0] != f(i):
            R.bump(res, "oracle_evaluator_disagrees_with_xdsl_eval")
    if got != want:
        k = next(k for k in range(len(idxs)) if got[k] != want[k])
        deltas = {w - g for w, g in zip(want, got)}
        out.append(
            V(
                "affine-map-differs-from-layout",
                f"{attr}: get_affine_map() = {m}; at index {idxs[k]} map = {got[k]}, layout function = {want[k]}"
                + (f" (difference is {next(iter(deltas))} at all {len(idxs)} indices)" if len(deltas) == 1 else ""),
                case,
                view="affine_map",
                deltas=sorted(deltas)[:4],
                n_deltas=len(deltas),
            )
        )
    return out


def view_all_values(lay, ref, idxs, want, res, case):
    out = []
    tsl = G.build_tsl(lay)
    R.bump(res, "calls:all_values")
    try:
        av = [int(x) for x in tsl.all_values().tolist()]
        so = bool(tsl.self_overlaps())
        de = bool(tsl.is_dense())
    except Exception as x:
        R.reject(res, x)
        return out
    res["programs"] += 1
    rel = [w - ref.offset for w in want]
    res["compared"] += 3
    R.bump(res, "evals:all_values", len(rel))
    if sorted(av) != sorted(rel):
        out.append(V("all-values-differ-from-layout", f"{_attr(lay)}: all_values() has {len(av)} entries {sorted(av)[:8]}..., layout function gives {len(rel)} entries {sorted(rel)[:8]}...", case, view="all_values"))
    elif av == rel:
        R.bump(res, "all_values_in_row_major_index_order")
    dup = len(set(rel)) != len(rel)
    dense = sorted(rel) == list(range(len(rel)))
    R.bump(res, "layouts_self_overlapping" if dup else "layouts_injective")
    if dense:
        R.bump(res, "layouts_dense")
    if so != dup:
        out.append(V("self-overlaps-wrong", f"{_attr(lay)}: self_overlaps() = {so} but the layout function {'has' if dup else 'has no'} duplicate addresses", case, view="all_values"))
    if de != dense:
        out.append(V("is-dense-wrong", f"{_attr(lay)}: is_dense() = {de} but the address set {'equals' if dense else 'differs from'} 0..{len(rel) - 1}", case, view="all_values"))
    return out


def view_text(lay, res, case):
    from xdsl.parser import Parser

    out = []
    attr = _attr(lay)
    R.bump(res, "calls:text_roundtrip")
    try:
        text = str(attr)
    except Exception as x:
        R.reject(res, x)
        return out
    try:
        back = Parser(ctx(), text).parse_attribute()
    except Exception as x:
        return [
            V(
                "layout-text-roundtrip",
                f"{text} cannot be re-parsed: {type(x).__name__}: " + " ".join(str(x)[:120].split()),
                case,
                view="text",
                error=type(x).__name__,
                text=text,
            )
        ]
    res["programs"] += 1
    res["compared"] += 1
    if type(back).__name__ != "TiledStridedLayoutAttr":
        return [V("layout-text-roundtrip", f"{text} re-parses as {back}", case, view="text", error="class")]
    got = G.data_to_json(back.data)
    wantj = {"dims": lay["dims"], "offset": lay["offset"]}
    if got != wantj:
        out.append(V("layout-text-roundtrip", f"{wantj} prints as {text} which re-parses as {got}", case, view="text", error="differs"))
    return out


def _anchor(lay, rt):
    """Start value of the dynamic steps under the contiguity convention: the (first) largest static step times the
    bound of that stride, instantiated at the runtime shape."""
    best, val = None, 0
    for d, dim in enumerate(lay["dims"]):
        for j, (b, st) in enumerate(dim):
            if st is not None and st > val:
                best, val = (d, j), st
    if best is None:
        return 0
    b = lay["dims"][best[0]][best[1]][0]
    if b is None:
        sp = prod(x for x, _ in lay["dims"][best[0]] if x is not None)
        b = rt["shape"][best[0]] // sp
    return val * b


def view_canonicalize(lay, rt, ref, idxs, want, res, case):
    out = []
    tsl = G.build_tsl(lay)
    R.bump(res, "calls:canonicalize")
    try:
        c = tsl.canonicalize()
    except Exception as x:
        R.reject(res, x)
        return out
    res["programs"] += 1
    cj = G.data_to_json(c)
    try:
        cref = G.ref_of(cj, rt)
    except Exception as x:
        return [V("canonicalize-changes-layout", f"{_attr(lay)} -> {cj}: canonical layout cannot be instantiated: {x}", case, view="canonicalize")]
    if cref.shape() != ref.shape():
        out.append(V("canonicalize-changes-layout", f"{_attr(lay)} -> {c}: shape {ref.shape()} becomes {cref.shape()}", case, view="canonicalize"))
        return out
    got = [cref.addr(i) for i in idxs]
    R.bump(res, "evals:canonicalize", len(idxs))
    res["compared"] += len(idxs)
    if got != want:
        k = next(k for k in range(len(idxs)) if got[k] != want[k])
        out.append(
            V(
                "canonicalize-changes-layout",
                f"{_attr(lay)} -> {c}: at index {idxs[k]} address {want[k]} becomes {got[k]}",
                case,
                view="canonicalize",
                has_dynamic_step=any(s is None for d in lay["dims"] for _, s in d),
                anchor_before=_anchor(lay, rt),
                anchor_after=_anchor(cj, rt),
                canonical=cj,
            )
        )
    try:
        c2 = G.data_to_json(c.canonicalize())
        R.bump(res, "idempotence_checks")
        if c2 != cj:
            out.append(V("canonicalize-not-idempotent", f"{_attr(lay)} -> {cj} -> {c2}", case, view="canonicalize"))
    except Exception as x:
        R.reject(res, x)
    if cj["dims"] != lay["dims"]:
        R.bump(res, "layouts_changed_by_canonicalize")
    return out


def _memref_type(lay, elt, layout_attr=None):
    from xdsl.dialects.builtin import DYNAMIC_INDEX, IntegerType, MemRefType

    shape = [DYNAMIC_INDEX if s is None else s for s in G.static_shape(lay)]
    return MemRefType(IntegerType(elt), shape, layout_attr if layout_attr is not None else _attr(lay))


def view_bound_step_ops(lay, rt, ref, res, case, elt, memref_type=None, runtime_strides=None, modes=None, tsl_attr=None):
    """Interpret the ops emitted by get_bound_ops / get_step_ops at the concrete runtime shape."""
    from xdsl.dialects import arith
    from xdsl.dialects.builtin import IndexType
    from xdsl.ir import Block

    from vf.interp.core import MachineError, Unsupported

    out = []
    attr = tsl_attr if tsl_attr is not None else _attr(lay)
    mt = memref_type if memref_type is not None else _memref_type(lay, elt, attr)
    elsize = max(1, elt // 8)
    shape = rt["shape"]
    positions = [(d, j) for d in range(len(lay["dims"])) for j in range(len(lay["dims"][d]))]
    modes = modes or (("list", None, False), ("memref", "memref", False), ("memref", "memref", True))
    for bmode, smem, in_bytes in modes:
        blk = Block(arg_types=[mt])
        mval = blk.args[0]
        it = make_interp()
        it.env[mval] = RtMemref(0x1000, list(shape), runtime_strides, rt.get("offset") or 0)
        tag = f"{bmode}/{'memref' if smem else 'nomemref'}/{'bytes' if in_bytes else 'elements'}"
        R.bump(res, "calls:get_bound_ops")
        try:
            if bmode == "list":
                shape_ops = [arith.ConstantOp.from_int_and_width(n, IndexType()) for n in shape]
                it.run_ops(shape_ops)
                bops, bmap = attr.get_bound_ops(list(shape_ops))
            else:
                bops, bmap = attr.get_bound_ops(mval)
        except Exception as x:
            R.reject(res, x)
            continue
        try:
            it.run_ops(bops)
        except (Unsupported, MachineError) as x:
            R.bump(res, "oracle_skipped:" + type(x).__name__)
            continue
        res["programs"] += 1
        bad = False
        for p in positions:
            if p not in bmap:
                out.append(V("bound-ops-differ-from-layout", f"{attr} [{tag}]: no bound op for (dim, depth) = {p}", case, view="bound_ops"))
                bad = True
                break
            got = it.env[bmap[p].results[0]]
            want = ref.dims[p[0]][p[1]][0]
            res["compared"] += 1
            R.bump(res, "evals:bound_step_values")
            if got != want:
                out.append(V("bound-ops-differ-from-layout", f"{attr} [{tag}] runtime shape {shape}: bound at (dim, depth) = {p} evaluates to {got}, layout has {want}", case, view="bound_ops"))
                bad = True
                break
        if bad:
            continue
        R.bump(res, "calls:get_step_ops")
        try:
            sops, smap = attr.get_step_ops(bmap, mval if smem else None, in_bytes)
        except Exception as x:
            R.reject(res, x)
            continue
        try:
            it.run_ops(sops)
        except (Unsupported, MachineError) as x:
            R.bump(res, "oracle_skipped:" + type(x).__name__)
            continue
        res["programs"] += 1
        mul = elsize if in_bytes else 1
        for p in positions:
            if p not in smap:
                out.append(V("step-ops-differ-from-layout", f"{attr} [{tag}]: no step op for (dim, depth) = {p}", case, view="step_ops"))
                break
            got = it.env[smap[p].results[0]]
            want = ref.dims[p[0]][p[1]][1] * mul
            res["compared"] += 1
            R.bump(res, "evals:bound_step_values")
            if got != want:
                dyn = lay["dims"][p[0]][p[1]][1] is None
                out.append(
                    V(
                        "step-ops-differ-from-layout",
                        f"{attr} on {mt} [{tag}] runtime shape {shape} strides {runtime_strides}: step at (dim, depth) = {p} evaluates to {got}, layout has {want}",
                        case,
                        view="step_ops",
                        mode=tag,
                        dynamic_entry=dyn,
                        ratio=(got // want if want and got % want == 0 else None),
                        elsize=elsize,
                        strided=runtime_strides is not None,
                        in_bytes=in_bytes,
                    )
                )
                break
    return out


# ----------------------------------------------------------------------------------------------------------------
# monitors per case kind
# ----------------------------------------------------------------------------------------------------------------
def _out_of_domain(lay):
    for d in lay["dims"]:
        for j, (b, s) in enumerate(d):
            if (b is not None and b <= 0) or (s is not None and s <= 0):
                return True
            if j > 0 and (b is None or s is None):
                return True
    return False


def mon_layout(case, res, rng=None):
    lay, rt, elt = case["layout"], case["rt"], case.get("elt", 8)
    out = []
    if _out_of_domain(lay):
        # counted, not judged (e.g. a step of 0 prints as `?` and re-parses as a dynamic step)
        R.bump(res, "out_of_domain_layouts")
        if any(s == 0 for d in lay["dims"] for _, s in d):
            scratch = R.new_result()
            try:
                if view_text(lay, scratch, case):
                    R.bump(res, "out_of_domain:zero_step_text_form_not_equal_after_reparse")
                else:
                    R.bump(res, "out_of_domain:zero_step_text_form_roundtrips")
            except Exception:
                pass
        return out
    dyn = G.is_dynamic(lay)
    try:
        ref = G.ref_of(lay, rt)
    except Exception as x:
        R.bump(res, "reference_cannot_instantiate")
        return out
    idxs = list(ref.indices())
    if len(idxs) > 4 * G.MAX_INDICES:
        idxs = idxs[: 4 * G.MAX_INDICES]
    want = [ref.addr(i) for i in idxs]
    R.bump(res, "indices_evaluated", len(idxs))
    views = case.get("views")
    def on(v):
        return views is None or v in views

    if on("affine_map"):
        if dyn:
            # announced limitation: must refuse rather than return a map
            R.bump(res, "calls:get_affine_map")
            try:
                m = _attr(lay).get_affine_map()
                out.append(V("affine-map-differs-from-layout", f"{_attr(lay)}: a map {m} is returned for a dynamic layout", case, view="affine_map"))
            except Exception as x:
                R.reject(res, x)
        elif lay["offset"] is not None:
            out += view_affine_map(lay, ref, idxs, want, res, case)
    if on("all_values") and not dyn and lay["offset"] is not None:
        out += view_all_values(lay, ref, idxs, want, res, case)
    if on("text"):
        out += view_text(lay, res, case)
    if on("canonicalize"):
        out += view_canonicalize(lay, rt, ref, idxs, want, res, case)
    if on("bound_step_ops"):
        out += view_bound_step_ops(lay, rt, ref, res, case, elt)
    depth2 = any(len(d) >= 2 for d in lay["dims"])
    if depth2 or lay["offset"] != 0 or dyn or lay["offset"] is None:
        R.nontrivial(res, "layout", G.skeleton(lay), lay.get("mode", "box"))
    R.bump(res, "layouts_dynamic" if (dyn or lay["offset"] is None) else "layouts_static")
    R.bump(res, f"layouts_rank:{len(lay['dims'])}")
    R.bump(res, f"layouts_maxdepth:{max(len(d) for d in lay['dims'])}")
    if any(b == 1 for d in lay["dims"] for b, _ in d):
        R.bump(res, "layouts_with_unit_bound")
    steps = [s for d in lay["dims"] for _, s in d if s is not None]
    if len(set(steps)) != len(steps):
        R.bump(res, "layouts_with_repeated_step")
    if lay["offset"] not in (0, None):
        R.bump(res, "layouts_with_static_offset")
    return out


def mon_from_strides(case, res, rng=None):
    from xdsl.dialects.builtin import DYNAMIC_INDEX, IntegerType, MemRefType, StridedLayoutAttr

    from snaxc.dialects.tsl import TiledStridedLayoutAttr
    from snaxc.ir.tsl import TiledStridedLayout

    out = []
    strides, tb, off, rt = case["strides"], case["tile_bounds"], case["offset"], case["rt"]
    elt = case.get("elt", 32)
    R.bump(res, "calls:from_strides")
    try:
        tsl = TiledStridedLayout.from_strides(list(strides), [list(t) for t in tb], off)
    except Exception as x:
        R.reject(res, x)
        return out
    res["programs"] += 1
    lj = G.data_to_json(tsl)
    if [[b for b, _ in d] for d in lj["dims"]] != tb or lj["offset"] != off:
        return [V("from-strides-differs-from-strided-function", f"from_strides({strides}, {tb}, {off}) = {tsl}: tile bounds / offset not kept", case, view="from_strides")]
    try:
        ref = G.ref_of(lj, {"shape": rt["shape"], "offset": rt["offset"]}, rt["strides"])
    except Exception as x:
        return [V("from-strides-differs-from-strided-function", f"from_strides({strides}, {tb}, {off}) = {tsl}: cannot be instantiated: {x}", case, view="from_strides")]
    o = rt["offset"] if off is None else off
    idxs = list(itertools.product(*[range(n) for n in rt["shape"]]))[: G.MAX_INDICES]
    R.bump(res, "evals:from_strides", len(idxs))
    res["compared"] += len(idxs)
    for i in idxs:
        want = o + sum(s * x for s, x in zip(rt["strides"], i))
        got = ref.addr(i)
        if got != want:
            out.append(V("from-strides-differs-from-strided-function", f"from_strides({strides}, {tb}, {off}) = {tsl} (runtime strides {rt['strides']}): at index {i} layout gives {got}, strided function gives {want}", case, view="from_strides"))
            break
    # the emitted bound / step ops on a memref that really has a strided layout
    if not out:
        attr = TiledStridedLayoutAttr(tsl)
        shape = [DYNAMIC_INDEX if t[0] is None else prod(t) for t in tb]
        try:
            mt = MemRefType(IntegerType(elt), shape, StridedLayoutAttr(list(strides), off))
        except Exception as x:
            R.bump(res, "generator_invalid")
            return out
        modes = (("memref", "memref", True), ("memref", "memref", False))
        out += view_bound_step_ops(lj, {"shape": rt["shape"], "offset": rt["offset"]}, ref, res, case, elt, memref_type=mt, runtime_strides=rt["strides"], modes=modes, tsl_attr=attr)
    R.nontrivial(res, "from_strides", tuple(len(t) for t in tb), tuple(s is None for s in strides), tuple(t[0] is None for t in tb), off is None)
    return out


def _match_positions(strides, cands):
    """Injective assignment of result strides to candidate position sets (tiny backtracking)."""
    used = set()

    def go(k):
        if k == len(strides):
            return True
        for p in cands[k]:
            if p not in used:
                used.add(p)
                if go(k + 1):
                    return True
                used.discard(p)
        return False

    return go(0)


def mon_lccb(case, res, rng=None):
    out = []
    a, b, s0 = case["a"], case["b"], case["s0"]
    A, B = G.build_tsl(a), G.build_tsl(b)
    R.bump(res, "calls:largest_common_contiguous_block")
    try:
        blk = A.largest_common_contiguous_block(B, s0)
    except Exception as x:
        R.reject(res, x)
        return out
    res["programs"] += 1
    got = [(s.step, s.bound) for s in blk]
    desc = f"A = <{A}>, B = <{B}>, starting stride {s0}: block {got}"
    res["compared"] += 1
    if not got:
        return [V("common-block-not-contiguous-or-not-common", desc + ": empty result", case, view="lccb")]
    if got == [(s0, 1)]:
        R.bump(res, "lccb_single_element")
    else:
        # every stride occurs at a common (dim, depth) of both layouts, at distinct positions
        cands = []
        for st, bd in got:
            cands.append(
                [
                    (d, j)
                    for d in range(len(a["dims"]))
                    for j in range(len(a["dims"][d]))
                    if a["dims"][d][j] == [bd, st] and d < len(b["dims"]) and j < len(b["dims"][d]) and b["dims"][d][j] == [bd, st]
                ]
            )
        if not all(cands) or not _match_positions(got, cands):
            out.append(V("common-block-not-contiguous-or-not-common", desc + ": some returned stride is not at a common (dim, depth) of both layouts", case, view="lccb"))
    # contiguous chain from s0 (static prefix; a dynamic entry ends what can be judged)
    cur = s0
    n_static = 0
    for st, bd in got:
        if st is None:
            R.bump(res, "lccb_dynamic_tail_not_judged")
            break
        if st != cur:
            out.append(V("common-block-not-contiguous-or-not-common", desc + f": stride with step {st} where the contiguous chain requires {cur}", case, view="lccb"))
            break
        n_static += 1
        if bd is None:
            R.bump(res, "lccb_dynamic_tail_not_judged")
            break
        cur = st * bd
    R.bump(res, "evals:largest_common_contiguous_block", len(got))
    R.bump(res, f"lccb_block_len:{min(len(got), 6)}")
    if len(got) >= 2:
        R.nontrivial(res, "lccb", G.skeleton(a), len(got), s0)
    return out


def _fmt_layout(lay):
    def q(x):
        return "?" if x is None else str(x)

    parts = [f"[{', '.join(q(b) for b, _ in d)}] -> ({', '.join(q(s) for _, s in d)})" for d in lay["dims"]]
    o = lay["offset"]
    if o != 0:
        parts.append(f"offset: {q(o)}")
    return "#tsl.tsl<" + ", ".join(parts) + ">"


def subview_module_text(case):
    lay, offs, elt = case["layout"], case["offsets"], case["elt"]
    sshape = G.static_shape(lay)
    src_t = f"memref<{'x'.join('?' if n is None else str(n) for n in sshape)}xi{elt}, {_fmt_layout(lay)}>"
    res_dims, sizes = [], []
    for d, dim in enumerate(lay["dims"]):
        if case["class"] == "aligned" and len(dim) >= 2:
            res_dims.append([list(s) for s in dim[1:]])
            sizes.append(prod(b for b, _ in dim[1:]))
        else:
            res_dims.append([[1, dim[-1][1]]])
            sizes.append(1)
    res_t = f"memref<{'x'.join(str(n) for n in sizes)}xi{elt}, {_fmt_layout({'dims': res_dims, 'offset': 0})}>"
    args = [f"%m: {src_t}"]
    olist = []
    for d, o in enumerate(offs):
        if o[0] == "s":
            olist.append(str(o[1]))
        else:
            args.append(f"%o{d}: index")
            olist.append(f"%o{d}")
    return (
        f"func.func @main({', '.join(args)}) -> index {{\n"
        f"  %sv = memref.subview %m[{', '.join(olist)}] [{', '.join(str(n) for n in sizes)}] [{', '.join('1' for _ in sizes)}] : {src_t} to {res_t}\n"
        f'  %p = "memref.extract_aligned_pointer_as_index"(%sv) : ({res_t}) -> index\n'
        f"  func.return %p : index\n}}\n"
    )


def mon_subview(case, res, rng=None):
    from vf.ctx import PassTimeout, parse, run_passes_limited
    from vf.interp.core import MachineError, StepBudget, Unsupported, UseBeforeDef

    out = []
    lay, rt, offs, elt = case["layout"], case["rt"], case["offsets"], case["elt"]
    elsize = elt // 8
    text = subview_module_text(case)
    try:
        mod = parse(ctx(), text)
        mod.verify()
    except Exception as x:
        R.bump(res, "generator_invalid")
        return out
    try:
        run_passes_limited(ctx(), mod, "convert-memref-to-arith", 5)
    except PassTimeout:
        R.reject(res, "PassTimeout@convert-memref-to-arith")
        return out
    except Exception as x:
        R.reject(res, x)
        return out
    try:
        mod.verify()
    except Exception as x:
        return [V("subview-pointer-differs-from-layout", f"module does not verify after convert-memref-to-arith: {str(x)[:200]}", {**case, "vec": None}, view="subview")]
    res["programs"] += 1
    ref = G.ref_of(lay, rt)
    zero = ref.addr([0] * len(offs))
    base = 0x10000
    inner = [prod(b for b, _ in d[1:]) for d in lay["dims"]]
    vecs = [case["vec"]] if case.get("vec") is not None else case["vecs"]
    for vec in vecs:
        concrete = [o[1] if o[0] == "s" else v for o, v in zip(offs, vec)]
        args = [RtMemref(base, list(rt["shape"]))] + [v for o, v in zip(offs, vec) if o[0] == "d"]
        it = make_interp(mod)
        try:
            got = it.run_func("main", args)[0]
        except Unsupported as x:
            R.bump(res, "subview_not_lowered_by_pass")
            continue
        except UseBeforeDef as x:
            out.append(V("subview-pointer-differs-from-layout", f"lowered code reads an undefined value: {x}", {**case, "vec": vec}, view="subview"))
            break
        except (MachineError, StepBudget) as x:
            R.bump(res, "oracle_skipped:" + type(x).__name__)
            continue
        want = base + (ref.addr(concrete) - zero) * elsize
        res["compared"] += 1
        R.bump(res, "subview_pointers_compared")
        R.bump(res, f"subview_class:{case['class']}")
        if got != want:
            # mechanism models (for attribution): what the pointer would be if static offsets were dropped /
            # if every offset were rounded down to a multiple of the inner tile product
            dropped = [0 if o[0] == "s" else c for o, c in zip(offs, concrete)]
            floored = [(c // n) * n for c, n in zip(concrete, inner)]
            m_static = base + (ref.addr(dropped) - zero) * elsize
            m_floor = base + (ref.addr(floored) - zero) * elsize
            out.append(
                V(
                    "subview-pointer-differs-from-layout",
                    f"{_fmt_layout(lay)} i{elt}, subview offsets {concrete} ({''.join(o[0] for o in offs)}): lowered pointer = base + {got - base}, layout function gives base + {want - base}",
                    {**case, "vec": vec},
                    view="subview",
                    nonzero_static=any(o[0] == "s" and o[1] != 0 for o in offs),
                    unaligned_dynamic=any(o[0] == "d" and c % n for o, c, n in zip(offs, concrete, inner)),
                    unaligned_static=any(o[0] == "s" and c % n for o, c, n in zip(offs, concrete, inner)),
                    all_static=all(o[0] == "s" for o in offs),
                    got_is_elsize=(got == elsize),
                    explained_by_dropped_static=(got == m_static),
                    explained_by_floor=(got == m_floor),
                )
            )
            break
    R.nontrivial(res, "subview", G.skeleton(lay), tuple(o[0] for o in offs), case["class"], elt)
    return out


MONITORS = {"box": mon_layout, "random": mon_layout, "layout": mon_layout, "from_strides": mon_from_strides, "lccb": mon_lccb, "subview": mon_subview}


# ----------------------------------------------------------------------------------------------------------------
# known-finding attribution: mechanism predicate on the case + counterfactual (vf/counterfactual/tsl_views.py)
# ----------------------------------------------------------------------------------------------------------------
def attribute(v):
    from vf.counterfactual import tsl_views as CF

    case = v.get("case") or {}
    info = v.get("info") or {}
    kind = v["kind"]
    if kind == "affine-map-differs-from-layout" and info.get("view") == "affine_map":
        lay = case.get("layout") or {}
        off = lay.get("offset")
        # predicate: static non-zero offset and the map is off by exactly that offset at every index
        if isinstance(off, int) and off != 0 and info.get("n_deltas") == 1 and info.get("deltas") == [off]:
            with CF.affine_map_with_offset():
                again = mon_layout({**case, "views": ["affine_map"]}, R.new_result())
            if not again:
                return "tsl-affine-map-ignores-offset"
    if kind == "layout-text-roundtrip" and info.get("view") == "text":
        lay = case.get("layout") or {}
        # predicate: dynamic offset, and the printed form is refused by the parser
        if lay.get("offset", 0) is None and info.get("error") == "ParseError" and "offset: ?" in (info.get("text") or ""):
            with CF.parser_accepts_dynamic_offset():
                again = mon_layout({**case, "views": ["text"]}, R.new_result())
            if not again:
                return "tsl-dynamic-offset-not-reparsable"
    if kind == "canonicalize-changes-layout" and info.get("view") == "canonicalize":
        # predicate: the layout has a dynamic step and canonicalize (dropping a unit-bound stride / squashing) changed the
        # anchor "largest static step * its bound" from which get_step_ops derives every dynamic step
        if info.get("has_dynamic_step") and info.get("anchor_before") != info.get("anchor_after"):
            lay, rt = case["layout"], case["rt"]
            cj = info["canonical"]
            # the real get_step_ops agrees with the reference on the canonical layout too (so two real views disagree)
            probe = view_bound_step_ops(cj, rt, G.ref_of(cj, rt), R.new_result(), case, case.get("elt", 8))
            with CF.canonicalize_keeps_dynamic_step_layouts():
                again = mon_layout({**case, "views": ["canonicalize"]}, R.new_result())
            if not again and not probe:
                return "tsl-canonicalize-moves-dynamic-step-anchor"
    if kind == "step-ops-differ-from-layout" and info.get("view") == "step_ops":
        # predicate: strided memref, elements requested, a dynamic (metadata) stride is off by exactly the element size
        if info.get("strided") and not info.get("in_bytes") and info.get("dynamic_entry") and info.get("elsize", 1) > 1 and info.get("ratio") == info.get("elsize"):
            with CF.strided_metadata_respects_in_bytes():
                again = MONITORS[case["kind"]](case, R.new_result())
            if not [a for a in again if a["kind"] == kind]:
                return "tsl-step-ops-strided-metadata-always-in-bytes"
    if kind == "subview-pointer-differs-from-layout" and info.get("view") == "subview" and case.get("vec") is not None:
        key = None
        if info.get("all_static") and info.get("got_is_elsize"):
            # no dynamic offset at all: the op is replaced by the last emitted op, the element-size constant
            key = "subview-lowering-all-static-returns-element-size"
        elif info.get("nonzero_static") and info.get("explained_by_dropped_static") and not info.get("unaligned_dynamic"):
            key = "subview-lowering-ignores-static-offsets"
        elif info.get("unaligned_dynamic") and info.get("explained_by_floor") and not info.get("nonzero_static"):
            key = "subview-lowering-truncates-unaligned-offsets"
        if key:
            with CF.subview_pointer_full_digits():
                again = mon_subview(case, R.new_result())
            if not again:
                return key
    return None


# ----------------------------------------------------------------------------------------------------------------
# case generation / shard driver
# ----------------------------------------------------------------------------------------------------------------
def gen_case(kind, rng, box_index=None):
    if kind == "box":
        i = box_index if box_index is not None else rng.randrange(G.BOX_SIZE)
        lay = G.box_layout(i)
        return {"kind": "box", "box_index": i, "layout": lay, "rt": G.gen_runtime(rng, lay), "elt": rng.choice([8, 32])}
    if kind == "random":
        lay = G.gen_layout(rng)
        return {"kind": "random", "layout": lay, "rt": G.gen_runtime(rng, lay), "elt": rng.choice([8, 8, 16, 32, 64])}
    if kind == "from_strides":
        return {"kind": kind, **G.gen_from_strides(rng), "elt": rng.choice([8, 16, 32, 64])}
    if kind == "lccb":
        a, b, s0 = G.gen_lccb_pair(rng)
        return {"kind": kind, "a": a, "b": b, "s0": s0}
    if kind == "subview":
        return {"kind": kind, **G.gen_subview(rng)}
    raise ValueError(kind)


KEEP_PER_KNOWN_KEY = 3


def record(res, vs, kept):
    for v in vs:
        key = attribute(v)
        if key is not None:
            R.bump(res, f"known_occurrences:{key}")
            kept[key] = kept.get(key, 0) + 1
            if kept[key] > KEEP_PER_KNOWN_KEY:
                continue
        R.violation(res, v["kind"], v["detail"], v["case"], key)


def run_shard(seed, shard, n_cases, tier):
    import vf.compat  # noqa: F401

    res = R.new_result()
    rng = random.Random(seed)
    ctx()
    kept = {}
    schedule = [k for k, w in KINDS for _ in range(w)]
    nshards = TIERS[tier]["shards"]
    # thorough: complete enumeration of the small box, split over the shards (then random samples of it)
    box_iter = iter(range(shard, G.BOX_SIZE, nshards)) if tier == "thorough" else iter(())
    for i in range(n_cases):
        kind = schedule[i % len(schedule)]
        bi = next(box_iter, None) if kind == "box" else None
        case = gen_case(kind, rng, bi)
        res["evaluations"] += 1
        R.bump(res, f"cases:{kind}")
        if kind in ("box", "random"):
            R.bump(res, f"layouts_{kind}")
            if bi is not None:
                R.bump(res, "box_layouts_enumerated")
        vs = MONITORS[kind](case, res, rng)
        record(res, vs, kept)
        if shard == 0 and not any(s.get("kind") == kind for s in res["samples"]):
            R.sample(res, case, cap=len(KINDS))
    if tier == "thorough" and next(box_iter, None) is not None:
        R.bump(res, "box_not_exhausted")
    return res


def replay(case):
    import vf.compat  # noqa: F401

    ctx()
    vs = MONITORS[case["kind"]](case, R.new_result(), random.Random(0))
    for v in vs:
        v["attributed"] = attribute(v)
    return vs
