"""C18 - Kernel recognition and expansion preserve the scalar function (translation validation).

Three monitors, each around a REAL pass:
  recognition  linalg.generic body --convert-linalg-to-kernel--> body' ; both bodies are executed by vf/interp/scalar.py
               (kernel ops by their documented meaning) on corner x corner and random input vectors.  A body replaced by a
               kernel that computes something else is a violation; a near miss left untouched is correct.
  expansion    kernel-bodied generic --convert-kernel-to-linalg--> body'' ; body''(x) must equal the kernel's meaning,
               including kernel.rescale parameter sets through LowerRescale.
  dispatch     insert-accfg-op{..},...,dispatch-kernels ; `library_call = X` set by the pass must imply that X is declared in
               the module and X.supported_kernels lists that kernel type with exactly those operand/result types.
"""
from __future__ import annotations

import os
import random

from vf import runner as R
from vf.compat import repo_path
from vf.corpus import split_file
from vf.ctx import PassTimeout, make_ctx, parse, run_passes_limited, to_text
from vf.gen import kernel_gen as G
from vf.interp import scalar as S

LEVEL = "translation_validation"
RULE = (
    "G-kernel: (a) boxes split over the shards: every body of <=2 ops from {addi,muli,subi} over three i32 arguments (all "
    "wirings, all yields) and every wiring of extsi,extsi,muli,addi over (i8,i8,i32) - thorough: complete, plus i8/i16/i64 and "
    "four more width triples; quick: complete for the op-kind sequences of kernels (muli / addi / muli,addi), every 4th of the "
    "other <=2-op bodies, every 2nd extsi,extsi,muli,addi wiring; (b) random bodies: the canonical "
    "bodies of mul/add/mac/mac+extsi/qmac over all width combinations, 1-3 mutations of them (operand swap, rewiring to "
    "another value of the same type, yield of another value), random wirings of the same op-kind sequences, fully random "
    "bodies of <=6 ops over i8/i16/i32/i64; (b2) modules of 2-4 generics handled by one application of the pass: a canonical "
    "body with siblings of the same argument types and op-kind sequence but another wiring, single mutations, repeats and "
    "bodies of other kernels, canonical first / last / shuffled; (c) kernel-bodied generics (mul/add/mac/qmac in documented and mixed width "
    "combinations, kernel.rescale with zero points, multipliers, shift 0..62, clamps, double_round, per-channel arrays; "
    "memref and tensor form); (d) modules of 1-4 generics (declared, near-declared and arbitrary kernel/type combinations, "
    "non-kernel and fused bodies, pre-dispatched ops, static and dynamic shapes) with an ordered subset of snax_alu, "
    "snax_gemmx, snax_xdma declared; plus the upstream filecheck inputs of the three passes.  Non-trivial (decided by the "
    "monitor's own classification, not by what the pass did): a recognition body whose op-kind sequence equals that of a "
    "kernel of its arity; an expansion case in the documented type domain; a dispatch generic whose kernel type is declared "
    "by one of the declared accelerators.  Distinct by structure (types, ops, wiring, yield / kind, types, parameters)."
)
ASSUMPTIONS = [
    "xDSL 0.70 compatibility shim (vf/compat.py) is semantically neutral for the passes under test",
    "scalar evaluator vf/interp/scalar.py: two's complement at each SSA value's width (arith.addi/subi/muli/extsi/extui/"
    "trunci/shrsi/minsi/maxsi/constant); kernel.mul/add/mac/qmac mean lhs*rhs, lhs+rhs, out+lhs*rhs, "
    "out+(lhs-zp_lhs)*(rhs-zp_rhs) with operands sign-extended to the result width",
    "kernel.rescale: the spec linked in kernel.py (a gist) is unreachable offline; its meaning is taken from "
    "util/gemmx/simd_golden_model.py (same parameter list; golden model of kernels/gemm/gemm_rescale.py), transcribed to "
    "exact integers.  Inputs for which a 32-bit intermediate of that model overflows, shift<1 with rounding, per-channel "
    "arrays with differing entries and empty clamp ranges are out of domain (counted, not judged)",
    "expansion is judged only for operand-type combinations that have a well-typed canonical body (mul/add: all equal; mac: "
    "all equal or both inputs narrower than the accumulator; qmac: inputs narrower than zero points = accumulator type; "
    "rescale: i32 -> i8, the only combination LowerRescale is written for); other combinations are counted",
    "IR that fails module verification after a pass is a rejection by the compiler (snax-opt verifies after every pass), not a "
    "semantic violation; xDSL does not verify linalg.yield types against the outputs, so that check is made by the monitor",
    "an accelerator's declaration is the `supported_kernels` attribute of the object the AccContext returns for its name",
    "convert-tosa-to-kernel is not reached (tosa.rescale textual form differs under xDSL 0.70); rescale meaning is covered "
    "through kernel.rescale -> LowerRescale",
]
TIERS = {
    "quick": {"shards": 16, "cases": 260, "timeout": 600},
    "thorough": {"shards": 16, "cases": 15600, "timeout": 7200},
}
FLOORS = {
    "quick": {
        "programs": 3500,
        "distinct_nontrivial": 1200,
        "recognition_bodies_checked": 2500,
        "recognition_vectors_compared": 15000,
        "recognition_modules_sibling_after_canonical": 300,
        "recognition_modules_sibling_before_canonical": 60,
        "expansion_bodies_checked": 500,
        "expansion_vectors_compared": 60000,
        "rescale_vectors_judged": 15000,
        "dispatch_generics_checked": 1200,
        "tosa_rescales_checked": 600,
    },
    "thorough": {
        "programs": 90000,
        "distinct_nontrivial": 20000,
        "recognition_bodies_checked": 50000,
        "recognition_vectors_compared": 500000,
        "recognition_modules_sibling_after_canonical": 15000,
        "recognition_modules_sibling_before_canonical": 3000,
        "expansion_bodies_checked": 15000,
        "expansion_vectors_compared": 2000000,
        "rescale_vectors_judged": 400000,
        "dispatch_generics_checked": 40000,
    },
}

ACCS = ("snax_alu", "snax_gemmx", "snax_xdma")
UNTOUCHED_VECTORS = 6
K_RECOG = "recognition-by-op-type-only"
K_DISPATCH = "dispatch-operand-type-check-is-noop"
K_ROUND = "rescale-lowering-ignores-double-round"

_ctx = None
_accs_available = None


def ctx():
    global _ctx, _accs_available
    if _ctx is None:
        extra = {}
        try:
            from snaxc.accelerators.snax_xdma import SNAXXDMAAccelerator

            extra["snax_xdma"] = lambda: SNAXXDMAAccelerator()
        except Exception:
            pass
        _ctx = make_ctx(extra_accelerators=extra)
        _accs_available = tuple(a for a in ACCS if a != "snax_xdma" or "snax_xdma" in extra)
    return _ctx


# ------------------------------------------------------------------------------------------------
# IR helpers (by name only: no repo class is needed by the oracle)
# ------------------------------------------------------------------------------------------------
_parse_cache: dict = {}


def parsed(text):
    """Parse + verify once per text.  The returned module is only ever read (passes run on clones), so the counterfactual
    re-run of the same case does not pay for parsing again."""
    m = _parse_cache.get(text)
    if m is None:
        if len(_parse_cache) >= 8:
            _parse_cache.clear()
        m = parse(ctx(), text)
        m.verify()
        _parse_cache[text] = m
    return m


def generics(module):
    return [op for op in module.walk() if op.name == "linalg.generic"]


def body_of(g):
    return g.regions[0].blocks[0]


def op_text(op) -> str:
    from io import StringIO

    from xdsl.printer import Printer

    s = StringIO()
    Printer(stream=s).print_op(op)
    return s.getvalue()


def body_lines(g) -> str:
    txt = op_text(g)
    j = txt.rfind("}")
    return " ; ".join(ln.strip() for ln in txt[txt.find("^") : j].splitlines() if ln.strip())


def block_spec(block):
    """Structural description (kinds, wiring, yield) of a body made of arith ops; None when it contains anything else."""
    idx = {a: i for i, a in enumerate(block.args)}
    ops = []
    for op in block.ops:
        if op is block.last_op:
            break
        if not op.name.startswith("arith.") or len(op.results) != 1:
            return None
        try:
            opnds = [idx[o] for o in op.operands]
        except KeyError:
            return None
        ops.append([op.name[len("arith.") :], opnds, S.type_key(op.results[0].type)])
        idx[op.results[0]] = len(idx)
    last = block.last_op
    if last is None or len(last.operands) != 1 or last.operands[0] not in idx:
        return None
    return {"args": [S.type_key(a.type) for a in block.args], "ops": ops, "yield": idx[last.operands[0]]}


def kernel_shape_of(spec):
    """Name of the kernel whose op-kind sequence (and arity) this body has, by the monitor's own table; else None."""
    if spec is None:
        return None
    kinds = [k for k, _, _ in spec["ops"]]
    n_in = len(spec["args"]) - 1
    for name, shape in G.SHAPES.items():
        if kinds == shape and n_in == (4 if name == "qmac" else 2):
            return name
    return None


def canonical_wiring_of(spec):
    """Name of the kernel whose *documented canonical body* this body is exactly (same wiring and operand order)."""
    name = kernel_shape_of(spec)
    if name is None:
        return None
    a = spec["args"]
    try:
        if name in ("mul", "add", "mac"):
            c = G.canonical(name, [a[0]])
        elif name == "mac_ext":
            c = G.canonical(name, a)
        else:
            c = G.canonical(name, [a[0], a[1], a[4]])
    except Exception:
        return None
    return name if c == spec and G.well_typed(c) else None


def apply(module, spec, res, seconds=20):
    """Clone and run the real pass pipeline.  Returns the transformed clone, or None (rejection recorded)."""
    m = module.clone()
    try:
        run_passes_limited(ctx(), m, spec, seconds)
    except Exception as e:  # noqa: BLE001  (a pass refusing/crashing on an input is a rejection)
        R.reject(res, e)
        return None
    try:
        m.verify()
    except Exception:  # noqa: BLE001
        R.reject(res, "verify-failed-after:" + spec.split(",")[-1])
        return None
    return m


def vec_show(vec, types):
    return "(" + ", ".join(str(S.show(v, t)) for v, t in zip(vec, types)) + ")"


# ------------------------------------------------------------------------------------------------
# monitor 1: recognition
# ------------------------------------------------------------------------------------------------
def check_recognition(text, vec_seed, res, family="", n_random=200, max_corner=400):
    out = []
    try:
        before = parsed(text)
    except Exception:  # noqa: BLE001
        R.bump(res, "generator_invalid")
        return out
    res["evaluations"] += 1
    after = apply(before, "convert-linalg-to-kernel", res)
    if after is None:
        return out
    gb, ga = generics(before), generics(after)
    case = {"monitor": "recognition", "text": text, "vec_seed": vec_seed, "n_random": n_random, "max_corner": max_corner}
    if len(gb) != len(ga):
        out.append({"kind": "recognition-changed-number-of-generics", "detail": f"{len(gb)} -> {len(ga)}", "case": case, "info": {}})
        return out
    res["programs"] += 1
    rng = random.Random(vec_seed)
    for b, a in zip(gb, ga):
        bb, ab = body_of(b), body_of(a)
        out_t = bb.args[-1].type
        try:
            fb = S.Body(bb, expect_yield_types=[out_t])
        except (S.IllTyped, S.UnsupportedOp, S.OutOfDomain) as e:
            R.bump(res, "recognition_input_body_skipped:" + type(e).__name__)
            continue
        spec = block_spec(bb)
        shape = kernel_shape_of(spec)
        canon = canonical_wiring_of(spec)
        R.bump(res, "recognition_bodies_checked")
        if shape is not None:
            R.nontrivial(res, "recog", repr(spec))
            R.bump(res, "recognition_bodies_with_kernel_op_kinds")
        if canon is not None:
            R.bump(res, "recognition_canonical_bodies")
        tb, ta = op_text(b), op_text(a)
        if tb == ta:
            R.bump(res, "repo:recognition_left_untouched")
            if canon is not None:
                R.bump(res, "repo:canonical_body_not_recognised")
            # identical text: nothing can differ.  The body is still executed on both sides for a few vectors so that the
            # monitor's reach does not depend on how often the pass fires.
            try:
                fa = S.Body(ab, expect_yield_types=[out_t])
                types = [x.type for x in bb.args]
                k = 0
                for _ in range(UNTOUCHED_VECTORS):
                    vec = [S.random_value(rng, t) for t in types]
                    if not all(S.same_value(p, q) for p, q in zip(fb(vec), fa(vec), strict=True)):
                        out.append({"kind": "untouched-body-evaluates-differently", "detail": f"[{body_lines(b)}] at {vec_show(vec, types)}", "case": case, "info": {}})
                        break
                    k += 1
                res["compared"] += k
                R.bump(res, "recognition_vectors_compared", k)
            except (S.IllTyped, S.UnsupportedOp, S.OutOfDomain, S.UndefinedResult):
                R.bump(res, "oracle_skipped:untouched")
            continue
        R.bump(res, "repo:recognition_replaced_body")
        first = ab.first_op
        kname = first.name if first is not None else "?"
        R.bump(res, "repo:replaced_by:" + kname)
        info = {"replaced_by": kname, "shape": shape, "canonical_wiring": canon, "family": family}
        try:
            fa = S.Body(ab, expect_yield_types=[out_t])
        except S.IllTyped as e:
            out.append({"kind": "recognition-produced-ill-typed-body", "detail": f"{e}; body after: {body_lines(a)}", "case": case, "info": info})
            continue
        except (S.UnsupportedOp, S.OutOfDomain) as e:
            R.bump(res, "oracle_skipped:" + type(e).__name__)
            continue
        types = [x.type for x in bb.args]
        bad = None
        n = 0
        for vec in S.input_vectors(rng, types, n_random, max_corner):
            try:
                x = fb(vec)
                y = fa(vec)
            except (S.UndefinedResult, S.OutOfDomain):
                R.bump(res, "vectors_out_of_domain")
                continue
            n += 1
            if not all(S.same_value(p, q) for p, q in zip(x, y, strict=True)):
                bad = (vec, x, y)
                break
        res["compared"] += n
        R.bump(res, "recognition_vectors_compared", n)
        if bad is not None:
            vec, x, y = bad
            out.append(
                {
                    "kind": "recognised-body-not-equivalent-to-kernel",
                    "detail": f"body [{body_lines(b)}] was replaced by [{body_lines(a)}]; at inputs {vec_show(vec, types)} the body yields "
                    f"{S.show(x[0], out_t)}, the kernel {S.show(y[0], out_t)}",
                    "case": case,
                    "info": info,
                }
            )
        else:
            R.bump(res, "recognition_replacements_equivalent")
            if canon is None:
                R.bump(res, "recognition_noncanonical_but_equivalent")
    return out


# ------------------------------------------------------------------------------------------------
# monitor 2: expansion
# ------------------------------------------------------------------------------------------------
def kernel_kind_types(block):
    first = block.first_op
    if first is None or not first.name.startswith("kernel."):
        return None, None, None
    kind = first.name[len("kernel.") :]
    types = [S.type_key(o.type) for o in first.operands] + [S.type_key(r.type) for r in first.results]
    return kind, types, first


def check_expansion(text, vec_seed, res, n_random=200, max_corner=400):
    out = []
    try:
        before = parsed(text)
    except Exception:  # noqa: BLE001
        R.bump(res, "generator_invalid")
        return out
    res["evaluations"] += 1
    gb = generics(before)
    for g in gb:
        kind, types, _ = kernel_kind_types(body_of(g))
        if kind:
            R.bump(res, "expansion_generated:" + kind + (":documented-types" if all(t.startswith("i") for t in types) and G.in_documented_domain(kind, types) else ":other-types"))
    after = apply(before, "convert-kernel-to-linalg", res)
    if after is None:
        for g in gb:
            kind, types, _ = kernel_kind_types(body_of(g))
            if kind:
                dom = all(t.startswith("i") for t in types) and G.in_documented_domain(kind, types)
                R.bump(res, "expansion_rejected_by_compiler:" + ("documented-types" if dom else "other-types"))
                R.seen(res, "expansion_rejected_type_combinations", f"{kind}:{','.join(types)}", cap=60)
        return out
    ga = generics(after)
    case = {"monitor": "expansion", "text": text, "vec_seed": vec_seed, "n_random": n_random, "max_corner": max_corner}
    if len(gb) != len(ga):
        out.append({"kind": "expansion-changed-number-of-generics", "detail": f"{len(gb)} -> {len(ga)}", "case": case, "info": {}})
        return out
    res["programs"] += 1
    rng = random.Random(vec_seed)
    for b, a in zip(gb, ga):
        bb, ab = body_of(b), body_of(a)
        kind, types, kop = kernel_kind_types(bb)
        if kind is None:
            R.bump(res, "expansion_non_kernel_body")
            continue
        out_t = bb.args[-1].type
        documented = all(t.startswith("i") for t in types) and G.in_documented_domain(kind, types)
        params = None
        try:
            fb = S.Body(bb, expect_yield_types=[out_t])
            if kind == "rescale":
                params = S.rescale_params(kop)
        except (S.IllTyped, S.UnsupportedOp, S.OutOfDomain) as e:
            R.bump(res, "expansion_input_skipped:" + type(e).__name__)
            continue
        info = {"kind": kind, "types": types, "documented_types": documented, "double_round": bool(params and params["double_round"])}
        R.bump(res, "expansion_bodies_checked")
        expanded = not any(o.name.startswith("kernel.") for o in ab.ops)
        R.bump(res, "repo:expanded" if expanded else "repo:kernel_op_left_in_place")
        if documented:
            R.nontrivial(res, "expand", kind, tuple(types), repr(sorted((params or {}).items())))
        try:
            fa = S.Body(ab, expect_yield_types=[out_t])
        except S.IllTyped as e:
            if documented:
                out.append({"kind": "expansion-ill-typed", "detail": f"{op_text(kop)} -> [{body_lines(a)}]: {e}", "case": case, "info": info})
            else:
                R.bump(res, "expansion_ill_typed_outside_documented_types")
                R.seen(res, "ill_typed_expansions_outside_documented_types", f"{kind}:{','.join(types)}: {str(e)[:80]}", cap=40)
            continue
        except S.UnsupportedOp as e:
            R.bump(res, "oracle_skipped:UnsupportedOp")
            R.seen(res, "unsupported_ops", str(e)[:60], cap=20)
            continue
        arg_types = [x.type for x in bb.args]
        if kind == "rescale":
            xs = G.rescale_inputs(rng, params, S.width(arg_types[0]), n_random)
            vecs = [[x, S.random_value(rng, arg_types[1])] for x in xs]
        else:
            vecs = S.input_vectors(rng, arg_types, n_random, max_corner)
        bad = None
        n = 0
        for vec in vecs:
            try:
                x = fb(vec)
            except S.OutOfDomain:
                R.bump(res, "rescale_vectors_out_of_domain" if kind == "rescale" else "vectors_out_of_domain")
                continue
            try:
                y = fa(vec)
            except S.UndefinedResult as e:
                y = [f"undefined ({e})"]
            n += 1
            if not all(S.same_value(p, q) for p, q in zip(x, y, strict=True)):
                bad = (vec, x, y)
                break
        res["compared"] += n
        R.bump(res, "expansion_vectors_compared", n)
        if kind == "rescale":
            R.bump(res, "rescale_vectors_judged", n)
            R.bump(res, "rescale_parameter_sets_checked")
            if params["double_round"]:
                R.bump(res, "rescale_parameter_sets_with_double_round")
        if bad is None:
            R.bump(res, "expansion_equivalent")
            continue
        vec, x, y = bad
        detail = (
            f"{op_text(kop)} was expanded to [{body_lines(a)}]; at inputs {vec_show(vec, arg_types)} the kernel means "
            f"{S.show(x[0], out_t)}, the expanded body yields {S.show(y[0], out_t) if not isinstance(y[0], str) else y[0]}"
        )
        if documented:
            out.append({"kind": "expanded-body-not-equivalent-to-kernel", "detail": detail, "case": case, "info": info})
        else:
            R.bump(res, "expansion_mismatch_outside_documented_types")
            R.seen(res, "mismatch_outside_documented_types", f"{kind}:{','.join(types)}", cap=40)
    return out


# ------------------------------------------------------------------------------------------------
# monitor 3: dispatch
# ------------------------------------------------------------------------------------------------

# ------------------------------------------------------------------------------------------------
# monitor (e): tosa.rescale [+ tosa.clamp] -> kernel.rescale (convert-tosa-to-kernel)
# ------------------------------------------------------------------------------------------------
def gen_tosa_case(rng):
    out_el = rng.choice(["i8", "i8", "i8", "i32"])
    clamp = rng.random() < 0.6
    nvals = rng.choice([1, 1, 1, 4, 8])
    lo_t, hi_t = (-128, 127) if out_el == "i8" else (-(1 << 31), (1 << 31) - 1)
    if clamp:
        a, b = sorted([rng.randint(lo_t, hi_t), rng.randint(lo_t, hi_t)])
    else:
        a, b = None, None
    return {
        "monitor": "tosa",
        "out_el": out_el,
        "clamp": clamp,
        "min": a,
        "max": b,
        "input_zp": rng.randint(-128, 127),
        "output_zp": rng.randint(-128, 127),
        "mult": [rng.randint(1, (1 << 31) - 1) for _ in range(nvals)],
        "shift": [rng.randint(2, 62) for _ in range(nvals)],
        "mode": rng.choice(["DOUBLE_ROUND", "SINGLE_ROUND"]),
        "shape": rng.choice(["4x8", "?x8", "16", "2x3x8"]),
        "second_user": rng.random() < 0.08,
    }


def check_tosa(case, res):
    """The parameters of the tosa ops must arrive unchanged in the kernel op the accelerator lowering reads: zero points, every
    multiplier / shift, the rounding mode, and as clamping range the clamp op's bounds - or, without a clamp op, the value range of
    the output element type (what tosa.rescale saturates to)."""
    out = []
    n = len(case["mult"])
    sh, oel = case["shape"], case["out_el"]
    ti, to = f"tensor<{sh}xi32>", f"tensor<{sh}x{oel}>"
    dm = ", ".join(map(str, case["mult"]))
    ds = ", ".join(map(str, case["shift"]))
    lines = [
        f'    %izp = "tosa.const"() <{{values = dense<{case["input_zp"]}> : tensor<1xi32>}}> : () -> tensor<1xi32>',
        f'    %ozp = "tosa.const"() <{{values = dense<{case["output_zp"]}> : tensor<1xi32>}}> : () -> tensor<1xi32>',
        f'    %mul = "tosa.const"() <{{values = dense<[{dm}]> : tensor<{n}xi32>}}> : () -> tensor<{n}xi32>',
        f'    %shf = "tosa.const"() <{{values = dense<[{ds}]> : tensor<{n}xi8>}}> : () -> tensor<{n}xi8>',
        f"    %r = tosa.rescale %x, %mul, %shf, %izp, %ozp {{rounding_mode = {case['mode']}, per_channel = {'true' if n > 1 else 'false'}, scale32 = true, input_unsigned = false, output_unsigned = false}} : ({ti}, tensor<{n}xi32>, tensor<{n}xi8>, tensor<1xi32>, tensor<1xi32>) -> {to}",
    ]
    last = "%r"
    if case["clamp"]:
        lines.append(f"    %c = tosa.clamp %r {{max_val = {case['max']} : {oel}, min_val = {case['min']} : {oel}}} : ({to}) -> {to}")
        last = "%c"
    if case["second_user"]:
        lines.append(f'    "test.op"(%r) : ({to}) -> ()')
    text = "builtin.module {\n  func.func @main(%x: " + ti + ") -> " + to + " {\n" + "\n".join(lines) + f"\n    func.return {last} : {to}\n  }}\n}}\n"
    res["evaluations"] += 1
    try:
        m = parse(ctx(), text)
        m.verify()
    except Exception as e:
        R.bump(res, "generator_invalid")
        R.reject(res, e)
        return out
    try:
        run_passes_limited(ctx(), m, "convert-tosa-to-kernel", 5)
        m.verify()
    except PassTimeout:
        R.reject(res, "PassTimeout")
        return out
    except Exception as e:
        R.reject(res, e)
        return out
    ks = [op for op in m.walk() if op.name == "kernel.rescale"]
    left = [op for op in m.walk() if op.name in ("tosa.rescale", "tosa.clamp")]
    if not ks:
        R.bump(res, "tosa_not_converted" + (":second-user" if case["second_user"] else ""))
        return out
    res["programs"] += 1
    res["compared"] += 1
    R.bump(res, "tosa_rescales_checked")
    k = ks[0]
    lo_t, hi_t = (-128, 127) if oel == "i8" else (-(1 << 31), (1 << 31) - 1)
    want = {
        "input_zp": case["input_zp"],
        "output_zp": case["output_zp"],
        "multiplier": list(case["mult"]),
        "shift": list(case["shift"]),
        "min_int": case["min"] if case["clamp"] else lo_t,
        "max_int": case["max"] if case["clamp"] else hi_t,
        "double_round": case["mode"] == "DOUBLE_ROUND",
    }
    got = {}
    for name in want:
        a = k.properties.get(name) or k.attributes.get(name)
        if a is None:
            got[name] = None
        elif hasattr(a, "get_values"):
            got[name] = [int(v) for v in a.get_values()]
        elif hasattr(a, "value"):
            got[name] = int(a.value.data)
        else:
            got[name] = a
    got["double_round"] = bool(got["double_round"]) if got["double_round"] is not None else None
    bad = [f"{nm}: kernel op has {got[nm]}, the tosa ops say {want[nm]}" for nm in want if got[nm] != want[nm]]
    if left:
        bad.append(f"{[o.name for o in left]} left beside the kernel op")
    if bad:
        out.append({"kind": "rescale-parameters-changed-by-conversion", "detail": "[convert-tosa-to-kernel] " + "; ".join(bad[:3]), "case": case})
    else:
        R.nontrivial(res, "tosa", oel, case["clamp"], n, case["mode"], sh)
    return out


def lib_of(g):
    lc = g.properties.get("library_call") if hasattr(g, "properties") else None
    if lc is None:
        lc = g.attributes.get("library_call")
    return lc.data if lc is not None else None


def declared_support(acc_name):
    """[(kernel op name, [type keys])] declared by the accelerator registered under acc_name."""
    acc = ctx().get_acc(acc_name)
    decl = []
    for sk in getattr(acc, "supported_kernels", ()) or ():
        decl.append((sk.kernel_type.name, [S.type_key(t) for t in sk.operand_types]))
    return decl


def check_dispatch(text, accs, res):
    out = []
    try:
        before = parsed(text)
    except Exception:  # noqa: BLE001
        R.bump(res, "generator_invalid")
        return out
    res["evaluations"] += 1
    spec = ",".join(f"insert-accfg-op{{accelerator={a}}}" for a in accs) + ",dispatch-kernels"
    after = apply(before, spec, res)
    if after is None:
        return out
    gb, ga = generics(before), generics(after)
    case = {"monitor": "dispatch", "text": text, "accs": list(accs)}
    if len(gb) != len(ga):
        out.append({"kind": "dispatch-changed-number-of-generics", "detail": f"{len(gb)} -> {len(ga)}", "case": case, "info": {}})
        return out
    res["programs"] += 1
    declared_in_module = [op.properties["name"].string_value() if "name" in op.properties else None for op in after.walk() if op.name == "accfg.accelerator"]
    decl = {a: declared_support(a) for a in accs}
    for gi, (b, a) in enumerate(zip(gb, ga)):
        R.bump(res, "dispatch_generics_checked")
        res["compared"] += 1
        lb, la = lib_of(b), lib_of(a)
        kind, types, kop = kernel_kind_types(body_of(a))
        single = kind is not None and len(list(body_of(a).ops)) == 2
        if kind and any(kop.name == kn for acc in accs for kn, _ in decl[acc]):
            R.nontrivial(res, "dispatch", tuple(accs), kind, tuple(types), single)
        if lb is not None:
            R.bump(res, "dispatch_predispatched")
            if la != lb:
                R.bump(res, "repo:predispatched_call_changed")
            continue
        exact = [acc for acc in accs if single and any(kn == kop.name and ts == types for kn, ts in decl[acc])]
        if la is None:
            R.bump(res, "repo:not_dispatched")
            if exact:
                R.bump(res, "repo:declared_support_but_not_dispatched")
            continue
        R.bump(res, "dispatch_library_calls_checked")
        R.bump(res, "repo:dispatched")
        info = {"library_call": la, "kind": kind, "types": types, "generic": gi}
        if la in accs:
            x = la
        elif la.endswith("_stream") and la[: -len("_stream")] in accs:
            x = la[: -len("_stream")]
        else:
            out.append({"kind": "dispatched-to-undeclared-accelerator", "detail": f"generic #{gi}: library_call = {la!r} but the module declares {list(accs)}", "case": case, "info": info})
            continue
        if x not in declared_in_module:
            out.append({"kind": "dispatched-to-undeclared-accelerator", "detail": f"generic #{gi}: library_call = {la!r}, no accfg.accelerator @{x} in the module", "case": case, "info": info})
            continue
        if not single:
            out.append({"kind": "dispatched-body-is-not-a-single-kernel", "detail": f"generic #{gi}: library_call = {la!r} on body [{body_lines(a)}]", "case": case, "info": info})
            continue
        same_type = [ts for kn, ts in decl[x] if kn == kop.name]
        info["kernel_type_declared_with"] = same_type
        if types in same_type:
            R.bump(res, "dispatch_supported")
            continue
        out.append(
            {
                "kind": "dispatched-to-accelerator-without-declared-support",
                "detail": f"generic #{gi}: {op_text(kop).strip()} got library_call = {la!r}, but {x} declares "
                + (f"{kop.name} only on {same_type}" if same_type else f"no {kop.name} at all")
                + f" (declared: {decl[x]})",
                "case": case,
                "info": info,
            }
        )
    return out


# ------------------------------------------------------------------------------------------------
# known-finding attribution: structural predicate on the case + counterfactual re-run
# ------------------------------------------------------------------------------------------------
def attribute(v):
    info = v.get("info") or {}
    case = v.get("case") or {}
    kind = v["kind"]
    if kind == "recognised-body-not-equivalent-to-kernel" and info.get("shape") is not None and info.get("canonical_wiring") is None:
        # predicate: the replaced body has the op-kind sequence of a kernel but NOT its documented wiring.
        from vf.counterfactual.kernel_cf import structural_kernel_equivalence

        with structural_kernel_equivalence():
            again = replay(case)
        if not again:
            return K_RECOG
    if kind == "dispatched-to-accelerator-without-declared-support" and info.get("kernel_type_declared_with"):
        # predicate: the chosen accelerator declares this kernel *type*, with other operand/result types.
        from vf.counterfactual.kernel_cf import typed_dispatch

        with typed_dispatch():
            again = replay(case)
        if not again:
            return K_DISPATCH
    if kind == "expanded-body-not-equivalent-to-kernel" and info.get("kind") == "rescale" and info.get("double_round"):
        # predicate: the expanded op is a kernel.rescale with double_round set.
        from vf.counterfactual.kernel_cf import rescale_rejects_double_round

        with rescale_rejects_double_round():
            again = replay(case)
        if not again:
            return K_ROUND
    return None


def record(res, vs):
    for v in vs:
        R.violation(res, v["kind"], v["detail"], v["case"], attribute(v))
        R.bump(res, "violations:" + v["kind"])


def replay(case):
    res = R.new_result()
    mon = case.get("monitor")
    if mon == "recognition":
        return check_recognition(case["text"], case["vec_seed"], res, n_random=case.get("n_random", 200), max_corner=case.get("max_corner", 400))
    if mon == "expansion":
        return check_expansion(case["text"], case["vec_seed"], res, n_random=case.get("n_random", 200), max_corner=case.get("max_corner", 400))
    if mon == "dispatch":
        return check_dispatch(case["text"], case["accs"], res)
    if mon == "tosa":
        return check_tosa(case, res)
    raise ValueError(f"unknown monitor {mon!r}")


# ------------------------------------------------------------------------------------------------
# shard driver
# ------------------------------------------------------------------------------------------------
CORPUS = [
    ("recognition", "tests/filecheck/transforms/convert-linalg-to-kernel.mlir"),
    ("expansion", "tests/filecheck/transforms/convert-kernel-to-linalg.mlir"),
    ("dispatch", "tests/filecheck/transforms/dispatch_kernels.mlir"),
]


def exhaustive_specs(tier):
    """thorough: every body of the boxes.  quick: every body of <=2 ops whose op-kind sequence is that of a kernel (the ones
    a recogniser has to decide on), every 4th of the others, every 2nd wiring of the extsi,extsi,muli,addi box."""
    quick = tier != "thorough"
    for i, s in enumerate(G.enumerate_small("i32", 2)):
        kinds = [k for k, _, _ in s["ops"]]
        if quick and kinds not in (["muli"], ["addi"], ["muli", "addi"]) and i % 4:
            continue
        yield "exh2:i32", s
    for i, s in enumerate(G.enumerate_mac_ext("i8", "i8", "i32")):
        if quick and i % 2:
            continue
        yield "exh:mac_ext:i8,i8,i32", s
    if not quick:
        for t in ("i8", "i16", "i64"):
            yield from ((f"exh2:{t}", s) for s in G.enumerate_small(t, 2))
        for a, b, r in (("i8", "i16", "i32"), ("i16", "i16", "i64"), ("i8", "i8", "i16"), ("i32", "i8", "i64")):
            yield from ((f"exh:mac_ext:{a},{b},{r}", s) for s in G.enumerate_mac_ext(a, b, r))


def run_shard(seed, shard, n_cases, tier):
    res = R.new_result()
    rng = random.Random(seed)
    ctx()
    nshards = TIERS[tier]["shards"]

    # corpus (authors' own inputs) on shard 0
    if shard == 0:
        for mon, rel in CORPUS:
            path = os.path.join(repo_path(), rel)
            if not os.path.exists(path):
                continue
            for chunk in split_file(path):
                R.bump(res, "corpus_cases")
                if mon == "recognition":
                    record(res, check_recognition(chunk, rng.getrandbits(32), res, family="corpus"))
                elif mon == "expansion":
                    record(res, check_expansion(chunk, rng.getrandbits(32), res))
                else:
                    record(res, check_dispatch(chunk, ["snax_alu", "snax_gemmx"], res))

    # (a) exhaustive boxes, split over the shards
    for i, (family, spec) in enumerate(exhaustive_specs(tier)):
        if i % nshards != shard:
            continue
        text = G.render_module(spec["args"], G.render_body_lines(spec))
        R.bump(res, "family:" + family)
        record(res, check_recognition(text, rng.getrandbits(32), res, family=family, n_random=60, max_corner=125))

    # (b) random recognition bodies
    for i in range(n_cases):
        c = G.gen_recognition_case(rng)
        text = G.render_recognition(c, "tensor" if rng.random() < 0.15 else "memref")
        R.bump(res, "family:" + c["family"].split(":")[0])
        for lb in c["labels"]:
            R.bump(res, "mutation:" + lb.split(":")[0])
        vs = check_recognition(text, rng.getrandbits(32), res, family=c["family"])
        record(res, vs)
        if shard == 0 and i < 2:
            R.sample(res, {"monitor": "recognition", "family": c["family"], "labels": c["labels"], "text": text})

    # (b2) several generics in one module: a canonical body with siblings of the same types and op kinds but another wiring (the pass
    # is applied once to the whole module, so anything it remembers from one generic can leak into the next); own generator
    # stream so the other families keep their cases
    rng_m = random.Random((seed << 8) ^ 0x18B2)
    for i in range(max(8, n_cases // 3)):
        c = G.gen_recognition_module(rng_m)
        text = G.render_recognition_module(c, "tensor" if rng_m.random() < 0.15 else "memref")
        fams = [f.split(":")[0] for f, _ in c["members"]]
        R.bump(res, "family:module")
        R.bump(res, "recognition_modules_with_several_generics")
        if any(f in ("sibling-wiring", "sibling-mutated") for f in fams):
            R.bump(res, "recognition_modules_canonical_with_sibling_wiring")
            ci = fams.index("canonical")
            if any(f in ("sibling-wiring", "sibling-mutated") for f in fams[ci + 1:]):
                R.bump(res, "recognition_modules_sibling_after_canonical")
            if any(f in ("sibling-wiring", "sibling-mutated") for f in fams[:ci]):
                R.bump(res, "recognition_modules_sibling_before_canonical")
        R.seen(res, "module_member_orders", fams)
        record(res, check_recognition(text, rng_m.getrandbits(32), res, family=c["family"], n_random=80, max_corner=200))
        if shard == 0 and i < 1:
            R.sample(res, {"monitor": "recognition", "family": c["family"], "members": fams, "text": text})

    # (c) expansion
    for i in range(n_cases // 2):
        c = G.gen_expansion_case(rng)
        text = G.render_expansion(c)
        vs = check_expansion(text, rng.getrandbits(32), res)
        record(res, vs)
        if shard == 0 and i < 2:
            R.sample(res, {"monitor": "expansion", "case": c, "text": text})

    # (d) dispatch
    for i in range(n_cases // 2):
        c = G.gen_dispatch_case(rng, _accs_available)
        text = G.render_dispatch(c)
        R.seen(res, "accelerator_orders", list(c["accs"]))
        vs = check_dispatch(text, c["accs"], res)
        record(res, vs)
        if shard == 0 and i < 1:
            R.sample(res, {"monitor": "dispatch", "accs": c["accs"], "text": text})

    # (e) tosa rescale / clamp -> kernel.rescale
    rng_t = random.Random(seed ^ 0x705A)
    for i in range(max(4, n_cases // 2)):
        record(res, check_tosa(gen_tosa_case(rng_t), res))
    return res
