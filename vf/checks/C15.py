"""C15 - Pipelined double-buffered loops equal the sequential loop (translation validation + epoch race detector).

G-pipe loop P (index computations, then 2..4 barrier-separated stages of copies / kernels over shared tile buffers) -> REAL
construct-pipeline, pipeline-duplicate-buffers, unroll-pipeline -> P_u.  Both are executed on the logical buffer machine (poisoned
allocations, unique symbols in the external buffers).
Oracle: (1) exactly-once: the multiset of stage-op events (op id, external regions read/written, digest of the data read) of P_u
equals that of P - every stage of every original iteration once, reading exactly what its predecessor stage of the same iteration
wrote (the symbols identify tile and producer); (2) final contents of the external buffers are equal for every trip count;
(3) no external region outside those P touched (follows from (1)); (4) within one barrier epoch of P_u no two operations of
different cores (copies = data mover, kernels = compute, generator tags) touch intersecting regions with a write: together with
(1)-(3) on the program-order execution this makes every interleaving permitted by the barriers equivalent.
"""
from __future__ import annotations

import random
from collections import Counter

from vf import runner as R
from vf.ctx import PassTimeout, make_ctx, parse, run_passes_limited, to_text
from vf.interp.buf_m import MRef, canon_contents, digest
from vf.interp.core import MachineError, StepBudget, Unsupported, UseBeforeDef
from vf.interp.trace_m import TraceMachine, _sid

LEVEL = "translation_validation"
RULE = (
    "G-pipe loops: index ops (subviews of 2-3 external buffers on the induction variable or an index computed from it, arith, loop-carried counter) followed by 2..5 stages separated by "
    "snax.cluster_sync_op; stage ops are memref.copy (data mover) and linalg.generic (compute) over tile buffers; buffer-to-stage "
    "assignments: producer/consumer in adjacent stages (double buffering), input-only, output-only, non-adjacent and multiple uses "
    "(refused by the compiler); lb in {0, 2, arg}, step in {1, 2, arg}, trip counts 0..7 via 4 runtime vectors per loop. "
    "Non-trivial: the pipeline was constructed and unrolled (pipeline ops gone, >=1 barrier in the result) and >=1 stage executed; "
    "distinct by (number of stages, stage kinds, buffer assignment, features, tile width, lb/step form, trip count)."
)
ASSUMPTIONS = [
    "xDSL 0.70 is used through the /verif/vf/compat.py shim instead of the commit the repo pins",
    "logical buffer machine (vf/interp/buf_m.py, trace_m.py): ins read, outs written; allocations poisoned; external buffers hold unique symbols",
    "P_u is executed in program order; race freedom inside every barrier epoch (copies on the data-mover core, kernels on the compute core, tags from the generator) "
    "extends the result to every interleaving the barriers permit",
    "exceptions raised by a pass (NotImplementedError for unsupported buffer assignments etc.) are rejections",
]
TIERS = {
    "quick": {"shards": 16, "cases": 200, "timeout": 600},
    "thorough": {"shards": 16, "cases": 10000, "timeout": 7200},
}
FLOORS = {
    "quick": {"programs": 700, "executions_compared": 1500, "stage_events_compared": 15000, "epoch_pairs_checked": 10000, "distinct_nontrivial": 80, "buffers_duplicated": 300},
    "thorough": {"programs": 10000, "executions_compared": 20000, "stage_events_compared": 250000, "distinct_nontrivial": 3000},
}

ID2 = "affine_map<(d0, d1) -> (d0, d1)>"
PAR = "#linalg.iterator_type<parallel>"


def gen_case(rng):
    ns = rng.choice([2, 3, 3, 4, 5])
    lb = rng.choice([("c", 0)] * 7 + [("c", 2), ("a", None)])
    st = rng.choice([("c", 1)] * 7 + [("c", 2), ("a", None)])
    ub = ("c", rng.randrange(0, 8)) if rng.random() < 0.45 else ("a", None)
    w = rng.choice([4, 4, 2, 8])
    TILE, EXT, SV = f"memref<1x{w}xi32>", f"memref<16x{w}xi32>", f"memref<1x{w}xi32, strided<[{w}, 1], offset: ?>>"
    feats = []
    # tile buffers
    nb = ns + 1
    lines = []
    for b in range(nb):
        lines.append(f'    %t{b} = memref.alloc() {{verif.id = "al{b}"}} : {TILE}')
    pre_loop, post_loop = [], []
    if rng.random() < 0.12:
        # a tile buffer initialised before the loop (value flows into the loop from outside)
        k = rng.randrange(nb)
        pre_loop.append("    %c15 = arith.constant 15 : index")
        pre_loop.append(f"    %sxp = memref.subview %X[%c15, 0] [1, {w}] [1, 1] : {EXT} to {SV}")
        pre_loop.append(f'    "memref.copy"(%sxp, %t{k}) {{verif.id = "pre", verif.kind = "dm"}} : ({SV}, {TILE}) -> ()')
        feats.append("live-in")
    if rng.random() < 0.12:
        # a tile buffer read after the loop (live-out: the last iteration's value must be found in the buffer the reader names)
        k = rng.randrange(nb - 1)
        post_loop.append("    %c15q = arith.constant 15 : index")
        post_loop.append(f"    %syp = memref.subview %Y[%c15q, 0] [1, {w}] [1, 1] : {EXT} to {SV}")
        post_loop.append(f'    "memref.copy"(%t{k}, %syp) {{verif.id = "post", verif.kind = "dm"}} : ({TILE}, {SV}) -> ()')
        feats.append("live-out")
    body = []
    row = "%i"
    if rng.random() < 0.15:
        # the row is computed from the induction variable by an index op (stays inside 0..15 for every vector: i mod 16 -> i)
        body.append("      %c0r = arith.constant 0 : index")
        body.append("      %row = arith.addi %i, %c0r : index")
        row = "%row"
        feats.append("computed-row")
    body.append(f"      %sx = memref.subview %X[{row}, 0] [1, {w}] [1, 1] : {EXT} to {SV}")
    body.append(f"      %sy = memref.subview %Y[{row}, 0] [1, {w}] [1, 1] : {EXT} to {SV}")
    two_in = rng.random() < 0.25
    if two_in:
        body.append(f"      %sw = memref.subview %W[{row}, 0] [1, {w}] [1, 1] : {EXT} to {SV}")
    if rng.random() < 0.3:
        body.append('      "test.op"(%i) {verif.id = "ix", verif.kind = "all"} : (index) -> ()')
    skel = []
    chain_ok = rng.random() < 0.8
    prev = "%sx"
    prev_t = SV
    vid = 0
    hostile = []
    for s in range(ns):
        last = s == ns - 1
        kind = "dm" if (s == 0 or last) and rng.random() < 0.85 else rng.choice(["dm", "compute"])
        if last:
            dst, dst_t = "%sy", SV
        else:
            dst, dst_t = f"%t{s}", TILE
        src, src_t = prev, prev_t
        if not chain_ok and s >= 1 and rng.random() < 0.4:
            # hostile assignment: read a buffer written two stages earlier / written twice
            k = rng.randrange(nb)
            src, src_t = f"%t{k}", TILE
            hostile.append((s, k))
        vid += 1
        if kind == "dm":
            body.append(f'      "memref.copy"({src}, {dst}) {{verif.id = "s{vid}", verif.kind = "dm"}} : ({src_t}, {dst_t}) -> ()')
            skel.append("d")
        elif two_in and rng.random() < 0.6:
            body.append(
                f'      "linalg.generic"({src}, %sw, {dst}) <{{indexing_maps = [{ID2}, {ID2}, {ID2}], iterator_types = [{PAR}, {PAR}], operandSegmentSizes = array<i32: 2, 1>}}> ({{\n'
                f"      ^bb0(%x{vid}: i32, %w{vid}: i32, %y{vid}: i32):\n        %r{vid} = arith.addi %x{vid}, %w{vid} : i32\n        \"linalg.yield\"(%r{vid}) : (i32) -> ()\n"
                f'      }}) {{verif.id = "s{vid}", verif.kind = "compute"}} : ({src_t}, {SV}, {dst_t}) -> ()'
            )
            skel.append("C")
        else:
            body.append(
                f'      "linalg.generic"({src}, {dst}) <{{indexing_maps = [{ID2}, {ID2}], iterator_types = [{PAR}, {PAR}], operandSegmentSizes = array<i32: 1, 1>}}> ({{\n'
                f"      ^bb0(%x{vid}: i32, %y{vid}: i32):\n        \"linalg.yield\"(%x{vid}) : (i32) -> ()\n"
                f'      }}) {{verif.id = "s{vid}", verif.kind = "compute"}} : ({src_t}, {dst_t}) -> ()'
            )
            skel.append("c")
        if rng.random() < 0.05 and not last:
            # a second op in the same stage (extra input-only copy from X)
            vid += 1
            body.append(f'      "memref.copy"(%sx, %t{nb - 1}) {{verif.id = "s{vid}", verif.kind = "dm"}} : ({SV}, {TILE}) -> ()')
            skel.append("+")
        if last and rng.random() < 0.04:
            # the last stage is not closed by a barrier: not the recognised shape, the loop must stay as it is
            feats.append("open-last-stage")
        else:
            body.append('      "snax.cluster_sync_op"() : () -> ()')
        prev, prev_t = dst, dst_t
    if rng.random() < 0.07:
        body.append('      "test.op"(%i) {verif.id = "tail", verif.kind = "all"} : (index) -> ()')
        feats.append("op-after-last-barrier")
    args = [f"%X: {EXT}", f"%Y: {EXT}"]
    if two_in:
        args.append(f"%W: {EXT}")
    pre = []
    if ub[0] == "a":
        args.append("%ub: index")
    else:
        pre.append(f"    %ub = arith.constant {ub[1]} : index")
    if lb[0] == "a":
        args.append("%lb: index")
        lbv = "%lb"
    else:
        pre.append(f"    %lb = arith.constant {lb[1]} : index")
        lbv = "%lb"
    if st[0] == "a":
        args.append("%st: index")
    else:
        pre.append(f"    %st = arith.constant {st[1]} : index")
    if rng.random() < 0.15:
        # another, ordinary loop in the same function that shares the bound / step values of the pipelined one
        feats.append("second-loop-shares-bounds")
        post_loop.append(f"    scf.for %j2 = {lbv} to %ub step %st {{")
        post_loop.append('      "test.op"(%j2) {verif.id = "obs2", verif.kind = "all"} : (index) -> ()')
        post_loop.append("      scf.yield")
        post_loop.append("    }")
    carried = rng.random() < 0.08
    if carried:
        # a loop-carried counter, observed after the loop
        feats.append("iter-arg")
        pre.append("    %cnt0 = arith.constant 100 : index")
        head = f"    %cnt = scf.for %i = {lbv} to %ub step %st iter_args(%k = %cnt0) -> (index) {{\n"
        # the counter update is an index op at the top of the body
        body.insert(0, "      %kn = arith.addi %k, %i : index")
        tail = "\n      scf.yield %kn : index\n    }\n" + '    "test.op"(%cnt) {verif.id = "cnt", verif.kind = "all"} : (index) -> ()\n'
    else:
        head = f"    scf.for %i = {lbv} to %ub step %st {{\n"
        tail = "\n      scf.yield\n    }\n"
    text = (
        "builtin.module {\n  func.func @main(" + ", ".join(args) + ") {\n" + "\n".join(pre + lines + pre_loop) + "\n"
        + head + "\n".join(body) + tail + ("\n".join(post_loop) + "\n" if post_loop else "") + "    func.return\n  }\n}\n"
    )
    return {
        "text": text, "ns": ns, "lb": lb, "st": st, "ub": ub, "skel": "".join(skel), "chain_ok": chain_ok, "argnames": [a.split(":")[0] for a in args],
        "feats": feats, "hostile": hostile, "w": w,
    }


def vectors(case, rng):
    out = []
    for trips in rng.sample(range(0, 8), 4):
        lb = case["lb"][1] if case["lb"][0] == "c" else rng.choice([0, 1, 3])
        st = case["st"][1] if case["st"][0] == "c" else rng.choice([1, 2, 3])
        ub = lb + trips * st - (rng.randrange(st) if trips and st > 1 and rng.random() < 0.4 else 0)
        if case["ub"][0] == "c":
            ub = case["ub"][1]
            trips = max(0, -(-(ub - lb) // st))
            if out:
                break
        if lb + max(trips - 1, 0) * st >= 16:
            continue
        v = {"%ub": ub, "%lb": lb, "%st": st, "trips": trips}
        out.append(v)
    out.sort(key=lambda v: -v["trips"])  # long runs first: a short dynamic run (known finding) must not hide them
    return out


class PipeMachine(TraceMachine):
    def __init__(self, module, **kw):
        super().__init__(module, **kw)
        self.epoch = 0
        self.stage_events = []
        self.acc = []
        self.handlers["memref.copy"] = self._copy
        self.handlers["linalg.generic"] = self._gen

    def ext(self, m):
        if m.root.kind == "arg":
            return (m.root.name, tuple(sorted(m.ids.reshape(-1).tolist())))
        return "internal"

    def on_access(self, op, mref, mode):
        k = _sid(op, "verif.kind")
        if k in ("dm", "compute"):
            root, ids = mref.region()
            self.acc.append((self.epoch, _sid(op), k, root, ids, mode))

    def _copy(self, op):
        src, dst = self.get(op.operands[0]), self.get(op.operands[1])
        self.stage_events.append((_sid(op), self.ext(src), self.ext(dst), digest(canon_contents(src.data))))
        self._h_copy(op)

    def _gen(self, op):
        ins, outs = self.acc_operands(op)
        iv = [self.get(o) for o in ins]
        ov = [self.get(o) for o in outs]
        self.stage_events.append((_sid(op), tuple(self.ext(m) for m in iv), tuple(self.ext(m) for m in ov), digest([canon_contents(m.data) for m in iv])))
        self._h_accop(op)

    def on_barrier(self, op):
        super().on_barrier(op)
        self.epoch += 1


def execute(module, case, vec):
    m = PipeMachine(module, step_budget=200_000)
    f = m.funcs["main"]
    args = []
    for i, a in enumerate(f.body.blocks[0].args):
        nm = case["argnames"][i]
        if nm in ("%X", "%Y", "%W"):
            args.append(m.arg_buffer(i, [s for s in a.type.get_shape()]))
        else:
            args.append(vec[nm])
    m.run_func("main", args)
    ext = {n: canon_contents(r.data) for n, r in m.roots.items() if r.kind == "arg"}
    return m, ext


def epoch_races(m, res):
    by = {}
    for a in m.acc:
        by.setdefault(a[0], []).append(a)
    for ep, lst in by.items():
        for i, a1 in enumerate(lst):
            for a2 in lst[i + 1 :]:
                if a1[2] == a2[2]:
                    continue
                R.bump(res, "epoch_pairs_checked")
                if a1[3] == a2[3] and (a1[5] == "W" or a2[5] == "W") and (a1[4] & a2[4]):
                    return f"in barrier epoch {ep} the {a1[2]} op {a1[1]} ({a1[5]}) and the {a2[2]} op {a2[1]} ({a2[5]}) touch {len(a1[4] & a2[4])} common elements of {a1[3].split('#')[0]}"
    return None


_ctx = None


def run_case(case, res):
    global _ctx
    if _ctx is None:
        _ctx = make_ctx()
    c = _ctx
    out = []
    res["evaluations"] += 1
    try:
        p0 = parse(c, case["text"])
        p0.verify()
    except Exception as e:
        R.bump(res, "generator_invalid")
        R.reject(res, e)
        return out
    pu = p0.clone()
    try:
        run_passes_limited(c, pu, "construct-pipeline", 10)
        constructed = any(op.name == "pipeline.pipeline" for op in pu.walk())
        run_passes_limited(c, pu, "pipeline-duplicate-buffers,unroll-pipeline", 10)
        pu.verify()
    except PassTimeout:
        R.reject(res, "PassTimeout")
        return out
    except Exception as e:
        R.reject(res, e)
        return out
    if any(op.name.startswith("pipeline.") for op in pu.walk()):
        R.reject(res, "pipeline-ops-left")
        return out
    if not constructed:
        # the loop was left as it is (unused index ops may have been removed: not a pipelined form)
        R.bump(res, "loop_not_recognised")
        for ft in case.get("feats", ()):
            if ft in ("open-last-stage", "op-after-last-barrier", "iter-arg"):
                R.bump(res, "declined:" + ft)
        return out
    res["programs"] += 1
    nalloc0 = sum(1 for op in p0.walk() if op.name == "memref.alloc")
    nalloc1 = sum(1 for op in pu.walk() if op.name == "memref.alloc")
    R.bump(res, "buffers_duplicated", max(0, nalloc1 - nalloc0))
    for vec in case["vecs"]:
        try:
            m0, e0 = execute(p0, case, vec)
        except (Unsupported, MachineError, StepBudget, UseBeforeDef) as e:
            R.bump(res, "oracle_skipped:" + type(e).__name__)
            continue
        info = {"trips": vec["trips"], "lb": vec["%lb"], "step": vec["%st"], "stages": case["ns"]}
        cs = {**case, "vecs": [vec]}
        try:
            m1, e1 = execute(pu, case, vec)
        except (MachineError, UseBeforeDef, StepBudget) as e:
            out.append({"kind": "pipelined-program-fails", "detail": f"{type(e).__name__}: {e} (lb={vec['%lb']} step={vec['%st']} trips={vec['trips']})"[:300], "case": cs, "info": info})
            return out
        except Unsupported as e:
            R.bump(res, "oracle_skipped:Unsupported")
            continue
        res["compared"] += 1
        R.bump(res, "executions_compared")
        R.bump(res, "stage_events_compared", len(m0.stage_events))
        c0, c1 = Counter(m0.stage_events), Counter(m1.stage_events)
        # observers outside the index computations (after the stages, after the loop): same multiset of observations
        o0 = Counter(e for e in m0.trace if e[0] == "T" and e[1] in ("tail", "cnt", "obs2"))
        o1 = Counter(e for e in m1.trace if e[0] == "T" and e[1] in ("tail", "cnt", "obs2"))
        bad = None
        if o0 != o1:
            bad = f"observations outside the stages differ: missing {list((o0 - o1).items())[:2]} unexpected {list((o1 - o0).items())[:2]}"
        elif c0 != c1:
            miss = list((c0 - c1).items())[:2]
            extra = list((c1 - c0).items())[:2]
            bad = f"stage executions differ: missing {[(k[0], k[1] if k[1] != 'internal' else '', n) for k, n in miss]} unexpected {[(k[0], k[1] if k[1] != 'internal' else '', n) for k, n in extra]}"
        elif e0 != e1:
            bad = "final contents of the external buffers differ"
        if bad:
            out.append({"kind": "pipelined-loop-differs-from-sequential-loop", "detail": bad + f" (lb={vec['%lb']} step={vec['%st']} trips={vec['trips']} stages={case['ns']})", "case": cs, "info": info})
            return out
        race = epoch_races(m1, res)
        if race and epoch_races(m0, R.new_result()):
            # the sequential loop itself is racy under its own barriers: nothing to preserve
            R.bump(res, "original_racy_skipped")
            race = None
        if race:
            out.append({"kind": "race-inside-barrier-epoch", "detail": race + f" (lb={vec['%lb']} step={vec['%st']} trips={vec['trips']})", "case": cs, "info": info})
            return out
        if m0.stage_events:
            R.nontrivial(res, case["ns"], case["skel"], case["lb"][0], case["st"][0], vec["trips"], tuple(case.get("feats", ())), tuple(map(tuple, case.get("hostile", ()))), case.get("w"))
            for ft in case.get("feats", ()):
                R.bump(res, "feature:" + ft)
    return out


def attribute(v):
    """Known finding by mechanism: predicate (dynamic upper bound, fewer iterations than stages - 1) + counterfactual guard."""
    info = v.get("info") or {}
    case = v.get("case")
    if case and case.get("ub", ("a",))[0] == "a" and info and info["trips"] < info["stages"] - 1:
        from vf.counterfactual.pipeline_guard import construct_pipeline_requires_constant_trip_count

        with construct_pipeline_requires_constant_trip_count():
            again = run_case(case, R.new_result())
        if not again:
            return "pipeline-dynamic-trip-count-below-stages"
    return None


def run_shard(seed, shard, n_cases, tier):
    res = R.new_result()
    rng = random.Random(seed)
    for i in range(n_cases):
        case = gen_case(rng)
        case["vecs"] = vectors(case, rng)
        for v in run_case(case, res):
            R.violation(res, v["kind"], v["detail"], v["case"], attribute(v), info=v.get("info"))
        if i < 2 and shard == 0:
            R.sample(res, {"module": case["text"], "vectors": case["vecs"]})
    return res


def replay(case):
    return run_case(case, R.new_result())
