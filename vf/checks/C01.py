"""C01 - Config deduplication never changes what a launch observes (translation validation).

P --accfg-trace-states--> P1 --accfg-dedup{hoist}--> P2 ; P, P1, P2 executed on the accfg machine for several
runtime input vectors; launch/await sequences and the register snapshot latched by every launch are compared.
"""
from __future__ import annotations

import random

from vf import runner as R
from vf.checks._accfg_common import (
    ASSUME_COMMON,
    AccfgMachine,
    MachineError,
    StepBudget,
    Unsupported,
    UseBeforeDef,
    changed,
    compare_launch_traces,
    gen_program,
    input_vectors,
    make_ctx,
    parse,
    stage,
    to_text,
)
from vf.corpus import accfg_corpus, assign_ids
from vf.passmon import count_pattern_firings

LEVEL = "translation_validation"
RULE = (
    "G-accfg programs (full-field setup;launch;await composed by random Seq/For/If/Call/arith trees, 1-2 accelerators, "
    "2-5 fields, deliberate SSA value reuse) plus the accfg filecheck corpus; each run through the real accfg-trace-states "
    "and accfg-dedup (hoist on and off) and executed before/after on the accfg machine for up to 8 runtime vectors "
    "(trip counts from {0,1,2,3,5}, branch bits, unique markers). Non-trivial: dedup changed the IR and >=1 launch "
    "executed; distinct by (control-flow skeleton, set of dedup patterns that fired)."
)
ASSUMPTIONS = ASSUME_COMMON
TIERS = {
    "quick": {"shards": 16, "cases": 110, "timeout": 600},
    "thorough": {"shards": 16, "cases": 3500, "timeout": 7200},
}
FLOORS = {
    "quick": {"programs": 600, "launches_compared": 20000, "distinct_nontrivial": 200, "vectors_executed": 3000},
    "thorough": {"programs": 20000, "launches_compared": 600000, "distinct_nontrivial": 5000},
}

_ctx = None


def ctx():
    global _ctx
    if _ctx is None:
        _ctx = make_ctx()
        from snaxc.transforms import accfg_dedup as D

        count_pattern_firings(
            [D.SimplifyRedundantSetupCalls, D.PullSetupOpsOutOfLoops, D.MergeSetupOps, D.ElideEmptySetupOps, D.HoistSetupCallsIntoConditionals],
            _fired,
        )
    return _ctx


_fired: dict = {}


def run_one(text, argnames, vecs, res, skeleton="", origin="gen", fname="main"):
    """Run one program through the pipeline and compare.  Returns list of violation dicts recorded."""
    c = ctx()
    out = []
    try:
        p0 = parse(c, text)
        p0.verify()
        assign_ids(p0)
    except Exception as e:
        R.bump(res, "generator_invalid")
        return out
    R.bump(res, "cases_generated")
    res["evaluations"] += 1
    p1 = stage(c, p0, "accfg-trace-states", res)
    if p1 is None:
        return out
    variants = []
    for spec in ("accfg-dedup", "accfg-dedup{hoist=false}"):
        fired_before = dict(_fired)
        p2 = stage(c, p1, spec, res)
        if p2 is None:
            continue
        fired = tuple(sorted(k for k in _fired if _fired[k] != fired_before.get(k, 0)))
        try:
            p2.verify()
        except Exception as e:
            v = {"kind": "verify-failed-after-dedup", "detail": str(e)[:300], "case": {"text": text, "fname": fname, "args": argnames, "vec": None, "spec": spec}}
            out.append(v)
            continue
        variants.append((spec, p2, fired))
    if not variants:
        return out
    res["programs"] += 1
    any_launch = False
    for trips, vec in vecs:
        args = [vec[a] for a in argnames]
        try:
            e0 = AccfgMachine(p0, step_budget=400_000)
            e0.run_func(fname, args)
            e1 = AccfgMachine(p1, step_budget=400_000)
            e1.run_func(fname, args)
        except (StepBudget, Unsupported, MachineError) as e:
            R.bump(res, "oracle_skipped:" + type(e).__name__)
            continue
        R.bump(res, "vectors_executed")
        R.seen(res, "trip_vectors", list(trips))
        nl = sum(1 for e in e1.events if e[0] == "L")
        if nl:
            any_launch = True
        d = compare_launch_traces(e0.events, e1.events)
        res["compared"] += 1
        if d:
            out.append({"kind": "trace-states-changed-launch-trace", "detail": d, "case": {"text": text, "fname": fname, "args": argnames, "vec": vec, "spec": "accfg-trace-states"}})
            break
        stop = False
        for spec, p2, fired in variants:
            try:
                e2 = AccfgMachine(p2, step_budget=400_000)
                e2.run_func(fname, args)
                d = compare_launch_traces(e1.events, e2.events)
            except UseBeforeDef as e:
                d = "use-before-def in deduplicated program: " + str(e)[:200]
            except (StepBudget, MachineError) as e:
                d = f"deduplicated program failed to execute: {type(e).__name__} {e}"
            res["compared"] += 1
            R.bump(res, "launches_compared", nl)
            if d:
                out.append({"kind": "launch-observes-different-config", "detail": f"[{spec}] {d}", "case": {"text": text, "fname": fname, "args": argnames, "vec": vec, "spec": spec}})
                stop = True
                break
        if stop:
            break
    for spec, p2, fired in variants:
        if any_launch and changed(p1, p2):
            R.nontrivial(res, skeleton or text, fired)
            R.bump(res, "nontrivial_cases")
    return out


def run_shard(seed, shard, n_cases, tier):
    res = R.new_result()
    rng = random.Random(seed)
    c = ctx()
    # corpus seeds on shard 0
    if shard == 0:
        for text, fname, argn, vecs, name in accfg_corpus(rng, c):
            for v in run_one(text, argn, vecs, res, skeleton="corpus:" + name, origin="corpus", fname=fname):
                R.violation(res, v["kind"], v["detail"], v["case"], attribute(v))
            R.bump(res, "corpus_cases")
    for i in range(n_cases):
        prog = gen_program(rng)
        vecs = input_vectors(prog, rng, 8)
        argn = [a.name for a in prog.args]
        vs = run_one(prog.text, argn, vecs, res, skeleton=prog.skeleton)
        for f in prog.features:
            R.bump(res, "feature:" + f)
        R.seen(res, "skeletons", prog.skeleton, cap=300)
        for v in vs:
            R.violation(res, v["kind"], v["detail"], v["case"], attribute(v))
        if i < 2 and shard == 0:
            R.sample(res, {"program": prog.text, "vectors": [vec for _, vec in vecs[:2]]})
    for k, v in _fired.items():
        R.bump(res, k, v)
    return res


def attribute(v):
    """Known-finding attribution (mechanism predicates + counterfactuals).  None = unattributed."""
    return None


def replay(case):
    res = R.new_result()
    vec = case.get("vec")
    argn = case["args"]
    if vec is None:
        vecs = []
    else:
        vecs = [((), vec)]
    return run_one(case["text"], argn, vecs, res, fname=case.get("fname", "main"))
