"""C19 - Canonical forms and alternative representations denote the same object (exploration).

Differential monitors on the *real* functions, one generated input at a time:

 canon_expr / canon_map : canonicalize_expr / canonicalize_map     eval equal on a box + random points, idempotent,
                                                                    terminates (RecursionError / watchdog = violation)
 affine_transform       : AffineTransform.from_affine_map / to_affine_map / compose / eval   vs direct integer arithmetic
 access_pattern         : AccessPattern.canonicalize / inner_dims   same value sequence / equals the restriction
 stride_pattern         : StridePattern.canonicalize                same temporal address sequence, same spatial set,
                          print -> parse                            field-wise equal
 pack_bitlist           : emitted arith ops interpreted             == OR_i (v_i << o_i) mod 2^width
 streamer_text          : StreamerConfigurationAttr print -> parse  structurally equal (type, flags, spatial dims,
                                                                    option names, system type)
The oracle side (vf/gen/affine_gen.py evaluators, integer arithmetic below) never calls the function under test.
"""
from __future__ import annotations

import itertools
import random
import sys

from vf import runner as R
from vf.gen import affine_gen as G

LEVEL = "exploration"
RULE = (
    "Seeded generators (vf/gen/affine_gen.py): affine expressions over +,*,floordiv,mod built with the raw constructors "
    "(depth<=4, 1-3 dims, constants on either side, nested additions on either side, x+0, x*1, x*0, x floordiv 1, x mod 1, "
    "constant-valued subtrees, positive literal divisors), maps of 1-3 such expressions; integer matrices/vectors "
    "(|a|<=9, |b|<=20) and linear expression trees; access patterns (1-5 dims, unit bounds, dynamic bounds); stride "
    "patterns (0-5 temporal dims, zero/unit bounds, zero/negative strides, mergeable neighbours, 0-3 spatial strides); "
    "bit-field lists (length 0..9, widths 8/16/32/64, int / SSA / Operation inputs); streamer configurations (1-5 "
    "streamers, all option names of STREAMER_OPT_MAP, reg/xdma). Points: full box -3..6 for <=2 dims, -2..4 for 3 dims, "
    "plus random points |x|<=1000. Non-trivial: the real function changed the object (canonical form differs from the "
    "input / matrix non-zero / list length>=2 / ...); distinct by structural skeleton."
)
ASSUMPTIONS = [
    "xDSL 0.70 is used through the /verif/vf/compat.py shim instead of the commit the repo pins (its AffineExpr operators simplify)",
    "affine semantics: floordiv rounds to -inf, mod is non-negative for positive divisors; non-positive divisors are out of domain",
    "stride patterns: index 0 is the innermost temporal loop (convert_dart_to_snax_stream.py:47); spatial bounds are a hardware "
    "property, a fixed unroll of 2 and 3 per spatial dim is used on both sides",
    "arith semantics of vf/interp/core.py (shli/ori on unsigned two's complement words); shift amounts < width",
    "exceptions raised by the function under test (AssertionError, ValueError, NotImplementedError, ...) are rejections, except "
    "RecursionError / watchdog expiry in canonicalize_* which are violations of termination",
    "zero bounds in access patterns and semi-affine products (dim*dim) are out of domain and not generated",
]
TIERS = {
    "quick": {"shards": 16, "cases": 3400, "timeout": 600},
    "thorough": {"shards": 16, "cases": 500000, "timeout": 7200},
}
FLOORS = {
    "quick": {
        "programs": 30000,
        "distinct_nontrivial": 8000,
        "calls:canonicalize_expr": 6500,
        "evals:canonicalize_expr": 900000,
        "calls:canonicalize_map": 1300,
        "calls:AffineTransform.from_affine_map": 4500,
        "calls:AffineTransform.to_affine_map": 2000,
        "calls:AffineTransform.compose": 2000,
        "calls:AffineTransform.eval": 300000,
        "calls:AccessPattern.canonicalize": 2000,
        "calls:AccessPattern.inner_dims": 6000,
        "calls:StridePattern.canonicalize": 2000,
        "calls:StridePattern.print_parse": 2000,
        "calls:pack_bitlist": 2000,
        "calls:StreamerConfigurationAttr.print_parse": 1300,
        "idempotence_checks": 12000,
    },
    "thorough": {
        "programs": 900000,
        "distinct_nontrivial": 60000,
        "calls:canonicalize_expr": 195000,
        "evals:canonicalize_expr": 27000000,
        "calls:canonicalize_map": 39000,
        "calls:AffineTransform.from_affine_map": 135000,
        "calls:AffineTransform.to_affine_map": 60000,
        "calls:AffineTransform.compose": 60000,
        "calls:AffineTransform.eval": 9000000,
        "calls:AccessPattern.canonicalize": 60000,
        "calls:AccessPattern.inner_dims": 180000,
        "calls:StridePattern.canonicalize": 60000,
        "calls:StridePattern.print_parse": 60000,
        "calls:pack_bitlist": 60000,
        "calls:StreamerConfigurationAttr.print_parse": 39000,
        "idempotence_checks": 360000,
    },
}

# weights of the monitor kinds in the case schedule
KINDS = (
    ("canon_expr", 10),
    ("canon_map", 2),
    ("affine_transform", 3),
    ("access_pattern", 3),
    ("stride_pattern", 3),
    ("pack_bitlist", 3),
    ("streamer_text", 2),
)

_ctx = None


def ctx():
    global _ctx
    if _ctx is None:
        from vf.ctx import make_ctx

        _ctx = make_ctx()
    return _ctx


def V(kind, detail, case, **info):
    return {"kind": kind, "detail": detail, "case": case, "info": info}


# ----------------------------------------------------------------------------------------------------------------
# canonicalize_expr / canonicalize_map
# ----------------------------------------------------------------------------------------------------------------
def points_for(nd, rng, extra=()):
    if nd <= 2:
        pts = list(G.box_points(nd, -3, 6))
    else:
        pts = list(G.box_points(nd, -2, 4))
    pts += G.random_points(rng, nd, 6)
    pts += [tuple(p) for p in extra]
    return pts


class _Limited:
    """Run one call of the function under test with a low recursion limit and a wall-clock watchdog."""

    def __init__(self, seconds=5, depth=1500):
        self.seconds, self.depth = seconds, depth

    def __enter__(self):
        from vf.ctx import time_limit

        self.old = sys.getrecursionlimit()
        sys.setrecursionlimit(self.depth)
        self.tl = time_limit(self.seconds)
        self.tl.__enter__()

    def __exit__(self, *a):
        self.tl.__exit__(*a)
        sys.setrecursionlimit(self.old)
        return False


def _canon_one(j, nd, pts, res, case, fn_name, canon):
    """Monitor one expression.  Returns (violations, canonical_json | None)."""
    from vf.ctx import PassTimeout

    out = []
    e = G.build_expr(j)
    R.bump(res, f"calls:{fn_name}")
    try:
        with _Limited():
            c = canon(e)
    except RecursionError:
        return [V("canonicalize-does-not-terminate", f"{fn_name}({e}) exceeds the recursion limit", case)], None
    except PassTimeout:
        return [V("canonicalize-does-not-terminate", f"{fn_name}({e}) does not return within 5 s", case)], None
    except Exception as x:  # refusal
        R.reject(res, x)
        return [], None
    try:
        cj = G.expr_to_json(c)
    except Exception as x:
        return [V("canonical-form-malformed", f"{fn_name}({e}) returned {c!r}: {x}", case)], None
    f0 = G.compile_json(j)
    f1 = G.compile_json(cj)
    n = 0
    for pt in pts:
        try:
            a = f0(pt)
        except G.DivByNonPositive:
            R.bump(res, "points_out_of_domain")
            continue
        try:
            b = f1(pt)
        except (G.DivByNonPositive, ZeroDivisionError):
            b = "division by a non-positive value"
        n += 1
        if a != b:
            out.append(V("canonical-form-evaluates-differently", f"{e} -> {c}: at {pt} original = {a}, canonical = {b}", {**case, "point": list(pt)}))
            break
    R.bump(res, f"evals:{fn_name}", n)
    res["compared"] += n
    # idempotence
    try:
        with _Limited():
            c2 = canon(c)
        R.bump(res, "idempotence_checks")
        if G.expr_to_json(c2) != cj:
            out.append(V("canonicalize-not-idempotent", f"{e} -> {c} -> {c2}", case))
    except RecursionError:
        out.append(V("canonicalize-does-not-terminate", f"{fn_name}({c}) (second application) exceeds the recursion limit", case))
    except PassTimeout:
        out.append(V("canonicalize-does-not-terminate", f"{fn_name}({c}) (second application) does not return within 5 s", case))
    except Exception as x:
        R.reject(res, x)
    return out, cj


def mon_canon_expr(case, res, rng=None):
    from snaxc.util.canonicalize_affine import canonicalize_expr

    rng = rng or random.Random(0)
    j, nd = case["expr"], case["ndims"]
    pts = points_for(nd, rng, [case["point"]] if case.get("point") else ())
    out, cj = _canon_one(j, nd, pts, res, case, "canonicalize_expr", canonicalize_expr)
    if cj is not None:
        res["programs"] += 1
        if cj != j:
            R.nontrivial(res, "expr", G.expr_shape(j))
            R.bump(res, "canonical_form_differs_from_input")
        for o in sorted(G.ops_used(j)):
            R.bump(res, f"expr_with:{o}")
        R.bump(res, f"expr_depth:{G.expr_depth(j)}")
    return out


def mon_canon_map(case, res, rng=None):
    from xdsl.ir.affine import AffineMap

    from snaxc.util.canonicalize_affine import canonicalize_map

    rng = rng or random.Random(0)
    nd, exprs = case["ndims"], case["exprs"]
    pts = points_for(nd, rng, [case["point"]] if case.get("point") else ())
    out = []
    m = AffineMap(nd, 0, tuple(G.build_expr(j) for j in exprs))
    R.bump(res, "calls:canonicalize_map")
    from vf.ctx import PassTimeout

    try:
        with _Limited():
            cm = canonicalize_map(m)
    except RecursionError:
        return [V("canonicalize-does-not-terminate", f"canonicalize_map({m}) exceeds the recursion limit", case)]
    except PassTimeout:
        return [V("canonicalize-does-not-terminate", f"canonicalize_map({m}) does not return within 5 s", case)]
    except Exception as x:
        R.reject(res, x)
        return out
    res["programs"] += 1
    if cm.num_dims != nd or cm.num_symbols != 0 or len(cm.results) != len(exprs):
        return [V("canonical-map-signature-changed", f"{m} -> {cm}", case)]
    cjs = [G.expr_to_json(r) for r in cm.results]
    n = 0
    for k, (j, cj) in enumerate(zip(exprs, cjs)):
        f0, f1 = G.compile_json(j), G.compile_json(cj)
        for pt in pts:
            try:
                a = f0(pt)
            except G.DivByNonPositive:
                continue
            try:
                b = f1(pt)
            except (G.DivByNonPositive, ZeroDivisionError):
                b = "division by a non-positive value"
            n += 1
            if a != b:
                out.append(V("canonical-form-evaluates-differently", f"map {m} -> {cm}: result {k} at {pt}: {a} vs {b}", {**case, "point": list(pt)}))
                break
    R.bump(res, "evals:canonicalize_map", n)
    res["compared"] += n
    try:
        with _Limited():
            cm2 = canonicalize_map(cm)
        R.bump(res, "idempotence_checks")
        if [G.expr_to_json(r) for r in cm2.results] != cjs:
            out.append(V("canonicalize-not-idempotent", f"{m} -> {cm} -> {cm2}", case))
    except RecursionError:
        out.append(V("canonicalize-does-not-terminate", f"canonicalize_map({cm}) (second application) exceeds the recursion limit", case))
    except Exception as x:
        R.reject(res, x)
    if cjs != exprs:
        R.nontrivial(res, "map", tuple(G.expr_shape(j) for j in exprs))
    return out


# ----------------------------------------------------------------------------------------------------------------
# AffineTransform
# ----------------------------------------------------------------------------------------------------------------
def _mat(T):
    """Read the data of an AffineTransform as python ints."""
    return [[int(x) for x in row] for row in T.A.tolist()], [int(x) for x in T.b.tolist()]


def mon_affine_transform(case, res, rng=None):
    import numpy as np
    from xdsl.ir.affine import AffineMap

    from snaxc.ir.dart.affine_transform import AffineTransform

    rng = rng or random.Random(0)
    out = []
    nd = case["ndims"]
    pts = points_for(nd, rng)
    # (a) from_affine_map on a linear expression map: unit responses vs evaluation everywhere
    exprs = case["exprs"]
    m = AffineMap(nd, 0, tuple(G.build_expr(j) for j in exprs))
    R.bump(res, "calls:AffineTransform.from_affine_map")
    T = None
    try:
        T = AffineTransform.from_affine_map(m)
    except Exception as x:
        R.reject(res, x)
    if T is not None:
        res["programs"] += 1
        A, b = _mat(T)
        fs = [G.compile_json(j) for j in exprs]
        n = 0
        for pt in pts:
            want = [f(pt) for f in fs]
            got = G.mat_apply(A, b, pt)
            R.bump(res, "calls:AffineTransform.eval")
            got_eval = [int(x) for x in T.eval(np.array(pt, dtype=np.int64)).tolist()]
            n += 1
            if want != got or want != got_eval:
                out.append(V("affine-transform-differs-from-map", f"from_affine_map({m}) = A{A} b{b}: at {pt} map = {want}, A@x+b = {got}, eval = {got_eval}", case))
                break
        R.bump(res, "evals:AffineTransform.from_affine_map", n)
        res["compared"] += n
        if any(any(r) for r in A):
            R.nontrivial(res, "from_map", tuple(G.expr_shape(j) for j in exprs))
    # (a') a map with floordiv/mod must be refused or still agree everywhere
    if case.get("nonlinear") is not None:
        jn = case["nonlinear"]
        mn = AffineMap(nd, 0, (G.build_expr(jn),))
        R.bump(res, "calls:AffineTransform.from_affine_map")
        try:
            Tn = AffineTransform.from_affine_map(mn)
        except Exception as x:
            R.bump(res, "nonlinear_map_refused")
            Tn = None
        if Tn is not None:
            An, bn = _mat(Tn)
            f = G.compile_json(jn)
            for pt in pts:
                if [f(pt)] != G.mat_apply(An, bn, pt):
                    out.append(V("affine-transform-differs-from-map", f"from_affine_map({mn}) accepted a non-linear map: A{An} b{bn} differs at {pt}", case))
                    break
    # (b) to_affine_map and back
    A1, b1 = case["A1"], case["b1"]
    T1 = AffineTransform(np.array(A1, dtype=np.int64).reshape(len(A1), nd), np.array(b1, dtype=np.int64))
    R.bump(res, "calls:AffineTransform.to_affine_map")
    try:
        m1 = T1.to_affine_map()
        res["programs"] += 1
        if m1.num_dims != nd or len(m1.results) != len(A1):
            out.append(V("affine-map-differs-from-transform", f"A{A1} b{b1} -> {m1}: wrong signature", case))
        else:
            fs = [G.compile_json(G.expr_to_json(r)) for r in m1.results]
            n = 0
            for pt in pts:
                n += 1
                if [f(pt) for f in fs] != G.mat_apply(A1, b1, pt):
                    out.append(V("affine-map-differs-from-transform", f"A{A1} b{b1} -> {m1}: at {pt} map = {[f(pt) for f in fs]}, A@x+b = {G.mat_apply(A1, b1, pt)}", case))
                    break
            R.bump(res, "evals:AffineTransform.to_affine_map", n)
            res["compared"] += n
            R.bump(res, "calls:AffineTransform.from_affine_map")
            Tb = AffineTransform.from_affine_map(m1)
            if _mat(Tb) != (A1, b1):
                out.append(V("affine-transform-roundtrip-differs", f"A{A1} b{b1} -> {m1} -> A{_mat(Tb)[0]} b{_mat(Tb)[1]}", case))
            if any(any(r) for r in A1):
                R.nontrivial(res, "to_map", len(A1), nd, tuple(tuple(1 if x else 0 for x in r) for r in A1))
    except Exception as x:
        R.reject(res, x)
    # (c) compose: T1 o T2
    A2, b2 = case["A2"], case["b2"]
    k = len(A2)  # T2: nd2 -> k ; T1 must take k inputs: use T1' = first k columns... instead build T0: k -> r
    A0, b0 = case["A0"], case["b0"]
    nd2 = case["ndims2"]
    T0 = AffineTransform(np.array(A0, dtype=np.int64).reshape(len(A0), k), np.array(b0, dtype=np.int64))
    T2 = AffineTransform(np.array(A2, dtype=np.int64).reshape(k, nd2), np.array(b2, dtype=np.int64))
    R.bump(res, "calls:AffineTransform.compose")
    try:
        Tc = T0.compose(T2)
        res["programs"] += 1
        Ac, bc = _mat(Tc)
        pts2 = points_for(nd2, rng)
        n = 0
        batch = np.array(pts2, dtype=np.int64).reshape(len(pts2), nd2)
        R.bump(res, "calls:AffineTransform.eval")
        got_batch = Tc.eval(batch).tolist()
        for pt, gb in zip(pts2, got_batch):
            want = G.mat_apply(A0, b0, G.mat_apply(A2, b2, pt))
            n += 1
            if want != G.mat_apply(Ac, bc, pt) or want != [int(x) for x in gb]:
                out.append(V("compose-differs-from-sequential-application", f"T0=A{A0} b{b0}, T2=A{A2} b{b2}: at {pt} T0(T2(x)) = {want}, composed = {G.mat_apply(Ac, bc, pt)}, batch eval = {gb}", case))
                break
        R.bump(res, "evals:AffineTransform.compose", n)
        res["compared"] += n
        R.nontrivial(res, "compose", len(A0), k, nd2)
    except Exception as x:
        R.reject(res, x)
    return out


# ----------------------------------------------------------------------------------------------------------------
# AccessPattern.canonicalize / inner_dims
# ----------------------------------------------------------------------------------------------------------------
def _seq(A, b, bounds):
    return [tuple(G.mat_apply(A, b, idx)) for idx in itertools.product(*[range(n) for n in bounds])]


def mon_access_pattern(case, res, rng=None):
    import numpy as np

    from snaxc.ir.dart.access_pattern import SchedulePattern, TemplatePattern
    from snaxc.ir.dart.affine_transform import AffineTransform

    out = []
    bounds, A, b = case["bounds"], case["A"], case["b"]
    nd = len(bounds)
    cls = TemplatePattern if (None in bounds or case.get("template")) else SchedulePattern
    T = AffineTransform(np.array(A, dtype=np.int64).reshape(len(A), nd), np.array(b, dtype=np.int64))
    try:
        P = cls(bounds, T)
    except Exception as x:
        R.reject(res, x)
        return out
    R.bump(res, "calls:AccessPattern.canonicalize")
    try:
        C = P.canonicalize()
    except Exception as x:
        R.reject(res, x)
        C = None
    if C is not None:
        res["programs"] += 1
        Ac, bc = _mat(C.pattern)
        cb = list(C.bounds)
        if len(cb) != len(Ac[0]) if Ac else False:
            out.append(V("access-pattern-canonicalize-malformed", f"bounds {cb} vs matrix {Ac}", case))
        else:
            for rt in case.get("runtime", [3]):
                inst = [rt if x is None else x for x in bounds]
                inst_c = [rt if x is None else x for x in cb]
                s0 = _seq(A, b, inst)
                s1 = _seq(Ac, bc, inst_c)
                res["compared"] += 1
                R.bump(res, "evals:AccessPattern.canonicalize", len(s0))
                if s0 != s1:
                    out.append(V("access-pattern-canonicalize-changes-accesses", f"bounds {bounds} A{A} b{b} -> bounds {cb} A{Ac} b{bc} (dynamic bound = {rt}): access sequences differ ({len(s0)} vs {len(s1)} accesses)", case))
                    break
            if type(C) is not type(P):
                out.append(V("access-pattern-canonicalize-changes-class", f"{type(P).__name__} -> {type(C).__name__}", case))
            try:
                C2 = C.canonicalize()
                R.bump(res, "idempotence_checks")
                if list(C2.bounds) != cb or _mat(C2.pattern) != (Ac, bc):
                    out.append(V("canonicalize-not-idempotent", f"access pattern bounds {bounds}: {cb} -> {list(C2.bounds)}", case))
            except Exception as x:
                R.reject(res, x)
            if len(cb) != nd:
                R.nontrivial(res, "access_canon", tuple(1 if x == 1 else (0 if x is None else 2) for x in bounds), len(A))
    # inner_dims(k): equals the restriction to the innermost k dims with the outer dims at 0
    for k in range(1, nd + 1):
        R.bump(res, "calls:AccessPattern.inner_dims")
        try:
            I = P.inner_dims(k)
        except Exception as x:
            R.reject(res, x)
            continue
        res["programs"] += 1
        Ai, bi = _mat(I.pattern)
        ib = list(I.bounds)
        if ib != bounds[nd - k :]:
            out.append(V("inner-dims-not-the-restriction", f"inner_dims({k}) of bounds {bounds} has bounds {ib}", case))
            continue
        inst = [2 if x is None else min(x, 3) for x in ib]
        ok = True
        n = 0
        for idx in itertools.product(*[range(n_) for n_ in inst]):
            n += 1
            full = [0] * (nd - k) + list(idx)
            if G.mat_apply(Ai, bi, idx) != G.mat_apply(A, b, full):
                ok = False
                out.append(V("inner-dims-not-the-restriction", f"inner_dims({k}) of A{A} b{b}: at {idx} gives {G.mat_apply(Ai, bi, idx)}, restriction gives {G.mat_apply(A, b, full)}", case))
                break
        res["compared"] += 1
        R.bump(res, "evals:AccessPattern.inner_dims", n)
        if ok and k < nd:
            R.nontrivial(res, "inner_dims", nd, k, len(A))
    return out


# ----------------------------------------------------------------------------------------------------------------
# StridePattern
# ----------------------------------------------------------------------------------------------------------------
def _sp_data(sp):
    return (
        [a.data for a in sp.upper_bounds.data],
        [a.data for a in sp.temporal_strides.data],
        [a.data for a in sp.spatial_strides.data],
    )


def mon_stride_pattern(case, res, rng=None):
    from xdsl.parser import Parser

    from snaxc.dialects.snax_stream import StridePattern

    out = []
    ub, ts, ss = case["ub"], case["ts"], case["ss"]
    sp = StridePattern(ub, ts, ss)
    R.bump(res, "calls:StridePattern.canonicalize")
    C = None
    try:
        C = sp.canonicalize()
    except Exception as x:
        R.reject(res, x)
    if C is not None:
        res["programs"] += 1
        cub, cts, css = _sp_data(C)
        if len(cub) != len(cts):
            out.append(V("stride-pattern-canonicalize-malformed", f"ub {cub} vs ts {cts}", case))
        else:
            s0 = G.temporal_sequence(ub, ts)
            s1 = G.temporal_sequence(cub, cts)
            res["compared"] += 1
            R.bump(res, "evals:StridePattern.canonicalize", len(s0))
            if s0 != s1:
                first = next((i for i, (a, b) in enumerate(zip(s0, s1)) if a != b), min(len(s0), len(s1)))
                out.append(
                    V(
                        "stride-pattern-canonicalize-changes-address-sequence",
                        f"ub={ub} ts={ts} -> ub={cub} ts={cts}: {len(s0)} vs {len(s1)} temporal addresses, first difference at step {first}",
                        case,
                    )
                )
            if any(G.spatial_set(ss, w) != G.spatial_set(css, w) for w in (2, 3)):
                out.append(V("stride-pattern-canonicalize-changes-spatial-set", f"ss={ss} -> ss={css}", case))
            try:
                C2 = C.canonicalize()
                R.bump(res, "idempotence_checks")
                if _sp_data(C2) != (cub, cts, css):
                    out.append(V("canonicalize-not-idempotent", f"stride pattern ub={ub} ts={ts}: ub={cub} ts={cts} -> ub={_sp_data(C2)[0]} ts={_sp_data(C2)[1]}", case))
            except Exception as x:
                R.reject(res, x)
            if (cub, cts) != (ub, ts):
                R.nontrivial(res, "stride_canon", tuple(min(b, 2) for b in ub), tuple((s > 0) - (s < 0) for s in ts), len(cub))
                R.bump(res, "stride_pattern_changed_by_canonicalize")
            if 0 in ub:
                R.bump(res, "stride_patterns_with_zero_bound")
            if 0 in ts:
                R.bump(res, "stride_patterns_with_zero_stride")
    # print -> parse
    R.bump(res, "calls:StridePattern.print_parse")
    try:
        text = str(sp)
        back = Parser(ctx(), text).parse_attribute()
    except Exception as x:
        out.append(V("stride-pattern-text-roundtrip", f"ub={ub} ts={ts} ss={ss}: printed form cannot be parsed: {type(x).__name__}: " + " ".join(str(x)[:160].split()), case))
        return out
    res["programs"] += 1
    res["compared"] += 1
    if type(back).__name__ != "StridePattern" or _sp_data(back) != (ub, ts, ss):
        out.append(V("stride-pattern-text-roundtrip", f"ub={ub} ts={ts} ss={ss} printed as {text} re-parses as {back}", case))
    return out


# ----------------------------------------------------------------------------------------------------------------
# pack_bitlist
# ----------------------------------------------------------------------------------------------------------------
def _n_uses(v):
    u = v.uses
    return u.get_length() if hasattr(u, "get_length") else len(u)


def mon_pack_bitlist(case, res, rng=None):
    from xdsl.dialects import test
    from xdsl.dialects.builtin import IntegerType, ModuleOp
    from xdsl.ir import Block

    from snaxc.util.pack_bitlist import pack_bitlist
    from vf.interp.core import Interp, Unsupported

    out = []
    w = case["width"]
    vals, offs, kv, ko = case["vals"], case["offs"], case["kv"], case["ko"]
    n = len(vals)
    ty = IntegerType(w)
    blk = Block(arg_types=[ty] * (2 * n))
    it = Interp(ModuleOp([]))
    v_in, o_in = [], []
    for i in range(n):
        for lst, kinds, src, base in ((v_in, kv, vals, 0), (o_in, ko, offs, n)):
            if kinds[i] == "int":
                lst.append(src[i])
            elif kinds[i] == "ssa":
                a = blk.args[base + i]
                it.env[a] = src[i]
                lst.append(a)
            else:
                op = test.TestOp(result_types=[ty])
                it.env[op.results[0]] = src[i]
                lst.append(op)
    R.bump(res, "calls:pack_bitlist")
    try:
        ops = list(pack_bitlist(v_in, o_in, w))
    except Exception as x:
        R.reject(res, x)
        return out
    res["programs"] += 1
    R.bump(res, f"bitlist_len:{min(n, 9)}")
    if n == 0:
        R.bump(res, "bitlist_empty")
        if ops:
            out.append(V("pack-bitlist-wrong-word", f"empty list emits {len(ops)} ops", case))
        return out
    try:
        for op in ops:
            op.verify()
            h = it.handlers.get(op.name)
            if h is None:
                raise Unsupported(op.name)
            h(op)
    except Unsupported as x:
        R.bump(res, "oracle_skipped:Unsupported")
        return out
    except Exception as x:
        out.append(V("pack-bitlist-emits-invalid-ops", f"{type(x).__name__}: {str(x)[:200]}", case))
        return out
    if not ops or not ops[-1].results:
        out.append(V("pack-bitlist-wrong-word", "no result value emitted", case))
        return out
    got = it.env[ops[-1].results[0]]
    want = 0
    for v, o in zip(vals, offs):
        want |= (v << o) & ((1 << w) - 1)
    res["compared"] += 1
    R.bump(res, "evals:pack_bitlist", len(ops))
    if got != want:
        out.append(V("pack-bitlist-wrong-word", f"width {w} vals {vals} offs {offs} ({kv}/{ko}): emitted ops compute {got:#x}, expected {want:#x}", case))
    # the last op must be the only unused result (every shifted value is or-ed in exactly once)
    unused = [op for op in ops if op.name in ("arith.shli", "arith.ori") and _n_uses(op.results[0]) == 0]
    if len(unused) > 1:
        out.append(V("pack-bitlist-wrong-word", f"{len(unused)} partial words are never or-ed into the result", case))
    if n >= 2:
        R.nontrivial(res, "bitlist", n, w, tuple(kv), tuple(ko))
    return out


# ----------------------------------------------------------------------------------------------------------------
# StreamerConfigurationAttr print -> parse
# ----------------------------------------------------------------------------------------------------------------
def _cfg_view(cfg):
    """Structural view of a StreamerConfiguration, reading data fields only."""
    return {
        "streamers": [
            {
                "type": str(s.type.value),
                "temp": [str(f.value) for f in s.temporal_dims],
                "spat": [int(d) for d in s.spatial_dims],
                "opts": [str(o.name) for o in s.opts],
            }
            for s in cfg.streamers
        ],
        "system": str(cfg.streamers_system_type.value),
    }


def mon_streamer_text(case, res, rng=None):
    from xdsl.parser import Parser

    from snaxc.accelerators.streamers.extensions import STREAMER_OPT_MAP
    from snaxc.accelerators.streamers.streamers import Streamer, StreamerConfiguration, StreamerSystemType, StreamerType
    from snaxc.dialects.snax import StreamerConfigurationAttr

    out = []
    spec = case["cfg"]
    try:
        cfg = StreamerConfiguration(
            [Streamer(StreamerType(s["type"]), s["temp"], s["spat"], [STREAMER_OPT_MAP[o]() for o in s["opts"]]) for s in spec["streamers"]],
            StreamerSystemType(spec["system"]),
        )
        attr = StreamerConfigurationAttr(cfg)
    except Exception as x:
        R.reject(res, x)
        return out
    want = _cfg_view(cfg)
    if want != spec:
        R.bump(res, "generator_invalid")
        return out
    R.bump(res, "calls:StreamerConfigurationAttr.print_parse")
    R.bump(res, f"streamer_system:{spec['system']}")
    try:
        text = str(attr)
        back = Parser(ctx(), text).parse_attribute()
    except Exception as x:
        out.append(V("streamer-config-text-roundtrip", f"{spec}: printed form cannot be parsed: {type(x).__name__}: " + " ".join(str(x)[:160].split()), case, diff_fields=["unparsable"]))
        return out
    res["programs"] += 1
    res["compared"] += 1
    if type(back).__name__ != "StreamerConfigurationAttr":
        out.append(V("streamer-config-text-roundtrip", f"{text} re-parses as {back}", case, diff_fields=["class"]))
        return out
    got = _cfg_view(back.data)
    diff = []
    if got["system"] != want["system"]:
        diff.append("system")
    if len(got["streamers"]) != len(want["streamers"]):
        diff.append("count")
    else:
        for a, b in zip(got["streamers"], want["streamers"]):
            for f in ("type", "temp", "spat", "opts"):
                if a[f] != b[f] and f not in diff:
                    diff.append(f)
    if diff:
        out.append(
            V(
                "streamer-config-text-roundtrip",
                f"system={want['system']} {text} re-parses with different {diff}: got system={got['system']} {got['streamers']}",
                case,
                diff_fields=diff,
            )
        )
    R.nontrivial(res, "streamer", tuple((s["type"], len(s["temp"]), len(s["spat"]), tuple(sorted(s["opts"]))) for s in spec["streamers"]), spec["system"])
    return out


MONITORS = {
    "canon_expr": mon_canon_expr,
    "canon_map": mon_canon_map,
    "affine_transform": mon_affine_transform,
    "access_pattern": mon_access_pattern,
    "stride_pattern": mon_stride_pattern,
    "pack_bitlist": mon_pack_bitlist,
    "streamer_text": mon_streamer_text,
}


# ----------------------------------------------------------------------------------------------------------------
# known-finding attribution (mechanism predicate + counterfactual)
# ----------------------------------------------------------------------------------------------------------------
def attribute(v):
    case = v.get("case") or {}
    info = v.get("info") or {}
    if v["kind"] == "streamer-config-text-roundtrip" and case.get("kind") == "streamer_text":
        # predicate: the configuration is not for a regular system and the *only* field that differs after
        # re-parsing is the system type
        if case["cfg"]["system"] != "reg" and info.get("diff_fields") == ["system"]:
            from vf.counterfactual.streamer_text import system_type_in_text

            with system_type_in_text():
                again = mon_streamer_text(case, R.new_result())
            if not again:
                return "streamer-config-text-drops-system-type"
    return None


# ----------------------------------------------------------------------------------------------------------------
# case generation
# ----------------------------------------------------------------------------------------------------------------
def gen_case(kind, rng):
    if kind == "canon_expr":
        nd = rng.choice([1, 2, 2, 3])
        depth = rng.choice([1, 2, 3, 3, 4, 4])
        return {"kind": kind, "ndims": nd, "expr": G.gen_expr(rng, nd, depth)}
    if kind == "canon_map":
        nd = rng.choice([1, 2, 2, 3])
        return {"kind": kind, "ndims": nd, "exprs": [G.gen_expr(rng, nd, rng.choice([1, 2, 3, 4])) for _ in range(rng.randrange(1, 4))]}
    if kind == "affine_transform":
        nd = rng.choice([1, 2, 2, 3])
        nr = rng.randrange(1, 4)
        k = rng.randrange(1, 4)
        nd2 = rng.choice([1, 2, 3])
        r0 = rng.randrange(1, 4)
        return {
            "kind": kind,
            "ndims": nd,
            "exprs": [G.gen_linear_expr(rng, nd, rng.choice([1, 2, 3, 4])) for _ in range(nr)],
            "nonlinear": G.gen_expr(rng, nd, 3) if rng.random() < 0.3 else None,
            "A1": G.gen_matrix(rng, nr, nd),
            "b1": G.gen_vector(rng, nr),
            "A0": G.gen_matrix(rng, r0, k),
            "b0": G.gen_vector(rng, r0),
            "A2": G.gen_matrix(rng, k, nd2),
            "b2": G.gen_vector(rng, k),
            "ndims2": nd2,
        }
    if kind == "access_pattern":
        c = G.gen_access_pattern(rng)
        # keep the enumerated iteration space small
        while True:
            n = 1
            for b in c["bounds"]:
                n *= 3 if b is None else b
            if n <= 2000:
                break
            c = G.gen_access_pattern(rng)
        return {"kind": kind, **c, "runtime": [1, 3], "template": rng.random() < 0.3}
    if kind == "stride_pattern":
        while True:
            c = G.gen_stride_pattern(rng)
            n = 1
            for b in c["ub"]:
                n *= max(b, 1)
            if n <= 4096:
                return {"kind": kind, **c}
    if kind == "pack_bitlist":
        return {"kind": kind, **G.gen_bitlist(rng)}
    if kind == "streamer_text":
        return {"kind": kind, "cfg": G.gen_streamer_config(rng, _opt_names())}
    raise ValueError(kind)


_OPTS = None


def _opt_names():
    global _OPTS
    if _OPTS is None:
        import vf.compat  # noqa: F401
        from snaxc.accelerators.streamers.extensions import STREAMER_OPT_MAP

        _OPTS = sorted(STREAMER_OPT_MAP.keys())
    return _OPTS


def has_nonlinear_dim(j):
    """Does a floordiv/mod node contain a dim?"""
    if j[0] in ("c", "d"):
        return False
    if j[0] in ("//", "%"):
        return _has_dim(j)
    return has_nonlinear_dim(j[1]) or has_nonlinear_dim(j[2])


def _has_dim(j):
    if j[0] == "d":
        return True
    if j[0] == "c":
        return False
    return _has_dim(j[1]) or _has_dim(j[2])


KEEP_PER_KNOWN_KEY = 3


def record(res, vs, kept):
    for v in vs:
        key = attribute(v)
        if key is not None:
            R.bump(res, f"known_occurrences:{key}")
            kept[key] = kept.get(key, 0) + 1
            if kept[key] > KEEP_PER_KNOWN_KEY:
                continue
        R.violation(res, v["kind"], v["detail"], v["case"], key)


def run_shard(seed, shard, n_cases, tier):
    import vf.compat  # noqa: F401

    res = R.new_result()
    rng = random.Random(seed)
    ctx()
    schedule = [k for k, w in KINDS for _ in range(w)]
    kept = {}
    for i in range(n_cases):
        kind = schedule[i % len(schedule)]
        case = gen_case(kind, rng)
        res["evaluations"] += 1
        R.bump(res, f"cases:{kind}")
        sub = random.Random(rng.getrandbits(32))
        vs = MONITORS[kind](case, res, sub)
        record(res, vs, kept)
        if shard == 0 and i < len(schedule) and len([s for s in res["samples"] if s.get("kind") == kind]) == 0:
            R.sample(res, case, cap=len(KINDS))
    return res


def replay(case):
    import vf.compat  # noqa: F401

    res = R.new_result()
    vs = MONITORS[case["kind"]](case, res, random.Random(0))
    for v in vs:
        v["attributed"] = attribute(v)
    return vs
