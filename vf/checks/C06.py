"""C06 - Setup/compute overlap keeps every launch's configuration (translation validation).

P --accfg-trace-states[,accfg-dedup]--> P2 --accfg-config-overlap--> P3 ; P2 and P3 are executed on the accfg machine for
several runtime input vectors; launch/await sequences and the register snapshot latched by every launch are compared;
a moved op reading a value that is not yet computed (UseBeforeDef) or a verifier failure is a violation.
"""
from __future__ import annotations

import random

from vf import runner as R
from vf.checks._accfg_common import (
    ASSUME_COMMON,
    AccfgMachine,
    MachineError,
    StepBudget,
    Unsupported,
    UseBeforeDef,
    changed,
    compare_launch_traces,
    gen_program,
    input_vectors,
    make_ctx,
    parse,
    stage,
    to_text,
)
from vf.corpus import accfg_corpus, assign_ids
from vf.passmon import count_pattern_firings

LEVEL = "translation_validation"
RULE = (
    "G-accfg programs (overlap profile: loops whose body starts with a setup fed by pure chains of the induction variable, "
    "of loop-carried values and of outer values; lb in {0,1,3,arg}, step in {1,2,3,arg}; several launches per body; second "
    "accelerator in between; nested loops/ifs) plus the accfg filecheck corpus; traced, deduplicated (and also undeduplicated) by "
    "the real passes, then run through the real accfg-config-overlap and executed before/after for up to 8 runtime vectors. "
    "Non-trivial: overlap changed the IR and >=1 launch executed; distinct by (skeleton, patterns fired, input form)."
)
ASSUMPTIONS = ASSUME_COMMON
TIERS = {
    "quick": {"shards": 16, "cases": 110, "timeout": 600},
    "thorough": {"shards": 16, "cases": 3500, "timeout": 7200},
}
FLOORS = {
    "quick": {"programs": 600, "launches_compared": 20000, "distinct_nontrivial": 200, "vectors_executed": 3000},
    "thorough": {"programs": 20000, "launches_compared": 600000, "distinct_nontrivial": 5000},
}

_ctx = None


def ctx():
    global _ctx
    if _ctx is None:
        _ctx = make_ctx()
        from snaxc.transforms import accfg_config_overlap as O

        count_pattern_firings([O.BlockLevelSetupAwaitOverlapPattern, O.LoopLevelSetupAwaitOverlapPattern], _fired)
    return _ctx


_fired: dict = {}


def run_one(text, argnames, vecs, res, skeleton="", origin="gen", fname="main"):
    """Run one program through the pipeline and compare.  Returns list of violation dicts recorded."""
    c = ctx()
    out = []
    try:
        p0 = parse(c, text)
        p0.verify()
        assign_ids(p0)
    except Exception as e:
        R.bump(res, "generator_invalid")
        return out
    R.bump(res, "cases_generated")
    res["evaluations"] += 1
    variants = []
    bases = []
    for pre in ("accfg-trace-states,accfg-dedup", "accfg-trace-states"):
        p1 = stage(c, p0, pre, res)
        if p1 is None:
            continue
        try:
            p1.verify()
        except Exception:
            R.reject(res, "verify-failed-before-overlap")
            continue
        fired_before = dict(_fired)
        p2 = stage(c, p1, "accfg-config-overlap", res)
        if p2 is None:
            continue
        fired = tuple(sorted(k for k in _fired if _fired[k] != fired_before.get(k, 0)))
        try:
            p2.verify()
        except Exception as e:
            out.append({"kind": "verify-failed-after-overlap", "detail": str(e)[:300], "case": {"text": text, "fname": fname, "args": argnames, "vec": None, "spec": pre}})
            continue
        variants.append((pre, p1, p2, fired))
    if not variants:
        return out
    res["programs"] += 1
    any_launch = False
    for trips, vec in vecs:
        args = [vec[a] for a in argnames]
        stop = False
        for pre, p1, p2, fired in variants:
            try:
                e1 = AccfgMachine(p1, step_budget=400_000)
                e1.run_func(fname, args)
            except (StepBudget, Unsupported, MachineError, UseBeforeDef) as e:
                R.bump(res, "oracle_skipped:" + type(e).__name__)
                continue
            R.bump(res, "vectors_executed")
            R.seen(res, "trip_vectors", list(trips))
            nl = sum(1 for e in e1.events if e[0] == "L")
            if nl:
                any_launch = True
            try:
                e2 = AccfgMachine(p2, step_budget=400_000)
                e2.run_func(fname, args)
                d = compare_launch_traces(e1.events, e2.events)
            except UseBeforeDef as e:
                d = "moved computation uses a value that is not yet available: " + str(e)[:200]
            except (StepBudget, MachineError) as e:
                d = f"overlapped program failed to execute: {type(e).__name__} {e}"
            res["compared"] += 1
            R.bump(res, "launches_compared", nl)
            if d:
                out.append(
                    {
                        "kind": "launch-observes-different-config",
                        "detail": f"[after {pre}] {d}",
                        "case": {"text": text, "fname": fname, "args": argnames, "vec": vec, "spec": pre},
                        "info": getattr(d, "info", {}),
                    }
                )
                stop = True
                break
        if stop:
            break
    for pre, p1, p2, fired in variants:
        if any_launch and changed(p1, p2):
            R.nontrivial(res, skeleton or text, fired, pre)
            R.bump(res, "nontrivial_cases")
            for f in fired:
                R.bump(res, "programs_where_" + f)
    return out


def run_shard(seed, shard, n_cases, tier):
    res = R.new_result()
    rng = random.Random(seed)
    c = ctx()
    # corpus seeds on shard 0
    if shard == 0:
        for text, fname, argn, vecs, name in accfg_corpus(rng, c):
            for v in run_one(text, argn, vecs, res, skeleton="corpus:" + name, origin="corpus", fname=fname):
                R.violation(res, v["kind"], v["detail"], v["case"], attribute(v), info=v.get("info"))
            R.bump(res, "corpus_cases")
    for i in range(n_cases):
        prog = gen_program(rng, profile="overlap")
        vecs = input_vectors(prog, rng, 8)
        argn = [a.name for a in prog.args]
        vs = run_one(prog.text, argn, vecs, res, skeleton=prog.skeleton)
        for f in prog.features:
            R.bump(res, "feature:" + f)
        R.seen(res, "skeletons", prog.skeleton, cap=300)
        for v in vs:
            R.violation(res, v["kind"], v["detail"], v["case"], attribute(v), info=v.get("info"))
        if i < 2 and shard == 0:
            R.sample(res, {"program": prog.text, "vectors": [vec for _, vec in vecs[:2]]})
    for k, v in _fired.items():
        R.bump(res, k, v)
    return res


def attribute(v):
    """Known-finding attribution: mechanism predicate + counterfactual (never by case hash or values)."""
    info = v.get("info") or {}
    case = v.get("case") or {}
    meta = info.get("meta_after") or {}
    if (
        v["kind"] == "launch-observes-different-config"
        and info.get("what") == "register"
        and not info.get("observed_poison")
        and (meta.get("loops_done", 0) >= 1 or meta.get("loops_skipped", 0) >= 1)
        and case.get("vec") is not None
    ):
        # predicate holds: a launch *after* a completed (or skipped) loop observes a really written (non-poison) value.
        from vf.counterfactual.overlap import guarded_loop_level_overlap

        with guarded_loop_level_overlap():
            again = run_one(case["text"], case["args"], [((), case["vec"])], R.new_result(), fname=case.get("fname", "main"))
        if not again:
            if meta.get("loops_done", 0) >= 1:
                return "overlap-extra-setup-after-last-iteration"
            # only zero-trip loops were passed: the setup moved in front of the loop ran although the body never did
            return "overlap-moved-setup-runs-for-zero-trip-loop"
    return None


def replay(case):
    res = R.new_result()
    vec = case.get("vec")
    argn = case["args"]
    if vec is None:
        vecs = []
    else:
        vecs = [((), vec)]
    return run_one(case["text"], argn, vecs, res, fname=case.get("fname", "main"))
