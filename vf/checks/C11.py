"""C11 - Allocations are big enough and never overlap while live (translation validation).

(a) size:      memref.alloc (L1; none / tiled-strided layouts with gaps, padding, offsets; static and dynamic shapes) -> REAL memref-to-snax;
               the emitted size computation is *interpreted* with runtime sizes and compared with (max address + 1) * element size of the
               reference layout function.
(b) placement: functions with several allocations and uses (top level, nested in scf.for / scf.if, through subviews and casts, copies)
               -> REAL memref-to-snax, canonicalize, snax-allocate{mode=static|minimalloc|auto}; the allocated program is *executed*; every
               use of a buffer (through any view) is an event; from the trace: two buffers whose address ranges intersect must not have
               interleaved lifetimes (first event .. last use), no use after an inserted dealloc; every pointer is aligned and inside the
               memory window.  The absent minimalloc solver is replaced by an adversarial, maximally reusing reference stand-in.
"""
from __future__ import annotations

import os
import random
import sys
from math import prod

sys.path.insert(0, os.path.join(os.path.dirname(os.path.dirname(os.path.abspath(__file__))), "stubs"))

from xdsl.dialects.builtin import StringAttr  # noqa: E402

from vf import runner as R  # noqa: E402
from vf.ctx import PassTimeout, make_ctx, parse, run_passes_limited, to_text  # noqa: E402
from vf.gen.copy_gen import dense_steps, factorize, tsl_text  # noqa: E402
from vf.interp.core import INDEX_W, Interp, MachineError, StepBudget, Unsupported, UseBeforeDef, signed, wrap  # noqa: E402
from vf.ref.layout import elsize_of, from_memref_type  # noqa: E402

LEVEL = "translation_validation"
RULE = (
    "(a) single memref.alloc in L1 with element types i8..i64/f32, layouts none / #tsl (1-3 tile levels, random nesting order, padding gaps, "
    "offsets, dynamic outermost bounds+steps), static and dynamic shapes; (b) functions with 2..10 allocations (alignments 1..64 incl. "
    "non-powers of two), uses by test.op / memref.copy at top level, nested in scf.for / scf.if, through memref.subview / memref.cast views "
    "used after the buffer's own last use, memories with varied (start, capacity); modes static, minimalloc, auto; each executed for 2 "
    "branch vectors. Non-trivial (b): >=2 buffers whose lifetimes do not all overlap (reuse possible) or a view used later; distinct by "
    "(number of buffers, use-shape skeleton, mode)."
)
ASSUMPTIONS = [
    "xDSL 0.70 is used through the /verif/vf/compat.py shim instead of the commit the repo pins",
    "the third-party minimalloc solver is absent: an adversarial reference stand-in (vf/stubs/minimalloc.py, maximally reusing first fit, "
    "reproduces the upstream expectation 0/20/0) is injected; what is monitored is the repo's lifetime computation, alignment/capacity handling "
    "and address materialisation, not the solver's own correctness",
    "reference layout function vf/ref/layout.py; over-allocation is legal, only under-allocation is a violation",
    "a buffer is used whenever an op takes it or any subview/cast of it as an operand; exceptions raised by a pass are rejections",
]
TIERS = {
    "quick": {"shards": 16, "cases": 150, "timeout": 600},
    "thorough": {"shards": 16, "cases": 24000, "timeout": 7200},
}
FLOORS = {
    "quick": {"programs": 1200, "sizes_compared": 600, "buffer_pairs_checked": 5000, "uses_observed": 15000, "distinct_nontrivial": 200, "views_used_later": 150},
    "thorough": {"programs": 40000, "sizes_compared": 25000, "distinct_nontrivial": 1500},
}

STRUCT2 = "!llvm.struct<(!llvm.ptr, !llvm.ptr, i32, !llvm.array<{r} x i32>, !llvm.array<{r} x i32>)>"


# -- machine -----------------------------------------------------------------------------------------
class Buf:
    __slots__ = ("bid", "ptr")

    def __init__(self, bid, ptr):
        self.bid = bid
        self.ptr = ptr


class AllocMachine(Interp):
    def __init__(self, module, **kw):
        super().__init__(module, **kw)
        self.t = 0
        hd = self.handlers
        hd["llvm.mlir.undef"] = lambda op: self.set_results(op, [{}])
        hd["llvm.insertvalue"] = self._h_insert
        hd["llvm.inttoptr"] = lambda op: self.set_results(op, [self.get(op.operands[0])])
        hd["memref.subview"] = self._h_view
        hd["memref.cast"] = self._h_view
        hd["memref.copy"] = self._h_use
        hd["memref.dealloc"] = self._h_dealloc
        hd["snax.alloc"] = self._h_snax_alloc
        self.sizes = []

    def _h_insert(self, op):
        st = dict(self.get(op.operands[0]))
        pos = tuple(op.position.get_values()) if hasattr(op.position, "get_values") else tuple(x.data for x in op.position.data)
        st[pos] = self.get(op.operands[1])
        self.set_results(op, [st])

    def _h_ucc(self, op):
        v = self.get(op.operands[0])
        vid = op.attributes.get("verif.id")
        if isinstance(v, dict) and isinstance(vid, StringAttr):
            b = Buf(vid.data, v.get((1,)))
            self.t += 1
            dims = list(op.results[0].type.get_shape()) if hasattr(op.results[0].type, "get_shape") else None
            self.events.append(("alloc", b.bid, self.t, b.ptr, v.get((0,)), {k: x for k, x in v.items() if isinstance(k, tuple)}, dims))
            self.set_results(op, [b])
        else:
            self.set_results(op, [v] * len(op.results))

    def _h_view(self, op):
        for o in op.operands[1:]:
            self.get(o)
        self.set_results(op, [self.get(op.operands[0])])

    def _use(self, op, vals):
        for v in vals:
            if isinstance(v, Buf):
                self.t += 1
                self.events.append(("use", v.bid, self.t, op.name))

    def _h_use(self, op):
        self._use(op, [self.get(o) for o in op.operands])

    def on_testop(self, op, args):
        self._use(op, args)

    def _h_dealloc(self, op):
        v = self.get(op.operands[0])
        if isinstance(v, Buf):
            self.t += 1
            self.events.append(("dealloc", v.bid, self.t))

    def _h_snax_alloc(self, op):
        size = signed(self.get(op.size), INDEX_W)
        shapes = [signed(self.get(s), INDEX_W) for s in op.shapes]
        self.sizes.append((size, shapes))
        self.set_results(op, [{"snax.alloc": True}])


# -- part (a) -----------------------------------------------------------------------------------------
def gen_size_case(rng):
    rank = rng.choice([1, 2, 2, 3])
    # element types incl. ones that are not a whole number of bytes (stored in ceil(bits / 8) bytes)
    el, elsize = rng.choice([("i8", 1), ("i16", 2), ("i32", 4), ("i64", 8), ("f32", 4), ("i1", 1), ("i4", 1), ("i12", 2), ("f16", 2), ("f64", 8)])
    shape = [rng.choice([1, 2, 3, 4, 6, 8, 16]) for _ in range(rank)]
    kind = rng.choice(["none", "tsl", "tsl", "tsl_dyn"])
    dyn_dims = []
    if kind == "none":
        if rng.random() < 0.4:
            dyn_dims = [d for d in range(rank) if rng.random() < 0.5]
        lay = ""
    else:
        tb = [factorize(rng, n, rng.choice([1, 2, 3])) for n in shape]
        steps = dense_steps(rng, tb, pad=0.25)
        off = rng.choice([0, 0, rng.randint(1, 20)])
        dyn = set()
        if kind == "tsl_dyn":
            from vf.checks.C05 import make_dynamic_tsl

            dyn_dims = [d for d in range(rank) if rng.random() < 0.6] or [0]
            sp = make_dynamic_tsl(rng, {"tb": tb, "steps": steps, "offset": off, "dyn": []}, set(dyn_dims))
            steps, dyn = sp["steps"], {tuple(x) for x in sp["dyn"]}
        lay = ", " + tsl_text(tb, steps, off, dyn)
    dims = "x".join("?" if d in dyn_dims else str(n) for d, n in enumerate(shape))
    t = f'memref<{dims}x{el}{lay}, "L1">'
    args = ", ".join(f"%a{d}: index" for d in dyn_dims)
    dyn_ops = ", ".join(f"%d{d}" for d in dyn_dims)
    # the pass expects dynamic sizes to be op results (not function arguments)
    pre = "\n".join(f"    %d{d} = arith.addi %a{d}, %z : index" for d in dyn_dims)
    text = f"""builtin.module {{
  func.func @main({args}) {{
    %z = arith.constant 0 : index
{pre}
    %m = "memref.alloc"({dyn_ops}) <{{operandSegmentSizes = array<i32: {len(dyn_dims)}, 0>, alignment = 64 : i64}}> : ({", ".join("index" for _ in dyn_dims)}) -> {t}
    "test.op"(%m) {{verif.id = "u"}} : ({t}) -> ()
    func.return
  }}
}}
"""
    return {"part": "a", "text": text, "shape": shape, "dyn_dims": dyn_dims, "elsize": elsize}


def run_size_case(case, res, c):
    out = []
    res["evaluations"] += 1
    try:
        m = parse(c, case["text"])
        m.verify()
    except Exception as e:
        R.bump(res, "generator_invalid")
        R.reject(res, e)
        return out
    t = [op for op in m.walk() if op.name == "memref.alloc"][0].results[0].type
    try:
        ref = from_memref_type(t, case["shape"])
    except Exception:
        R.bump(res, "out_of_domain:reference-cannot-instantiate")
        return out
    if ref.shape() != list(case["shape"]) or not ref.is_injective():
        R.bump(res, "out_of_domain:layout-overlapping-or-not-divisible")
        return out
    try:
        run_passes_limited(c, m, "memref-to-snax", 5)
    except PassTimeout:
        R.reject(res, "PassTimeout")
        return out
    except Exception as e:
        R.reject(res, e)
        return out
    if not any(op.name == "snax.alloc" for op in m.walk()):
        R.reject(res, "alloc-left-unconverted")
        return out
    res["programs"] += 1
    mach = AllocMachine(m, step_budget=50_000)
    try:
        mach.run_func("main", [case["shape"][d] for d in case["dyn_dims"]])
    except (Unsupported, MachineError, UseBeforeDef, StepBudget) as e:
        out.append({"kind": "size-computation-fails", "detail": f"{type(e).__name__}: {e}"[:200], "case": case})
        return out
    size, shapes = mach.sizes[0]
    need = (ref.max_addr() + 1) * case["elsize"]
    res["compared"] += 1
    R.bump(res, "sizes_compared")
    if size < need:
        out.append({"kind": "allocation-too-small", "detail": f"{t}: snax.alloc size {size} bytes, highest touched address needs {need}", "case": case})
    elif size > need:
        R.bump(res, "sizes_over_allocated")
    if shapes != list(case["shape"]):
        out.append({"kind": "alloc-shape-operands-wrong", "detail": f"shape operands {shapes} for runtime shape {case['shape']}", "case": case})
    R.nontrivial(res, "a", str(t))
    return out


# -- part (b) -----------------------------------------------------------------------------------------
def gen_placement_case(rng):
    nb = rng.randint(2, 10)
    lines = []
    bufs = []
    for i in range(nb):
        n = rng.choice([4, 8, 16, 32, 64, 100])
        al = rng.choice([1, 2, 4, 8, 16, 32, 64, 128])  # memref.alloc only accepts powers of two
        bufs.append({"n": n, "al": al, "t": f'memref<{n}xi32, "L1">'})
    live = []
    skel = []
    n_views = 0
    vid = [0]

    def use(ind, name, t):
        vid[0] += 1
        lines.append("  " * ind + f'"test.op"({name}) {{verif.id = "u{vid[0]}"}} : ({t}) -> ()')

    order = list(range(nb))
    pending = list(order)
    views = []  # (name, type)
    cond_n = [0]
    steps = rng.randint(nb + 2, nb * 3 + 4)
    for s in range(steps):
        r = rng.random()
        if pending and (r < 0.35 or not live):
            i = pending.pop(0)
            b = bufs[i]
            lines.append(f'    %b{i} = "memref.alloc"() <{{operandSegmentSizes = array<i32: 0, 0>, alignment = {b["al"]} : i64}}> : () -> {b["t"]}')
            live.append(i)
            skel.append("A")
            use(2, f"%b{i}", b["t"])  # an allocation without any use crashes MiniMallocate (StopIteration) after canonicalize
            continue
        if not live:
            continue
        i = rng.choice(live)
        b = bufs[i]
        if r < 0.55:
            use(2, f"%b{i}", b["t"])
            skel.append("u")
        elif r < 0.65 and b["n"] >= 4:
            n_views += 1
            k = b["n"] // 2
            vt = f'memref<{k}xi32, strided<[1], offset: {k}>, "L1">'
            lines.append(f"    %v{n_views} = memref.subview %b{i}[{k}] [{k}] [1] : {b['t']} to {vt}")
            views.append((f"%v{n_views}", vt))
            skel.append("v")
        elif r < 0.72 and views:
            nm, vt = rng.choice(views)
            use(2, nm, vt)
            skel.append("V")
        elif r < 0.82:
            lines.append("    %lb{0} = arith.constant 0 : index\n    %ub{0} = arith.constant 2 : index\n    %st{0} = arith.constant 1 : index".format(s))
            lines.append(f"    scf.for %i{s} = %lb{s} to %ub{s} step %st{s} {{")
            use(3, f"%b{i}", b["t"])
            if len(live) > 1 and rng.random() < 0.5:
                j = rng.choice(live)
                use(3, f"%b{j}", bufs[j]["t"])
            if views and rng.random() < 0.3:
                nm, vt = rng.choice(views)
                use(3, nm, vt)
            lines.append("      scf.yield\n    }")
            skel.append("F")
        elif r < 0.9:
            cond_n[0] += 1
            lines.append(f"    scf.if %c{cond_n[0]} {{")
            use(3, f"%b{i}", b["t"])
            lines.append("      scf.yield\n    }")
            skel.append("I")
        elif len(live) > 1:
            j = rng.choice([x for x in live if x != i])
            if bufs[j]["n"] == b["n"]:
                lines.append(f'    "memref.copy"(%b{i}, %b{j}) : ({b["t"]}, {bufs[j]["t"]}) -> ()')
                skel.append("c")
    if views and rng.random() < 0.6:
        nm, vt = rng.choice(views)
        use(2, nm, vt)
        skel.append("V")
    args = ", ".join(f"%c{k + 1}: i1" for k in range(cond_n[0]))
    callee = ""
    force_static = False
    if rng.random() < 0.12:
        # a second function that allocates in the same memory, called while buffers of @main are still in use (static mode only:
        # one memory, one bump pointer for the whole module)
        force_static = True
        kq = rng.choice([4, 8, 16, 64])
        ct = f'memref<{kq}xi32, "L1">'
        callee = (
            "  func.func @callee() {\n"
            f'    %q0 = "memref.alloc"() <{{operandSegmentSizes = array<i32: 0, 0>, alignment = {rng.choice([1, 4, 64])} : i64}}> : () -> {ct}\n'
            f'    "test.op"(%q0) {{verif.id = "uq0"}} : ({ct}) -> ()\n'
            f'    "test.op"(%q0) {{verif.id = "uq1"}} : ({ct}) -> ()\n'
            "    func.return\n  }\n"
        )
        pos = rng.randrange(1, len(lines) + 1)
        # only between complete top-level statements
        while pos < len(lines) and not (lines[pos].startswith("    ") and not lines[pos].startswith("     ") and not lines[pos].startswith("    }")):
            pos += 1
        lines.insert(pos, "    func.call @callee() : () -> ()")
        if live:
            j = rng.choice(live)
            vid[0] += 1
            lines.append(f'    "test.op"(%b{j}) {{verif.id = "u{vid[0]}"}} : ({bufs[j]["t"]}) -> ()')
        skel.append("K")
    text = "builtin.module {\n  func.func @main(" + args + ") {\n" + "\n".join(lines) + "\n    func.return\n  }\n" + callee + "}\n"
    start = rng.choice([0x10000000, 0x10000000, 0, 64, 0x1004, 100])
    total = sum(b["n"] * 4 + 64 for b in bufs)
    # generous, huge, too small, and *tight* memories (the plain sum of the sizes plus little slack: alignment padding decides
    # whether the last buffer still fits, so an allocator must refuse rather than place it past the end)
    exact = sum(b["n"] * 4 for b in bufs)
    cap = rng.choice([total * 2, total * 2, 65536, max(64, total // 2)])
    mode = rng.choice(["static", "minimalloc", "minimalloc", "auto"])
    if rng.random() < 0.25:
        cap = exact + rng.choice([0, 4, 16, 40, 100, 200])
        if rng.random() < 0.7:
            mode = "static"
    if force_static:
        mode = "static"
    return {"part": "b", "text": text, "start": start, "cap": cap, "mode": mode, "nconds": cond_n[0], "skel": "".join(skel), "nb": nb}


def run_placement_case(case, res):
    from snaxc.util.snax_memory import L3, SnaxMemory

    out = []
    res["evaluations"] += 1
    mem = SnaxMemory(StringAttr("L1"), capacity=case["cap"], start=case["start"])
    c = make_ctx(memories=[mem, L3])
    try:
        m = parse(c, case["text"])
        m.verify()
    except Exception as e:
        R.bump(res, "generator_invalid")
        R.reject(res, e)
        return out
    try:
        run_passes_limited(c, m, "memref-to-snax,canonicalize", 10)
    except PassTimeout:
        R.reject(res, "PassTimeout")
        return out
    except Exception as e:
        R.reject(res, e)
        return out
    # tag the conversion casts (they survive snax-allocate) and record the request of every allocation
    req = {}
    n = 0
    for op in m.walk():
        if op.name == "snax.alloc":
            users = [u.operation for u in op.results[0].uses if u.operation.name == "builtin.unrealized_conversion_cast"]
            szop = op.size.owner
            if not users:
                R.bump(res, "allocs_never_used_skipped")  # canonicalize removed the dead cast; the buffer is unobservable
                continue
            if len(users) != 1 or szop.name != "arith.constant":
                R.reject(res, "alloc-not-static")
                return out
            bid = f"buf{n}"
            n += 1
            users[0].attributes["verif.id"] = StringAttr(bid)
            al = op.alignment.value.data if op.alignment is not None else 1
            req[bid] = {"size": szop.value.value.data, "al": al}
    if not req:
        R.reject(res, "no-allocs")
        return out
    try:
        run_passes_limited(c, m, f"snax-allocate{{mode={case['mode']}}}", 10)
        m.verify()
    except PassTimeout:
        R.reject(res, "PassTimeout")
        return out
    except Exception as e:
        R.reject(res, e)
        return out
    res["programs"] += 1
    found = None
    for vec in ([1] * case["nconds"], [0] * case["nconds"]):
        mach = AllocMachine(m, step_budget=100_000)
        try:
            mach.run_func("main", vec)
        except (Unsupported, MachineError, UseBeforeDef, StepBudget) as e:
            out.append({"kind": "allocated-program-fails", "detail": f"{type(e).__name__}: {e}"[:200], "case": case})
            return out
        res["compared"] += 1
        ev = mach.events
        first, last, ptr, dead = {}, {}, {}, {}
        for e in ev:
            if e[0] == "alloc":
                first[e[1]] = e[2]
                last.setdefault(e[1], e[2])
                ptr[e[1]] = e[3]
                # the descriptor handed to the rest of the program must describe this allocation: base offset 0 (the layout's own
                # offset is part of the type and of the allocated size), extents = the buffer's dimensions
                desc, dims = e[5], e[6]
                R.bump(res, "descriptors_checked")
                off = desc.get((2,))
                if isinstance(off, int) and off != 0 and not found:
                    found = {"kind": "descriptor-moves-buffer-outside-allocation", "detail": f"{e[1]}: descriptor offset {off} on an allocation of exactly the layout's extent", "case": case}
                if dims is not None and all(d >= 0 for d in dims) and not found:
                    got = [desc.get((3, i)) for i in range(len(dims))]
                    if got != dims:
                        found = {"kind": "descriptor-moves-buffer-outside-allocation", "detail": f"{e[1]}: descriptor extents {got} for a buffer of shape {dims}", "case": case}
            elif e[0] == "use":
                R.bump(res, "uses_observed")
                last[e[1]] = e[2]
                if e[1] in dead and not found:
                    found = {"kind": "use-after-dealloc", "detail": f"{e[1]} used by {e[3]} at t={e[2]} after its dealloc at t={dead[e[1]]}", "case": case}
            elif e[0] == "dealloc":
                dead.setdefault(e[1], e[2])
        for b, p in ptr.items():
            rq = req[b]
            if not isinstance(p, int):
                found = found or {"kind": "pointer-not-materialised", "detail": f"{b}: {p}", "case": case}
                continue
            if p % max(1, rq["al"]) != 0 and not found:
                found = {"kind": "pointer-misaligned", "detail": f"{b} at {p:#x} requested alignment {rq['al']} (memory start {case['start']:#x}, mode {case['mode']})", "case": case, "info": {"start_aligned": case["start"] % max(1, rq["al"]) == 0, "mode": case["mode"]}}
            if (p < case["start"] or p + rq["size"] > case["start"] + case["cap"]) and not found:
                found = {"kind": "outside-memory-window", "detail": f"{b} [{p:#x}, {p + rq['size']:#x}) not inside [{case['start']:#x}, {case['start'] + case['cap']:#x})", "case": case}
        ids = sorted(ptr)
        for i, x in enumerate(ids):
            for y in ids[i + 1 :]:
                R.bump(res, "buffer_pairs_checked")
                px, py = ptr[x], ptr[y]
                if not (isinstance(px, int) and isinstance(py, int)):
                    continue
                if px < py + req[y]["size"] and py < px + req[x]["size"]:
                    R.bump(res, "address_reuse_observed")
                    if not (last[x] < first[y] or last[y] < first[x]) and not found:
                        found = {
                            "kind": "live-buffers-overlap",
                            "detail": f"{x} [{px:#x},+{req[x]['size']}) live t={first[x]}..{last[x]} overlaps {y} [{py:#x},+{req[y]['size']}) live t={first[y]}..{last[y]} (mode {case['mode']})",
                            "case": case,
                            "info": {"mode": case["mode"]},
                        }
        if found:
            break
    if found:
        out.append(found)
    if "V" in case["skel"]:
        R.bump(res, "views_used_later")
    R.nontrivial(res, "b", case["nb"], case["skel"], case["mode"])
    return out


def attribute(v):
    return None


def run_shard(seed, shard, n_cases, tier):
    res = R.new_result()
    rng = random.Random(seed)
    c = make_ctx()
    for i in range(n_cases):
        if rng.random() < 0.4:
            case = gen_size_case(rng)
            vs = run_size_case(case, res, c)
        else:
            case = gen_placement_case(rng)
            vs = run_placement_case(case, res)
        for v in vs:
            R.violation(res, v["kind"], v["detail"], v["case"], attribute(v), info=v.get("info"))
        if i < 3 and shard == 0:
            R.sample(res, {"part": case["part"], "module": case["text"][:2500], **({"mode": case["mode"], "memory": [case["start"], case["cap"]]} if case["part"] == "b" else {})})
    return res


def replay(case):
    res = R.new_result()
    if case["part"] == "a":
        return run_size_case(case, res, make_ctx())
    return run_placement_case(case, res)
