"""C17 - Loop restructuring preserves the executed operation sequence (translation validation).

P --pipeline-canonicalize-for--> Pc ;  P --reuse-memref-allocs--> Pr   (the REAL passes)
P, Pc, Pr are executed on the trace machine (vf/interp/trace_m.py) for several runtime vectors; the logs of side-effecting ops
(marker test.ops, copies, allocs, barriers) with their evaluated operands (index values, and for memrefs: which elements of
which allocation of which shape) must be equal as sequences.  For reuse-memref-allocs the alloc events themselves are exempt
(hoisting them is the point of the pass) but every use still carries the allocation's shape.  Module verification failure,
a read of an unbound SSA value (UseBeforeDef) or a machine error that P does not have is a violation.
"""
from __future__ import annotations

import os
import random

from vf import runner as R
from vf.ctx import PassTimeout, make_ctx, parse, run_passes_limited, to_text
from vf.corpus import assign_ids, split_file
from vf.compat import repo_path
from vf.gen.loops_gen import ARG_DIM, gen_program, input_vectors
from vf.interp.buf_m import make_args
from vf.interp.core import MachineError, StepBudget, Unsupported, UseBeforeDef
from vf.interp.trace_m import TraceMachine, first_diff, fmt_diff
from vf.passmon import count_pattern_firings

LEVEL = "translation_validation"
RULE = (
    "G-loops programs (scf.for nests depth<=3; lb/ub/step constant or function arguments, bounds 0..9, steps 1..4, ub not a "
    "multiple of the step in over a third of the step>1 loops; marker test.ops / pure arith / local constants / affine.min / "
    "memref.dim / subview / alloc / copy / scf.if before, inside and after inner loops; perfect and imperfect nests; index "
    "iter_args) plus the loop/alloc filecheck corpus; each pushed through the real pipeline-canonicalize-for and the real "
    "reuse-memref-allocs and executed before/after on the trace machine for up to 4 runtime vectors. Non-trivial: a pass "
    "changed the IR and >=1 side-effecting op executed inside a loop; distinct by (skeleton, pass, patterns that fired)."
)
ASSUMPTIONS = [
    "xDSL 0.70 is used through the /verif/vf/compat.py shim instead of the commit the repo pins",
    "trace machine vf/interp/trace_m.py on top of the logical buffer machine vf/interp/buf_m.py and interpreter vf/interp/core.py "
    "(scf.for: signed compare, positive step; memref.subview / dim / alloc / copy on numpy views; affine.min)",
    "test.op is an opaque side-effecting marker; buffer contents are not compared (reads of fresh allocations are uninitialised), "
    "only which elements of which allocation of which shape each op touches",
    "for reuse-memref-allocs the memref.alloc events themselves are exempt from count/position equality",
    "exceptions raised by a pass (crash / refusal) are rejections of the input, not violations of this property",
    "runtime vectors on which the ORIGINAL program fails on the machine (out-of-bounds subview, negative size) are out of domain",
]
TIERS = {
    "quick": {"shards": 16, "cases": 200, "timeout": 600},
    "thorough": {"shards": 16, "cases": 6000, "timeout": 7200},
}
FLOORS = {
    "quick": {
        "programs": 1000,
        "compared": 4000,
        "distinct_nontrivial": 1200,
        "vectors_executed": 2500,
        "events_compared": 200000,
        "loops_executed_ub_not_multiple_of_step": 12000,
        "uses_of_alloc_compared": 60000,
        "compared:pipeline-canonicalize-for": 1800,
        "compared:reuse-memref-allocs": 2200,
    },
    "thorough": {
        "programs": 30000,
        "compared": 120000,
        "distinct_nontrivial": 30000,
        "vectors_executed": 75000,
        "events_compared": 6000000,
        "loops_executed_ub_not_multiple_of_step": 360000,
        "uses_of_alloc_compared": 1800000,
        "compared:pipeline-canonicalize-for": 54000,
        "compared:reuse-memref-allocs": 66000,
    },
}

PASSES = ("pipeline-canonicalize-for", "reuse-memref-allocs")
CORPUS_FILES = [
    "tests/filecheck/transforms/pipeline/pipeline-canonicalize-for.mlir",
    "tests/filecheck/transforms/reuse-memref-allocs.mlir",
    "tests/filecheck/transforms/pipeline/construct-pipeline.mlir",
    "tests/filecheck/transforms/pipeline/unroll-pipeline.mlir",
    "tests/filecheck/transforms/pipeline/pipeline-duplicate-buffers.mlir",
]

_ctx = None
_fired: dict = {}


def ctx():
    global _ctx
    if _ctx is None:
        _ctx = make_ctx()
        from snaxc.transforms import reuse_memref_allocs as RM
        from snaxc.transforms.pipeline import pipeline_canonicalize_for as PC

        count_pattern_firings([PC.ChangeForStep, PC.MergeForLoops, RM.LoopHoistPureOperations, RM.MoveMemrefDims], _fired)
    return _ctx


def stage(c, module, spec, res, seconds=5):
    m2 = module.clone()
    try:
        run_passes_limited(c, m2, spec, seconds)
    except PassTimeout:
        R.reject(res, f"PassTimeout@{spec}")
        return None
    except Exception as e:  # crash or refusal of the real pass
        R.reject(res, e)
        return None
    return m2


def execute(module, fname, vec, argnames):
    """Run `fname` on a fresh trace machine.  `vec` maps index-argument names (or '#<pos>') to values."""
    m = TraceMachine(module, step_budget=300_000)
    f = m.funcs[fname]
    ints = {}
    for i, a in enumerate(f.body.blocks[0].args):
        key = argnames[i] if i < len(argnames) else f"#{i}"
        if key in vec:
            ints[i] = vec[key]
    args = make_args(m, f, int_values=ints, dyn_size=ARG_DIM)
    m.run_func(fname, args)
    return m


def comparable(trace, spec):
    if spec == "reuse-memref-allocs":
        return [e for e in trace if e[0] != "alloc"]
    return trace


def _mref_uses(trace):
    n = 0
    for e in trace:
        for x in e[1:]:
            if isinstance(x, tuple):
                for y in x:
                    if isinstance(y, tuple) and y and y[0] == "mref" and y[1].startswith("alloc"):
                        n += 1
    return n


def run_one(text, fname, argnames, vecs, res, skeleton="", origin="gen"):
    """Push one program through both passes and compare.  Returns the list of violation dicts."""
    c = ctx()
    out = []
    try:
        p0 = parse(c, text)
        p0.verify()
        assign_ids(p0)
    except Exception:
        R.bump(res, "generator_invalid" if origin == "gen" else "corpus_unparsable")
        return out
    if fname is None:
        # corpus chunk without a function: wrap is not possible, execute the module body through a synthetic function name
        return out
    res["evaluations"] += 1
    variants = []
    for spec in PASSES:
        before = dict(_fired)
        p1 = stage(c, p0, spec, res)
        if p1 is None:
            continue
        fired = tuple(sorted(k for k in _fired if _fired[k] != before.get(k, 0)))
        try:
            p1.verify()
        except Exception as e:
            out.append(
                {
                    "kind": "verify-failed-after-pass",
                    "detail": f"[{spec}; fired={','.join(x[6:] for x in fired)}] {str(e)[:300]}",
                    "case": {"text": text, "fname": fname, "args": argnames, "vec": None, "spec": spec},
                    "info": {"spec": spec, "fired": fired},
                }
            )
            continue
        variants.append((spec, p1, fired, to_text(p1) != to_text(p0)))
    if not variants:
        return out
    res["programs"] += 1
    in_loop_events = False
    stop = set()
    for vec in vecs:
        try:
            e0 = execute(p0, fname, vec, argnames)
        except (StepBudget, Unsupported, MachineError, UseBeforeDef) as e:
            R.bump(res, "out_of_domain_vector:" + type(e).__name__)
            continue
        R.bump(res, "vectors_executed")
        for lb, ub, step, trips in e0.loops:
            R.bump(res, "loops_executed")
            if ub > lb and (ub - lb) % step != 0:
                R.bump(res, "loops_executed_ub_not_multiple_of_step")
            if trips == 0:
                R.bump(res, "loops_executed_zero_trip")
        R.seen(res, "trip_vectors", [t for _, _, _, t in e0.loops][:6], cap=200)
        if e0.loops and e0.trace:
            in_loop_events = True
        for spec, p1, fired, changed in variants:
            if spec in stop:
                continue
            d = None
            kind = "executed-sequence-differs"
            t0 = comparable(e0.trace, spec)
            try:
                e1 = execute(p1, fname, vec, argnames)
                t1 = comparable(e1.trace, spec)
                fd = first_diff(t0, t1)
                if fd:
                    d = fmt_diff(fd, "original", "transformed") + f" (lengths {len(t0)} / {len(t1)})"
            except UseBeforeDef as e:
                kind = "use-before-def-after-pass"
                d = str(e)[:240]
            except (MachineError, StepBudget) as e:
                kind = "transformed-program-fails"
                d = f"{type(e).__name__}: {str(e)[:240]}"
            except Unsupported as e:
                R.bump(res, "oracle_unsupported_after_pass")
                continue
            res["compared"] += 1
            R.bump(res, "events_compared", len(t0))
            R.bump(res, "uses_of_alloc_compared", _mref_uses(t0))
            R.bump(res, "compared:" + spec)
            if d:
                out.append(
                    {
                        "kind": kind,
                        "detail": f"[{spec}; fired={','.join(x[6:] for x in fired)}] {d}",
                        "case": {"text": text, "fname": fname, "args": argnames, "vec": vec, "spec": spec},
                        "info": {"spec": spec, "fired": fired},
                    }
                )
                stop.add(spec)
    for spec, p1, fired, changed in variants:
        if changed and in_loop_events:
            R.nontrivial(res, skeleton or text, spec, fired)
            R.bump(res, "nontrivial_cases")
            R.bump(res, "ir_changed:" + spec)
    return out


# ------------------------------------------------------------------------------------------------
# corpus
# ------------------------------------------------------------------------------------------------
def corpus_cases(rng):
    """Yield (text, fname, argkeys, vecs, label) for every function of the loop / alloc filecheck inputs that parses.
    Chunks that are bare op lists (no func.func) are wrapped into a function."""
    c = ctx()
    for rel in CORPUS_FILES:
        path = os.path.join(repo_path(), rel)
        if not os.path.exists(path):
            continue
        for ci, chunk in enumerate(split_file(path)):
            body = "\n".join(l for l in chunk.splitlines() if not l.lstrip().startswith("//"))
            if not body.strip():
                continue
            texts = [body]
            if "func.func" not in body:
                texts = ["func.func @main() {\n" + body + "\nfunc.return\n}\n"]
            for text in texts:
                try:
                    m = parse(c, text)
                except Exception:
                    yield text, None, [], [], f"{os.path.basename(rel)}#{ci}"
                    continue
                for f in m.walk():
                    if f.name != "func.func" or not f.body.blocks:
                        continue
                    keys = [f"#{i}" for i in range(len(f.body.blocks[0].args))]
                    vecs = []
                    for _ in range(3):
                        vecs.append({k: rng.randrange(0, 6) for k in keys})
                    yield text, f.sym_name.data, keys, vecs, f"{os.path.basename(rel)}#{ci}:{f.sym_name.data}"


# ------------------------------------------------------------------------------------------------
# shard / replay
# ------------------------------------------------------------------------------------------------
def run_shard(seed, shard, n_cases, tier):
    res = R.new_result()
    rng = random.Random(seed)
    ctx()
    if shard == 0:
        for text, fname, keys, vecs, label in corpus_cases(rng):
            R.bump(res, "corpus_cases")
            for v in run_one(text, fname, keys, vecs, res, skeleton="corpus:" + label, origin="corpus"):
                R.violation(res, v["kind"], v["detail"], v["case"], attribute(v))
    for i in range(n_cases):
        prog = gen_program(rng)
        vecs = input_vectors(prog, rng, 4)
        argn = ["A", "B"] + prog.argnames
        vs = run_one(prog.text, prog.fname, argn, vecs, res, skeleton=prog.skeleton)
        for f in prog.features:
            R.bump(res, "feature:" + f)
        R.seen(res, "skeletons", prog.skeleton, cap=300)
        for v in vs:
            R.violation(res, v["kind"], v["detail"], v["case"], attribute(v))
        if i < 2 and shard == 0:
            R.sample(res, {"program": prog.text, "vectors": vecs[:2]})
    for k, v in _fired.items():
        R.bump(res, k, v)
    return res


KNOWN = {
    # key -> (pass spec, predicate on the original module, counterfactual context manager)
    "movememrefdims-affine-min-replaced-by-constant": ("reuse-memref-allocs", "has_dim_of_min_sized_subview_in_loop", "move_memref_dims_rejects_affine_min"),
    "mergeforloops-imperfect-nest": ("pipeline-canonicalize-for", "has_imperfect_nest", "merge_for_loops_rejects_imperfect_nests"),
}


def attribute(v):
    """Known-finding attribution: structural predicate on the original program + the violation disappears when the one
    responsible repo pattern is replaced in-process by a rejecting version (vf/counterfactual/loops.py).  None = unattributed."""
    case = v.get("case") or {}
    if not case:
        return None
    from vf.counterfactual import loops as CF

    for key, (spec, pred, cf) in KNOWN.items():
        if case.get("spec") != spec:
            continue
        try:
            p0 = parse(ctx(), case["text"])
        except Exception:
            return None
        if not getattr(CF, pred)(p0):
            continue
        vecs = [] if case.get("vec") is None else [case["vec"]]
        saved = dict(_fired)  # the counterfactual re-run must not inflate the reported pattern-firing counters
        with getattr(CF, cf)():
            again = run_one(case["text"], case.get("fname", "main"), case["args"], vecs, R.new_result())
        _fired.clear()
        _fired.update(saved)
        if not [a for a in again if a["case"].get("spec") == spec]:
            return key
    return None


def replay(case):
    res = R.new_result()
    vec = case.get("vec")
    vecs = [] if vec is None else [vec]
    vs = run_one(case["text"], case.get("fname", "main"), case["args"], vecs, res)
    spec = case.get("spec")
    vs = [v for v in vs if spec is None or v["case"].get("spec") == spec]
    for v in vs:
        v["attributed"] = attribute(v)
    return vs
