"""C02 - Streamer address streams equal the scheduled element stream (translation validation).

G-stream op -> REAL insert-accfg-op, dart-scheduler, [set-memory-layout{tiled}], realize-memref-casts | dart-layout-resolution,
convert-dart-to-snax-stream.  The pass-boundary monitor keeps the dart.schedule op as it enters layout resolution (bounds, index
maps, operand memref types) and the final snax_stream.streaming_region.  Expected stream (reference layout function, in bytes) and
observed stream (streamer machine: temporal nest x spatial ports, 8-byte words) are compared step by step as byte sets.
"""
from __future__ import annotations

import itertools
import random
import warnings
from math import prod

from vf import runner as R
from vf.ctx import PassTimeout, make_ctx, parse, run_passes_limited, to_text
from vf.gen.stream_gen import gen_op
from vf.ref.layout import elsize_of, from_memref_type

LEVEL = "translation_validation"
RULE = (
    "G-stream dart.operation ops (snax_alu 1-D/2-D add/mul; snax_gemmx matmul (mac/qmac), gemm+add, matmul+rescale, rescale-only, conv-like "
    "i+j patterns; snax_xdma add) with shapes from small factor sets incl. non-multiples of the template, operand layouts none (compiler "
    "chooses, tiled and untiled), given strided (permuted/padded, offsets) and given #tsl; pushed through the real scheduling / layout / "
    "stream-conversion passes; 25 % of the modules hold a second operation of the same kind for the same accelerator (other sizes / "
    "layouts) in a function @main2 before or after the judged one, handled by the same application of every pass. One program = one op "
    "whose streams were compared. Non-trivial: >=2 temporal steps and >=2 ports; distinct by "
    "(accelerator, kernel kind, shapes, layout sources, tiled flag)."
)
ASSUMPTIONS = [
    "xDSL 0.70 is used through the /verif/vf/compat.py shim instead of the commit the repo pins",
    "streamer machine: for the temporal nest ub/ts (index 0 innermost) and every port combination of the streamer's spatial dims one 8-byte word at "
    "ptr + sum ts_i*u_i + sum ss_j*p_j (StridePattern docstring / streamer.md)",
    "reference layout function vf/ref/layout.py (byte address = element address * element size, including the layout offset)",
    "rejected / announced unsupported (counted, not judged): no schedule found (StopIteration), RuntimeError/NotImplementedError/AssertionError of the converter, "
    "and conversions that emit the converter's own 'Non-contiguous access detected' warning",
    "streams the accelerator adds itself (zero-pointer operands, empty patterns with a zero bound) are not compared",
]
TIERS = {
    "quick": {"shards": 16, "cases": 60, "timeout": 900},
    "thorough": {"shards": 16, "cases": 1800, "timeout": 7200},
}
FLOORS = {
    "quick": {"programs": 250, "streams_compared": 700, "steps_compared": 15000, "distinct_nontrivial": 80, "cases_second_operation_in_module": 50},
    "thorough": {"programs": 9000, "streams_compared": 27000, "distinct_nontrivial": 400},
}
MAX_POINTS = 80_000
WORD = 8

_ctx = None


def ctx():
    global _ctx
    if _ctx is None:
        from snaxc.accelerators.snax_xdma import SNAXXDMAAccelerator

        _ctx = make_ctx(extra_accelerators={"snax_xdma": lambda: SNAXXDMAAccelerator()})
    return _ctx


def expected_stream(bounds, amap, ref, elsize, n_template):
    """list over temporal steps (lexicographic, last outer dim fastest) of frozenset(byte offsets)."""
    D = len(bounds)
    outer = bounds[: D - n_template]
    tmpl = bounds[D - n_template :]
    steps = []
    for t in itertools.product(*[range(b) for b in outer]):
        bs = set()
        for s in itertools.product(*[range(b) for b in tmpl]):
            idx = amap.eval(list(t) + list(s), [])
            a = ref.addr(idx) * elsize
            for b in range(elsize):
                bs.add(a + b)
        steps.append(frozenset(bs))
    return steps


def observed_stream(ub, ts, ss, spatial_dims):
    """list over temporal steps (index 0 innermost) of (frozenset(byte offsets), duplicate_word_flag)."""
    steps = []
    ports = list(itertools.product(*[range(n) for n in spatial_dims[: len(ss)]]))
    for u in itertools.product(*[range(b) for b in reversed(ub)]):
        u = list(reversed(u))  # u[0] innermost
        base = sum(s * i for s, i in zip(ts, u))
        bs = set()
        dup = False
        for p in ports:
            a = base + sum(s * i for s, i in zip(ss, p))
            for b in range(WORD):
                if a + b in bs:
                    dup = True
                bs.add(a + b)
        steps.append((frozenset(bs), dup))
    return steps


GEMMX_PORT_BITS = [8, 8, 8, 32, 32]


def in_main(op):
    """True unless the op sits in a function other than @main (the second operation of a two-function module is not judged)."""
    p = op.parent_op()
    while p is not None and p.name != "func.func":
        p = p.parent_op()
    return p is None or p.sym_name.data == "main"


def merge_two(t1, t2, first):
    """Two single-function modules -> one module with @main (judged) and @main2, in the given order: whatever a pass remembers from
    one operation must not leak into the other."""
    b1 = t1.strip().split("\n")
    b2 = t2.strip().split("\n")
    assert b1[0].startswith("builtin.module") and b2[0].startswith("builtin.module")
    i1 = "\n".join(b1[1:-1])
    i2 = "\n".join(b2[1:-1]).replace("@main(", "@main2(")
    return b1[0] + "\n" + (i2 + "\n" + i1 if first else i1 + "\n" + i2) + "\n}\n"


def run_case(case, res):
    c = ctx()
    out = []
    res["evaluations"] += 1
    tiled = case["tiled"]
    try:
        m = parse(c, case["text"])
        m.verify()
    except Exception as e:
        R.bump(res, "generator_invalid")
        R.reject(res, e)
        return out
    acc_name = case["acc"]
    layout_pass = f"set-memory-layout{{tiled={tiled}}}," if tiled in ("true", "false") else ""
    try:
        run_passes_limited(c, m, f"insert-accfg-op{{accelerator={acc_name}}},dart-scheduler,{layout_pass}realize-memref-casts", 15)
    except PassTimeout:
        R.reject(res, "PassTimeout")
        return out
    except StopIteration:
        R.reject(res, "StopIteration@scheduler(no schedule)")
        return out
    except Exception as e:
        R.reject(res, e)
        return out
    scheds = [op for op in m.walk() if op.name == "dart.schedule" and in_main(op)]
    if len(scheds) != 1:
        R.reject(res, f"schedule-ops:{len(scheds)}")
        return out
    sch = scheds[0]
    bounds = [b.value.data for b in sch.bounds.data]
    if prod(bounds) > MAX_POINTS:
        R.bump(res, "too_large_skipped")
        return out
    maps = [p.data for p in sch.patterns.data]
    operands = list(sch.operands)
    acc = c.get_acc(acc_name)
    try:
        template = acc.get_template(sch)
        n_template = template.num_dims
    except Exception as e:
        R.reject(res, e)
        return out
    with warnings.catch_warnings(record=True) as wlist:
        warnings.simplefilter("always")
        try:
            run_passes_limited(c, m, "dart-layout-resolution,convert-dart-to-snax-stream", 15)
            m.verify()
        except PassTimeout:
            R.reject(res, "PassTimeout")
            return out
        except Exception as e:
            R.reject(res, e)
            return out
    if any("Non-contiguous access detected" in str(w.message) for w in wlist):
        R.reject(res, "announced-unsupported:non-contiguous-warning")
        return out
    regions = [op for op in m.walk() if op.name == "snax_stream.streaming_region" and in_main(op)]
    if len(regions) != 1:
        R.reject(res, f"streaming-regions:{len(regions)}")
        return out
    reg = regions[0]
    streamers = acc.streamer_config.data.streamers
    res["programs"] += 1
    if case.get("second_op"):
        R.bump(res, "cases_second_operation_in_module")
        R.bump(res, "second_operation:" + case["second_op"])
    nontrivial = False
    layout_classes = []
    matched_operands = set()
    for si, (ptr, pat) in enumerate(zip(reg.operands, reg.stride_patterns.data)):
        ub = [x.data for x in pat.upper_bounds.data]
        ts = [x.data for x in pat.temporal_strides.data]
        ss = [x.data for x in pat.spatial_strides.data]
        owner = ptr.owner
        if getattr(owner, "name", "") != "memref.extract_aligned_pointer_as_index":
            R.bump(res, "streams_added_by_accelerator")
            continue
        if any(b == 0 for b in ub):
            R.bump(res, "streams_empty")
            continue
        memref_val = owner.operands[0]
        cands = [i for i, o in enumerate(operands) if o is memref_val]
        if not cands:
            R.bump(res, "streams_unmatched")
            continue
        # a buffer passed for several operands: the k-th stream on it belongs to the k-th of those operands
        oi = next((i for i in cands if i not in matched_operands), cands[0])
        matched_operands.add(oi)
        t = memref_val.type
        try:
            ref = from_memref_type(t)
        except Exception as e:
            R.bump(res, "reference_cannot_instantiate")
            continue
        elsize = elsize_of(t)
        if acc_name == "snax_gemmx" and len(streamers) == 5:
            # the five gemmx ports move A (i8), B (i8), D8 (i8), C (i32), D32 (i32) words (SNAXGEMMXAccelerator.from_config): an operand
            # on a port of another element width is fetched / stored with the wrong word size whatever its stride pattern says
            R.bump(res, "port_widths_checked")
            if elsize * 8 != GEMMX_PORT_BITS[si]:
                out.append(
                    {
                        "kind": "operand-on-port-of-other-element-width",
                        "detail": f"operand {oi} ({t.element_type}) is streamed through gemmx port {si} ({'A B D8 C D32'.split()[si]}, {GEMMX_PORT_BITS[si]} bit)",
                        "case": {**case},
                        "info": {"stream": si, "operand": oi},
                    }
                )
                return out
        exp = expected_stream(bounds, maps[oi], ref, elsize, n_template)
        obs = observed_stream(ub, ts, ss, streamers[si].spatial_dims)
        R.bump(res, "streams_compared")
        res["compared"] += 1
        info = {
            "stream": si,
            "operand": oi,
            "layout": str(t.layout),
            "layout_offset": ref.offset,
            "pattern": {"ub": ub, "ts": ts, "ss": ss},
            "innermost_contiguous": True,
        }
        cs = {**case}
        # byte stride of the innermost schedule dimension that moves this operand
        inner = None
        zero = [0] * len(bounds)
        a0 = ref.addr(maps[oi].eval(zero, []))
        for dnum in reversed(range(len(bounds))):
            if bounds[dnum] > 1:
                e = list(zero)
                e[dnum] = 1
                dlt = (ref.addr(maps[oi].eval(e, [])) - a0) * elsize
                if dlt != 0:
                    inner = dlt
                    break
        info["innermost_stride_bytes"] = inner
        # is the (index map o layout) composition affine along every schedule dimension?  (oracle side, from the reference layout)
        nonlinear = False
        for dnum in range(len(bounds)):
            e = list(zero)
            e[dnum] = 1
            unit = ref.addr(maps[oi].eval(e, [])) - a0
            for kk in range(2, bounds[dnum]):
                e[dnum] = kk
                if ref.addr(maps[oi].eval(e, [])) - a0 != kk * unit:
                    nonlinear = True
                    break
            if nonlinear:
                break
        info["nonlinear_along_schedule_dim"] = nonlinear
        info["elsize"] = elsize
        T, U = len(exp), len(obs)
        if acc_name == "snax_xdma" and case["kind"] == "xdma_add" and si == 0 and U == 2 * T and ts and ts[0] == 512 and ub[0] == 2:
            # the add extension reads both inputs through one reader: even steps = operand 0, odd steps = operand 0 + 512 bytes
            even = [obs[2 * i] for i in range(T)]
            ok = all(even[i][0] == exp[i] for i in range(T))
            info["xdma_add_even_steps_match_operand0"] = ok
            if not ok and ref.offset != 0:
                from vf.ref.layout import RefLayout

                exp0 = expected_stream(bounds, maps[oi], RefLayout(ref.dims, 0), elsize, n_template)
                info["xdma_add_even_steps_match_without_layout_offset"] = all(even[i][0] == exp0[i] for i in range(T))
            out.append(
                {
                    "kind": "second-operand-fetched-at-hardcoded-offset",
                    "detail": f"xdma add: stream 0 fetches the second input at a fixed +512 bytes from the first input's pointer (pattern ub={ub} ts={ts}); even steps match operand 0: {ok}",
                    "case": cs,
                    "info": info,
                }
            )
            continue
        if U == 0 or T % U != 0:
            out.append({"kind": "stream-step-count-mismatch", "detail": f"stream {si} (operand {oi}): schedule has {T} temporal steps, streamer performs {U}", "case": cs, "info": info})
            continue
        r = T // U
        bad = None
        for u in range(U):
            want = frozenset().union(*exp[r * u : r * (u + 1)])
            got, dup = obs[u]
            if got != want:
                bad = (u, sorted(want)[:4], sorted(got)[:4], len(want), len(got))
                break
            if dup and 0 not in ss:
                bad = (u, "word fetched twice within a step", None, 0, 0)
                break
        R.bump(res, "steps_compared", U)
        if bad:
            u, w, g, lw, lg = bad
            delta = None
            if isinstance(w, list) and g and lw == lg:
                delta = w[0] - g[0]
            info["first_delta_bytes"] = delta
            if ref.offset != 0 and T % U == 0:
                from vf.ref.layout import RefLayout

                exp0 = expected_stream(bounds, maps[oi], RefLayout(ref.dims, 0), elsize, n_template)
                info["matches_without_layout_offset"] = all(frozenset().union(*exp0[r * q : r * (q + 1)]) == obs[q][0] for q in range(U))
            out.append(
                {
                    "kind": "stream-touches-other-bytes",
                    "detail": f"stream {si} (operand {oi}, {t.layout}) step {u}: expected bytes {w}.. ({lw}), fetched {g}.. ({lg}); pattern ub={ub} ts={ts} ss={ss}",
                    "case": cs,
                    "info": info,
                }
            )
            continue
        if U >= 2 and len(obs[0][0]) >= 2 * WORD:
            nontrivial = True
        layout_classes.append(str(t.layout)[:60])
    if nontrivial:
        R.nontrivial(res, case["kind"], tuple(map(tuple, case["shapes"])), tuple(case["layouts"]), tiled)
    return out


def attribute(v):
    """Known findings by mechanism (predicate + counterfactual)."""
    info = v.get("info") or {}
    case = v.get("case") or {}
    k = v["kind"]
    if k == "second-operand-fetched-at-hardcoded-offset" and info.get("xdma_add_even_steps_match_operand0"):
        return "xdma-add-second-operand-at-hardcoded-offset"
    if k == "second-operand-fetched-at-hardcoded-offset" and info.get("layout_offset") and info.get("xdma_add_even_steps_match_without_layout_offset"):
        return "layout-constant-term-dropped"
    if k == "stream-touches-other-bytes" and info.get("layout_offset") and info.get("matches_without_layout_offset"):
        # predicate: the operand layout has a non-zero constant term; counterfactual (oracle side): the observed stream is exactly the
        # expected stream of the same layout with the constant term removed
        return "layout-constant-term-dropped"
    if k in ("stream-touches-other-bytes", "stream-step-count-mismatch", "second-operand-fetched-at-hardcoded-offset") and info.get("nonlinear_along_schedule_dim"):
        from vf.counterfactual.layout_linearity import layout_resolution_rejects_nonlinear

        res2 = R.new_result()
        with layout_resolution_rejects_nonlinear():
            again = run_case(case, res2)
        if not again and any(x.startswith("NotImplementedError") for x in res2["rejected"]):
            return "schedule-dim-spans-layout-tiles-linearised"
    inner, el = info.get("innermost_stride_bytes"), info.get("elsize")
    if k in ("stream-touches-other-bytes", "stream-step-count-mismatch") and inner is not None and inner != el:
        from vf.counterfactual.stream_contiguity import converter_rejects_noncontiguous_innermost

        res2 = R.new_result()
        with converter_rejects_noncontiguous_innermost():
            again = run_case(case, res2)
        if not again and any(x.startswith("NotImplementedError") for x in res2["rejected"]):
            return "noncontiguous-innermost-stride-assumed-contiguous"
    return None


def run_shard(seed, shard, n_cases, tier):
    res = R.new_result()
    rng = random.Random(seed)
    rng_d = random.Random((seed << 4) ^ 0x2D0B)  # own stream: the judged operations stay what they were
    for i in range(n_cases):
        r = rng.random()
        if r < 0.55:
            g = gen_op(rng, layouts=("none",))
            tiled = rng.choice(["true", "true", "false"])
        elif r < 0.7:
            g = gen_op(rng, layouts=("none", "strided", "tsl", "tsl_good"))
            tiled = rng.choice(["true", "false", "off"])
        elif r < 0.88:
            g = gen_op(rng, layouts=("tsl_good",))
            tiled = "off"
        elif r < 0.94:
            # one buffer passed for both matmul inputs (P * P^T), layouts given: both operands are the same SSA value all the way
            g = gen_op(rng, layouts=rng.choice([("tsl_good",), ("none",)]), kinds=["gemmx_matmul"], gram=True)
            tiled = "off"
        else:
            g = gen_op(rng, layouts=("tsl",))
            tiled = "off"
        case = {"text": g["text"], "kind": g["kind"], "acc": g["acc"], "shapes": g["shapes"], "layouts": g["layouts"], "tiled": tiled}
        if rng_d.random() < 0.25:
            # a second operation for the same accelerator (same kind, other sizes / layouts) in a function @main2 before or after
            # the judged one: every pass of the chain handles both in one application
            base_kind = g["kind"].split("+")[0]
            for _ in range(6):
                try:
                    g2 = gen_op(rng_d, layouts=tuple(sorted(set(g["layouts"]))) or ("none",), kinds=[base_kind])
                except Exception:  # noqa: BLE001
                    continue
                if g2["acc"] == g["acc"]:
                    first = rng_d.random() < 0.5
                    case["text"] = merge_two(g["text"], g2["text"], first)
                    case["second_op"] = "before" if first else "after"
                    break
        for v in run_case(case, res):
            R.violation(res, v["kind"], v["detail"], v["case"], attribute(v), info=v.get("info"))
        R.seen(res, "kinds", f"{g['kind']}/{'+'.join(sorted(set(g['layouts'])))}/{tiled}")
        if i < 2 and shard == 0:
            R.sample(res, {"module": g["text"], "tiled": tiled})
    return res


def replay(case):
    return run_case(case, R.new_result())
