"""C16 - Returned schedules fit the accelerator template (exploration; contracts on the real functions).

On EVERY schedule yielded by the real scheduler_backtrack (also when reached through scheduler() from the real dart-scheduler
pass) the monitors of vf/contracts_sched.py check, per operand: the row space of the innermost T template dims of the schedule
matrix equals the row space of the broadcast-trimmed template matrix (exact Fraction elimination, vf/ref/rowspace.py);
bounds[-T:][i] <= template bound where that is not None; every requested constraint re-evaluated independently on the final
schedule (pure output stationarity semantically by walking the temporal nest, memory flexibility and output-channel
stationarity by a restatement of the documented predicate).  A differential monitor compares TemplatePattern.matches and
same_nonzero_singular_vectors with exact row-space equality in both directions on every call the search makes and on
directly generated pattern pairs (|entries| <= 64).
"""
from __future__ import annotations

import os
import random

# one BLAS thread per shard process (16 shards run side by side; must be set before numpy is imported)
for _v in ("OPENBLAS_NUM_THREADS", "OMP_NUM_THREADS", "MKL_NUM_THREADS"):
    os.environ.setdefault(_v, "1")

from vf import runner as R  # noqa: E402

LEVEL = "exploration"
RULE = (
    "G-sched search cases as in C03 (real alu/gemmx/xdma templates, selection-like, tile-chain, random; planted mappings row-mixed by "
    "invertible integer matrices, broadcast-trimmed operands, redundant results, bounds <=/multiple of/indivisible by the template bound, "
    "extra temporal dims, every combination of {pure output stationary, memory flexible (element sizes 1,2,4,8), output-channel "
    "stationary}); every yielded schedule up to 48 per case is checked. Matcher cases: template/schedule pattern pairs (same space by "
    "row mixing, one entry perturbed, rank deficient, near-parallel vectors with entries up to 64, broadcast, extra/zero rows, outer dims, "
    "fewer dims). Pass cases: dart.operation through the real dart-scheduler with the real get_template(). Non-trivial search: >=1 schedule "
    "yielded for >=2 dims; distinct by (family, dims, operand ranks, template dims/None-mask, checks, #yields bucket, tiled). Non-trivial "
    "matcher case: both matrices non-zero; distinct by (family, shapes, verdict)."
)
ASSUMPTIONS = [
    "Trusted base: xDSL 0.70 compatibility shim (vf/compat.py); numpy integer arithmetic; fractions.Fraction (vf/ref/rowspace.py).",
    "Broadcast rule as documented in TemplatePattern.matches: a schedule pattern with fewer results is compared with the last results of the template.",
    "A yielded schedule with fewer dims than the template (n < T) is compared with the innermost n template dims (the scheduler's own "
    "convention) and counted (fit_short_schedule); matches() on such a pattern is out of the differential's domain.",
    "Pure output stationarity is judged semantically (each distinct output index is one contiguous run of the temporal nest) when the output "
    "map is injective on its parallel temporal dims, else by the documented syntactic rule (parallel dims outside reduction dims).",
    "The SVD matcher is only judged on integer matrices with |entries| <= 64 and the default tolerance.",
    "A search that raises / yields nothing / exceeds the per-case watchdog is a rejection or inconclusive-for-that-case (counted), never a violation.",
]
TIERS = {
    "quick": {"shards": 16, "cases": 1200, "timeout": 600},
    "thorough": {"shards": 16, "cases": 72000, "timeout": 7200},
}
FLOORS = {
    # monitor-side reach only (contract evaluations, cases pushed through the real code); sized at <= 1/3 of the quick counters
    "quick": {
        "programs": 10000,
        "compared": 180000,
        "distinct_nontrivial": 1800,
        "eval:fit_yield": 9000,
        "eval:fit_rowspace": 20000,
        "eval:fit_rowspace_broadcast_trimmed": 1600,
        "eval:fit_bound": 17000,
        "eval:fit_os_semantic": 1300,
        "eval:fit_os_syntactic": 300,
        "eval:fit_mem_evaluated": 1600,
        "eval:fit_chan_evaluated": 400,
        "eval:matches_differential": 130000,
        "eval:matches_exact_span": 110000,
        "eval:matches_exact_nospan": 20000,
        "eval:matches_broadcast_trimmed": 12000,
        "eval:ssv_differential": 130000,
        "direct_matcher_cases": 7500,
        "pass_schedules_fit_checked": 450,
    },
    "thorough": {
        "programs": 300000,
        "compared": 5400000,
        "distinct_nontrivial": 12000,
        "eval:fit_yield": 270000,
        "eval:fit_rowspace": 600000,
        "eval:fit_rowspace_broadcast_trimmed": 48000,
        "eval:fit_bound": 510000,
        "eval:fit_os_semantic": 39000,
        "eval:fit_os_syntactic": 9000,
        "eval:fit_mem_evaluated": 48000,
        "eval:fit_chan_evaluated": 12000,
        "eval:matches_differential": 3900000,
        "eval:matches_exact_span": 3300000,
        "eval:matches_exact_nospan": 600000,
        "eval:ssv_differential": 3900000,
        "direct_matcher_cases": 225000,
        "pass_schedules_fit_checked": 13500,
    },
}

CAP = 48
SECONDS = 10.0
MATCHES_PER_SLOT = 4

_state = {}


def setup():
    if "cs" not in _state:
        import vf.compat  # noqa: F401
        from vf import contracts_sched as CS

        sites = CS.install()
        CS.ST.check_img = False
        CS.ST.check_fit = True
        _state["cs"] = CS
        _state["sites"] = sites
    return _state["cs"]


def ctx():
    if "ctx" not in _state:
        from vf.ctx import make_ctx

        _state["ctx"] = make_ctx()
        setup().install()
    return _state["ctx"]


def _bucket(n):
    return 0 if n == 0 else 1 if n == 1 else 2 if n < 6 else 3


def _check_real_template(case, res):
    """Pass cases: the template the real accelerator hands out equals the documented one of the generator table."""
    from vf.gen import sched_gen as G

    CS = setup()
    log = _state.get("last_templates") or []
    want = G.REAL_TEMPLATES[case["template"]]
    for t_raw in log:
        got_b = [None if b is None else int(b) for b in t_raw[0][0]]
        got_m = [r[1].tolist() for r in t_raw]
        if got_b == want["tbounds"] and got_m == want["tmats"]:
            R.bump(res, "real_template_table_agrees")
        else:
            R.bump(res, "real_template_table_differs")


def run_case(case, res):
    CS = setup()
    form = case["form"]
    res["evaluations"] += 1
    out = []
    before = dict(CS.ST.counters)

    def delta(k):
        return CS.ST.counters.get(k, 0) - before.get(k, 0)

    if form == "search":
        info = CS.drive_search(case, cap=CAP, seconds=SECONDS, also_scheduler=False)
        if info["timeout"]:
            R.bump(res, "case_timeout(inconclusive)")
        for e in info["rejected"]:
            R.reject(res, e)
        if info["yields"] == 0 and not info["timeout"]:
            R.reject(res, "no-schedule-found")
        if info["yields"]:
            res["programs"] += 1
            R.bump(res, "searches_with_schedule")
            n = len(case["sbounds"])
            if n >= 2:
                R.nontrivial(
                    res, "search", case["family"], case["mode"], n, tuple(len(m) for m in case["smats"]), len(case["tbounds"]),
                    tuple(b is None for b in case["tbounds"]), tuple(case["checks"]), _bucket(info["yields"]), len(case["sbounds"]),
                )
        res["compared"] += delta("eval:fit_rowspace") + delta("eval:fit_bound") + delta("eval:matches_differential")
        R.bump(res, "cases:search:" + case["family"].split(":")[0] + ":" + case["mode"])
        for c in case["checks"]:
            R.bump(res, "requested:" + c.split(":")[0])
    elif form == "matches":
        info = CS.drive_matches(case)
        for e in info["rejected"]:
            R.reject(res, e)
        if info["result"] is not None:
            res["programs"] += 1
            R.bump(res, "direct_matcher_cases")
            R.bump(res, "direct_matcher_verdict:" + str(info["result"]))
            if any(x for r in case["tmat"] for x in r) and any(x for r in case["smat"] for x in r):
                R.nontrivial(res, "matches", case["family"], len(case["tmat"]), len(case["smat"]), len(case["tbounds"]), len(case["sbounds"]), info["result"])
        res["compared"] += delta("eval:matches_differential") + delta("eval:ssv_differential")
        R.bump(res, "cases:matches:" + case["family"])
    elif form == "pass":
        CS.ST.template_log = []
        info = CS.drive_pass(ctx(), case, seconds=10.0)
        if info["generator_invalid"]:
            R.bump(res, "generator_invalid")
        elif info["timeout"]:
            R.bump(res, "case_timeout(inconclusive)")
        else:
            for e in info["rejected"]:
                R.reject(res, e)
        if info["emitted"]:
            res["programs"] += 1
            k = delta("eval:fit_yield")
            R.bump(res, "pass_schedules_fit_checked", k)
            if k and len(case["bounds"]) >= 2:
                R.nontrivial(res, "pass", case["kind"], tuple(case["bounds"]), info["n_out"])
        _state["last_templates"] = getattr(CS.ST, "template_log", [])
        _check_real_template(case, res)
        res["compared"] += delta("eval:fit_rowspace") + delta("eval:fit_bound") + delta("eval:matches_differential")
        R.bump(res, "cases:pass:" + case["kind"])
    else:
        raise ValueError(form)
    for v in CS.ST.take_violations():
        out.append({"kind": v["kind"], "detail": v["detail"], "case": case})
    return out


def attribute(v):
    """No known finding is registered for C16: every violation is reported."""
    return None


def gen_cases(rng, i):
    from vf.gen import sched_gen as G

    m = i % 10
    if m in (0, 1, 2, 3, 4, 5):
        return [G.gen_search(rng)]
    if m in (6, 7, 8):
        return [G.gen_matches(rng) for _ in range(MATCHES_PER_SLOT)]
    return [G.gen_pass(rng)]


MAX_RECORDED_PER_KIND = 3  # per shard; further occurrences are only counted (a broken tree fires thousands of times)


def record(res, v, per_kind):
    k = v["kind"]
    per_kind[k] = per_kind.get(k, 0) + 1
    R.bump(res, "monitor_fired:" + k)
    if per_kind[k] <= MAX_RECORDED_PER_KIND:
        R.violation(res, v["kind"], v["detail"], v["case"], attribute(v))
    else:
        R.bump(res, "violations_counted_not_recorded")


def run_shard(seed, shard, n_cases, tier):
    res = R.new_result()
    rng = random.Random(seed)
    CS = setup()
    per_kind = {}
    for i in range(n_cases):
        todo = []
        for case in gen_cases(rng, i):
            todo.append(case)
            if case["form"] == "search" and "mem" in case.get("checks", ()) and rng.random() < 0.2:
                # the same request again in the same process with other element sizes: the answer must be judged against ITS OWN
                # constraint (whatever the search remembers from the first request must not be reused)
                again = dict(case)
                again["sizes"] = [rng.choice([1, 2, 4, 8]) for _ in case["sizes"]]
                if again["sizes"] != case["sizes"]:
                    again["family"] = case["family"] + ":repeated-with-other-element-sizes" if ":" not in case["family"] else case["family"]
                    todo.append(again)
                    R.bump(res, "requests_repeated_with_other_element_sizes")
        for case in todo:
            seen_kinds = set()
            for v in run_case(case, res):
                if v["kind"] in seen_kinds:
                    continue
                seen_kinds.add(v["kind"])
                record(res, v, per_kind)
            if shard == 0 and i in (0, 6, 9):
                R.sample(res, {k: case[k] for k in case if k != "text"} if case["form"] != "pass" else {"form": "pass", "kind": case["kind"], "text": case["text"]})
    for k, v in CS.ST.counters.items():
        R.bump(res, k, v)
    for k, v in _state.get("sites", {}).items():
        R.bump(res, "rebinding_sites:" + k, v)
    return res


def replay(case):
    """Re-run exactly one recorded case against the current tree; one entry per violation kind."""
    res = R.new_result()
    out, seen = [], set()
    for v in run_case(case, res):
        if v["kind"] not in seen:
            seen.add(v["kind"])
            out.append({"kind": v["kind"], "detail": v["detail"]})
    return out
