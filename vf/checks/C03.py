"""C03 - Scheduling preserves the iteration space (exploration; contracts on the real functions).

img(S) = multiset, over all points of the bounds box, of the tuple of per-operand index tuples.  The monitors of
vf/contracts_sched.py wrap the REAL SchedulePattern/Schedule.rotate/.tile_dim/.add_dim, PatternCollection.clear_unused_dims/
.canonicalize, AccessPattern.canonicalize, scheduler_backtrack (every yielded schedule) and scheduler(schedule_idx=k) and
require img(result) == img(input); tile_dim is judged only in its documented domain (bounds[dim] % tile == 0) and calls of
tile_dim coming from scheduler_backtrack must satisfy that divisibility (the guard the property names).  Pass level:
dart.operation -> real `dart-scheduler` -> dart.schedule with img recomputed from the IR on both sides.
"""
from __future__ import annotations

import os
import random

# one BLAS thread per shard process (16 shards run side by side; must be set before numpy is imported)
for _v in ("OPENBLAS_NUM_THREADS", "OMP_NUM_THREADS", "MKL_NUM_THREADS"):
    os.environ.setdefault(_v, "1")

from vf import runner as R  # noqa: E402

LEVEL = "exploration"
RULE = (
    "G-sched: (a) search cases = template (real alu/gemmx/xdma templates, selection-like, tile-chain and random matrices, bounded/"
    "unbounded dims) + schedule with a planted mapping (row-mixed by an invertible integer matrix, broadcast-trimmed, bounds <=, "
    "multiple of, or indivisible by the template bound, 0-3 extra temporal dims, dims permuted) or fully random, 1-4 operands of "
    "different rank, entries -3..8, offsets, all extra-check combinations and element sizes; every schedule yielded by the real "
    "scheduler_backtrack (cap 48 per case) and scheduler()/scheduler(schedule_idx=k) is checked; (b) elementary cases = random schedule "
    "(bounds 1..12 incl. 1, zero rows/cols, <= 20000 points) with every rotation, tilings by divisors, add_dim, clear_unused_dims, "
    "canonicalize on Schedule and pattern level plus a random chain; (c) pass cases = matmul/transposed/batched/conv/gemm+add/rescale/"
    "alu dart.operation through `insert-accfg-op,dart-scheduler`. Non-trivial: >=2 dims, >=2 operands and a transformation that "
    "changed A; distinct by (form, family, dims, operand ranks, template dims and None-mask, checks, #yields bucket, tiled)."
)
ASSUMPTIONS = [
    "Trusted base: xDSL 0.70 compatibility shim (vf/compat.py); numpy integer arithmetic; xDSL AffineMap.eval (pass level only).",
    "img is computed by the harness from the numbers (bounds, A, b) read off the real objects; boxes > 20000 points are out of domain (counted).",
    "tile_dim is judged only when the tile divides the bound (documented domain); rotate only for 1 <= dim <= num_dims; clear_unused_dims only "
    "without custom bounds; collections whose patterns have different boxes are compared per pattern.",
    "A search that raises / yields nothing / exceeds the per-case watchdog is a rejection or inconclusive-for-that-case (counted), never a violation.",
    "Inside one search at most 24000 box points are spent on the rotate/tile_dim contracts (the rest is counted as skipped_budget); every yielded "
    "schedule up to the cap is always checked.",
]
TIERS = {
    "quick": {"shards": 16, "cases": 800, "timeout": 600},
    "thorough": {"shards": 16, "cases": 24000, "timeout": 7200},
}
FLOORS = {
    # monitor-side reach only (contract evaluations, cases pushed through the real code); sized at <= 1/3 of the quick counters
    "quick": {
        "programs": 2500,
        "compared": 30000,
        "distinct_nontrivial": 1500,
        "eval:yield_img": 8000,
        "eval:yield_img_alternative(not-first)": 5000,
        "eval:yield_img_after_tiling": 5000,
        "eval:tile_guard_in_search": 4000,
        "eval:scheduler_result_img": 1500,
        "eval:scheduler_result_img_schedule_idx": 300,
        "eval:Schedule.rotate": 40000,
        "eval:Schedule.tile_dim": 10000,
        "eval:Schedule.add_dim": 1700,
        "eval:PatternCollection.clear_unused_dims": 1700,
        "eval:PatternCollection.canonicalize": 2000,
        "eval:SchedulePattern.rotate": 2000,
        "eval:SchedulePattern.tile_dim": 3500,
        "eval:SchedulePattern.add_dim": 1200,
        "eval:AccessPattern.canonicalize": 1200,
        "eval:pass_img": 300,
    },
    "thorough": {
        "programs": 75000,
        "compared": 900000,
        "distinct_nontrivial": 10000,
        "eval:yield_img": 240000,
        "eval:yield_img_alternative(not-first)": 150000,
        "eval:yield_img_after_tiling": 150000,
        "eval:tile_guard_in_search": 120000,
        "eval:scheduler_result_img": 45000,
        "eval:Schedule.rotate": 1200000,
        "eval:Schedule.tile_dim": 300000,
        "eval:Schedule.add_dim": 50000,
        "eval:PatternCollection.clear_unused_dims": 50000,
        "eval:PatternCollection.canonicalize": 60000,
        "eval:SchedulePattern.rotate": 60000,
        "eval:SchedulePattern.tile_dim": 100000,
        "eval:AccessPattern.canonicalize": 36000,
        "eval:pass_img": 9000,
    },
}

CAP = 48
SECONDS = 10.0

_state = {}


def setup():
    """Install the monitors once per process (C03 conditions on, C16 conditions off)."""
    if "cs" not in _state:
        import vf.compat  # noqa: F401
        from vf import contracts_sched as CS

        sites = CS.install()
        CS.ST.check_img = True
        CS.ST.check_fit = False
        _state["cs"] = CS
        _state["sites"] = sites
    return _state["cs"]


def ctx():
    if "ctx" not in _state:
        from vf.ctx import make_ctx

        _state["ctx"] = make_ctx()
        setup().install()  # the pass modules are loaded now: rebind their imported references too
    return _state["ctx"]


def _bucket(n):
    return 0 if n == 0 else 1 if n == 1 else 2 if n < 6 else 3


def run_case(case, res):
    """Push one case through the real code.  Returns the list of violation dicts (kind, detail, case)."""
    CS = setup()
    form = case["form"]
    res["evaluations"] += 1
    out = []
    if form == "search":
        info = CS.drive_search(case, cap=CAP, seconds=SECONDS, also_scheduler=True)
        if info["timeout"]:
            R.bump(res, "case_timeout(inconclusive)")
        for e in info["rejected"]:
            R.reject(res, e)
        if info["yields"] == 0 and not info["timeout"]:
            R.bump(res, "search_without_schedule")
        if info["yields"]:
            res["programs"] += 1
            res["compared"] += info["yields"] + info["scheduler_calls"]
            R.bump(res, "searches_with_schedule")
            if info["yields"] >= 2:
                R.bump(res, "searches_with_>=2_alternatives")
            if info["tiled"]:
                R.bump(res, "searches_with_tiling")
            n = len(case["sbounds"])
            if n >= 2 and len(case["smats"]) >= 2 and info["changed"]:
                R.nontrivial(
                    res, "search", case["family"], case["mode"], n, tuple(len(m) for m in case["smats"]), len(case["tbounds"]),
                    tuple(b is None for b in case["tbounds"]), tuple(case["checks"]), _bucket(info["yields"]), bool(info["tiled"]),
                )
        R.bump(res, "cases:search:" + case["family"].split(":")[0] + ":" + case["mode"])
    elif form == "elementary":
        info = CS.drive_elementary(case)
        for e in info["rejected"]:
            R.reject(res, e)
        res["programs"] += 1
        res["compared"] += info["calls"]
        n = len(case["sbounds"])
        if n >= 2 and len(case["smats"]) >= 2:
            R.nontrivial(res, "elementary", n, tuple(len(m) for m in case["smats"]), tuple(b == 1 for b in case["sbounds"]), tuple(c[0] for c in case["chain"]))
        R.bump(res, "cases:elementary")
    elif form == "pass":
        info = CS.drive_pass(ctx(), case, seconds=10.0)
        if info["generator_invalid"]:
            R.bump(res, "generator_invalid")
        elif info["timeout"]:
            R.bump(res, "case_timeout(inconclusive)")
        else:
            for e in info["rejected"]:
                R.reject(res, e)
        if info["compared"]:
            res["programs"] += 1
            res["compared"] += 1
            if info["changed"] and len(case["bounds"]) >= 2:
                R.nontrivial(res, "pass", case["kind"], tuple(case["bounds"]), info["n_out"])
        R.bump(res, "cases:pass:" + case["kind"])
    else:
        raise ValueError(form)
    for v in CS.ST.take_violations():
        out.append({"kind": v["kind"], "detail": v["detail"], "case": case})
    return out


def attribute(v):
    """No known finding is registered for C03: every violation is reported."""
    return None


def gen_case(rng, i):
    from vf.gen import sched_gen as G

    m = i % 10
    if m in (0, 1, 2, 3, 4, 5):
        return G.gen_search(rng)
    if m in (6, 7, 8):
        return G.gen_elementary(rng)
    return G.gen_pass(rng)


MAX_RECORDED_PER_KIND = 3  # per shard; further occurrences are only counted (a broken tree fires thousands of times)


def record(res, v, per_kind):
    k = v["kind"]
    per_kind[k] = per_kind.get(k, 0) + 1
    R.bump(res, "monitor_fired:" + k)
    if per_kind[k] <= MAX_RECORDED_PER_KIND:
        R.violation(res, v["kind"], v["detail"], v["case"], attribute(v))
    else:
        R.bump(res, "violations_counted_not_recorded")


def run_shard(seed, shard, n_cases, tier):
    res = R.new_result()
    rng = random.Random(seed)
    CS = setup()
    per_kind = {}
    for i in range(n_cases):
        case = gen_case(rng, i)
        seen_kinds = set()
        for v in run_case(case, res):
            if v["kind"] in seen_kinds:
                continue  # one record per kind and case
            seen_kinds.add(v["kind"])
            record(res, v, per_kind)
        if shard == 0 and i in (0, 6, 9):
            R.sample(res, {k: case[k] for k in case if k != "text"} if case["form"] != "pass" else {"form": "pass", "kind": case["kind"], "text": case["text"]})
    for k, v in CS.ST.counters.items():
        R.bump(res, k, v)
    for k, v in _state.get("sites", {}).items():
        R.bump(res, "rebinding_sites:" + k, v)
    return res


def replay(case):
    """Re-run exactly one recorded case against the current tree; one entry per violation kind."""
    res = R.new_result()
    out, seen = [], set()
    for v in run_case(case, res):
        if v["kind"] not in seen:
            seen.add(v["kind"])
            out.append({"kind": v["kind"], "detail": v["detail"]})
    return out
