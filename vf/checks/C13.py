"""C13 - Cross-core dependencies are separated by a cluster barrier (translation validation, happens-before race detector).

G-cores function -> REAL insert-sync-barrier [-> REAL dispatch-regions{nb_cores=N}] -> executed once per core on the N-core machine.
Every access of a data-mover / compute operation to a buffer region (root allocation x element set, resolved through views) is
logged with the core that performs it and that core's barrier epoch (number of cluster barriers it has executed).
Oracle (barriers are the only synchronisation): (1) on the executed path every core executes the same number of barriers
(deadlock freedom; a barrier under a core-specific guard shows up as a count mismatch); (2) two accesses from different cores to
intersecting regions, at least one a write (or a dealloc), must have different epochs - same epoch <=> some legal schedule orders
them either way, so one execution per core decides all interleavings of that control path, including the loop back edge.
"""
from __future__ import annotations

import random
from collections import defaultdict

from vf import runner as R
from vf.ctx import PassTimeout, make_ctx, parse, run_passes_limited, to_text
from vf.gen.cores_gen import ARG_NAMES, MEM_ARGS, gen_program, input_vectors
from vf.interp.core import MachineError, StepBudget, Unsupported, UseBeforeDef
from vf.interp.trace_m import TraceMachine, _sid

LEVEL = "translation_validation"
RULE = (
    "G-cores functions (memref.copy / xdma regions = data mover, linalg.generic / streaming regions = compute, neutral markers; shared "
    "8x8 / 16 buffers, allocations and 4x4 subviews; straight-line, nested scf.for, scf.if; pre-existing barriers and deallocs) pushed "
    "through the real insert-sync-barrier, executed per core with the generator's role tags, and through insert-sync-barrier + "
    "dispatch-regions{nb_cores in 2,3,4}, executed per core id; 2 runtime vectors (first one runs every loop >=2 times). Non-trivial: "
    ">=1 pair of accesses from different cores to intersecting regions with a write; distinct by (skeleton, dependency classes seen: "
    "RAW/WAR/WAW, back edge, through a view, dealloc)."
)
ASSUMPTIONS = [
    "xDSL 0.70 is used through the /verif/vf/compat.py shim instead of the commit the repo pins",
    "N-core machine: every core runs the same function on its own copy of the logical buffer machine (control flow does not depend on buffer "
    "contents); the cluster barrier is the only synchronisation, so equal barrier epochs <=> unordered",
    "which core executes an op before dispatch comes from the generator's verif.kind tags (dm = last core, compute = core 0), not from snaxc.util.dispatching_rules",
    "ins are read and outs are written; accesses of neutral ops (kind all) are not part of the property and are ignored; a dealloc counts as a write by every core that executes it",
    "multi-block functions are not generated here (insert-sync-barrier walks regions in textual order)",
]
TIERS = {
    "quick": {"shards": 16, "cases": 110, "timeout": 600},
    "thorough": {"shards": 16, "cases": 10000, "timeout": 7200},
}
FLOORS = {
    "quick": {"programs": 1200, "core_runs": 8000, "conflicting_pairs_ordered_by_barriers": 20000, "barriers_executed": 10000, "distinct_nontrivial": 300, "back_edge_pairs_checked": 5000, "dealloc_pairs_checked": 200},
    "thorough": {"programs": 35000, "core_runs": 250000, "distinct_nontrivial": 3000},
}


class CoreMachine(TraceMachine):
    """One core of the cluster.  role_filter: before dispatch-regions the generator's tags decide who executes a tagged op."""

    def __init__(self, module, core_id, n_cores, role_filter, **kw):
        super().__init__(module, core_id=core_id, **kw)
        self.n_cores = n_cores
        self.role_filter = role_filter
        self.epoch = 0
        self.acc = []  # (epoch, op id, kind, root, frozenset(ids), mode, loop iteration stamp)
        self.iter_stamp = ()
        # after snax-to-func the barrier is a call of the runtime's hardware barrier
        self.call_handlers["snax_cluster_hw_barrier"] = self._hw_barrier
        for name in ("memref.copy", "linalg.generic", "dart.operation", "dart.schedule", "dart.access_pattern", "snax_stream.streaming_region"):
            h = self.handlers.get(name)
            if h is not None:
                self.handlers[name] = self._guarded(h)

    def _hw_barrier(self, op, args):
        self.hw_barrier_calls = getattr(self, "hw_barrier_calls", 0) + 1
        self.on_barrier(op)
        return []

    def _mine(self, op):
        if not self.role_filter:
            return True
        k = _sid(op, "verif.kind")
        if k == "dm":
            return self.core_id == self.n_cores - 1
        if k == "compute":
            return self.core_id == 0
        return True

    def _guarded(self, h):
        def run(op):
            if self._mine(op):
                return h(op)
            return None

        return run

    def on_iteration(self, op, block, n):
        self.iter_stamp = self.iter_stamp + ((id(op), n),)

    def on_loop_exit(self, op, trips=None):
        super().on_loop_exit(op, trips)
        self.iter_stamp = tuple(x for x in self.iter_stamp if x[0] != id(op))

    def run_block(self, block, args=()):
        # keep only the latest stamp per loop
        seen = {}
        for lid, n in self.iter_stamp:
            seen[lid] = n
        self.iter_stamp = tuple(seen.items())
        return super().run_block(block, args)

    def on_access(self, op, mref, mode):
        k = _sid(op, "verif.kind")
        if op.name == "memref.dealloc":
            k = "dealloc"
        elif k not in ("dm", "compute"):
            return
        root, ids = mref.region()
        self.acc.append((self.epoch, _sid(op) or op.name, k, root, ids, mode, self.iter_stamp, id(mref.root) if False else None, str(op.operands[0].type) if False else None))

    def on_barrier(self, op):
        super().on_barrier(op)
        self.epoch += 1


def run_cores(module, vec, n_cores, role_filter):
    runs = []
    for c in range(n_cores):
        m = CoreMachine(module, c, n_cores, role_filter, step_budget=300_000)
        f = m.funcs["main"]
        args = []
        for i, a in enumerate(f.body.blocks[0].args):
            name = ARG_NAMES[i]
            if name in MEM_ARGS:
                args.append(m.arg_buffer(i, [s for s in a.type.get_shape()]))
            else:
                args.append(vec[name])
        m.run_func("main", args)
        runs.append(m)
    return runs


def analyse(runs, res):
    """Returns (violation or None, classes seen)."""
    classes = set()
    counts = [m.epoch for m in runs]
    R.bump(res, "barriers_executed", sum(counts))
    if len(set(counts)) != 1:
        return {"kind": "barrier-not-executed-by-all-cores", "detail": f"barriers executed per core: {counts}", "info": {}}, classes
    by = defaultdict(list)
    for c, m in enumerate(runs):
        for a in m.acc:
            by[(a[3], a[0])].append((c, a))
    for (root, epoch), lst in by.items():
        cores = {c for c, _ in lst}
        if len(cores) < 2:
            continue
        for i, (c1, a1) in enumerate(lst):
            for c2, a2 in lst[i + 1 :]:
                if c1 == c2:
                    continue
                R.bump(res, "cross_core_pairs_checked")
                if a1[5] == "R" and a2[5] == "R":
                    continue
                if a1[2] == a2[2] == "dealloc":
                    continue  # every core executes the same dealloc: not a dependency between cores
                if not (a1[4] & a2[4]):
                    continue
                dep = "WAW" if a1[5] == a2[5] == "W" else "RAW/WAR"
                back = a1[6] != a2[6]
                return (
                    {
                        "kind": "cross-core-accesses-not-separated-by-barrier",
                        "detail": f"core {c1} {a1[2]} op {a1[1]} ({a1[5]}) and core {c2} {a2[2]} op {a2[1]} ({a2[5]}) touch {len(a1[4] & a2[4])} common elements of {root.split('#')[0]} in barrier epoch {epoch} ({dep}{', different loop iterations' if back else ''})",
                        "info": {"ops": [a1[1], a2[1]], "kinds": [a1[2], a2[2]], "different_iterations": back, "dealloc": "dealloc" in (a1[2], a2[2])},
                    },
                    classes,
                )
    # dependency classes that were *ordered* by barriers (for the non-trivial count)
    allacc = [(c, a) for c, m in enumerate(runs) for a in m.acc]
    byroot = defaultdict(list)
    for c, a in allacc:
        byroot[a[3]].append((c, a))
    for root, lst in byroot.items():
        for i, (c1, a1) in enumerate(lst):
            for c2, a2 in lst[i + 1 :]:
                if c1 != c2 and (a1[5] == "W" or a2[5] == "W") and not (a1[2] == a2[2] == "dealloc") and (a1[4] & a2[4]):
                    R.bump(res, "conflicting_pairs_ordered_by_barriers")
                    classes.add("WAW" if a1[5] == a2[5] else "RW")
                    if a1[6] != a2[6]:
                        classes.add("backedge")
                        R.bump(res, "back_edge_pairs_checked")
                    if "dealloc" in (a1[2], a2[2]):
                        classes.add("dealloc")
                        R.bump(res, "dealloc_pairs_checked")
    return None, classes


TAILS = [
    # alloc ; dm fills it ; compute reads it ; dealloc
    """    %zb = memref.alloc() {verif.id = "alz", verif.kind = "all"} : memref<8x8xi32>
    "memref.copy"(%A, %zb) {verif.id = "dz1", verif.kind = "dm"} : (memref<8x8xi32>, memref<8x8xi32>) -> ()
    "linalg.generic"(%zb, %B) <{indexing_maps = [affine_map<(d0, d1) -> (d0, d1)>, affine_map<(d0, d1) -> (d0, d1)>], iterator_types = [#linalg.iterator_type<parallel>, #linalg.iterator_type<parallel>], operandSegmentSizes = array<i32: 1, 1>}> ({
    ^bb0(%zx: i32, %zy: i32):
      "linalg.yield"(%zx) : (i32) -> ()
    }) {verif.id = "kz1", verif.kind = "compute"} : (memref<8x8xi32>, memref<8x8xi32>) -> ()
    "memref.dealloc"(%zb) {verif.id = "fz", verif.kind = "all"} : (memref<8x8xi32>) -> ()
""",
    # alloc ; compute writes it ; dm copies it out ; dealloc
    """    %zb = memref.alloc() {verif.id = "alz", verif.kind = "all"} : memref<8x8xi32>
    "linalg.generic"(%C, %zb) <{indexing_maps = [affine_map<(d0, d1) -> (d0, d1)>, affine_map<(d0, d1) -> (d0, d1)>], iterator_types = [#linalg.iterator_type<parallel>, #linalg.iterator_type<parallel>], operandSegmentSizes = array<i32: 1, 1>}> ({
    ^bb0(%zx: i32, %zy: i32):
      "linalg.yield"(%zx) : (i32) -> ()
    }) {verif.id = "kz1", verif.kind = "compute"} : (memref<8x8xi32>, memref<8x8xi32>) -> ()
    "memref.copy"(%zb, %A) {verif.id = "dz1", verif.kind = "dm"} : (memref<8x8xi32>, memref<8x8xi32>) -> ()
    "memref.dealloc"(%zb) {verif.id = "fz", verif.kind = "all"} : (memref<8x8xi32>) -> ()
""",
    # dealloc right after a single dm use (compute core must not run ahead and reuse it: still a barrier before the free)
    """    %zb = memref.alloc() {verif.id = "alz", verif.kind = "all"} : memref<8x8xi32>
    "memref.copy"(%B, %zb) {verif.id = "dz1", verif.kind = "dm"} : (memref<8x8xi32>, memref<8x8xi32>) -> ()
    "memref.dealloc"(%zb) {verif.id = "fz", verif.kind = "all"} : (memref<8x8xi32>) -> ()
""",
]


def add_tail(text, which):
    """Append an alloc / cross-core use / dealloc sequence in front of the last func.return of @main."""
    i = text.rfind("func.return")
    j = text.rfind("\n", 0, i) + 1
    return text[:j] + TAILS[which] + text[j:]


def inject_deallocs(module, seed):
    """G-cores rarely deallocates a buffer that a dm/compute op uses: free such buffers at the end of the block that allocates them."""
    if seed is None:
        return 0
    from xdsl.dialects.memref import DeallocOp
    from xdsl.rewriter import InsertPoint, Rewriter

    rng = random.Random(seed)
    rw = Rewriter()
    n = 0
    for op in list(module.walk()):
        if op.name != "memref.alloc" or rng.random() < 0.4:
            continue
        users = [u.operation for u in op.results[0].uses]
        if not any(_sid(u, "verif.kind") in ("dm", "compute") for u in users):
            continue
        blk = op.parent_block()
        # every user must live in this block or below it, and the buffer must not already be freed
        if any(u.name == "memref.dealloc" for u in users):
            continue
        last = blk.last_op
        d = DeallocOp.get(op.results[0])
        if last is not None and last.name in ("scf.yield", "func.return"):
            rw.insert_op(d, InsertPoint.before(last))
        else:
            rw.insert_op(d, InsertPoint.at_end(blk))
        n += 1
    return n


_ctx = None


def ctx():
    global _ctx
    if _ctx is None:
        from snaxc.accelerators.snax_xdma import SNAXXDMAAccelerator

        _ctx = make_ctx(extra_accelerators={"snax_xdma": lambda: SNAXXDMAAccelerator()})
    return _ctx


def run_case(case, res):
    c = ctx()
    out = []
    res["evaluations"] += 1
    try:
        p0 = parse(c, case["text"])
        p0.verify()
    except Exception as e:
        R.bump(res, "generator_invalid")
        R.reject(res, e)
        return out
    ndeal = inject_deallocs(p0, case.get("dealloc_seed"))
    R.bump(res, "deallocs_injected", ndeal)
    variants = []
    for spec, n, rf in (
        ("insert-sync-barrier", 2, True),
        (f"insert-sync-barrier,dispatch-regions{{nb_cores={case['n']}}}", case["n"], False),
        (f"insert-sync-barrier,dispatch-regions{{nb_cores={case['n']}}},snax-to-func", case["n"], False),
    ):
        p = p0.clone()
        try:
            run_passes_limited(c, p, spec, 10)
            p.verify()
        except PassTimeout:
            R.reject(res, "PassTimeout")
            continue
        except Exception as e:
            R.reject(res, e)
            continue
        variants.append((spec, n, rf, p))
    if not variants:
        return out
    res["programs"] += 1
    classes_all = set()
    for spec, n, rf, p in variants:
        for vec in case["vecs"]:
            try:
                runs = run_cores(p, vec, n, rf)
            except (UseBeforeDef, MachineError) as e:
                out.append({"kind": "program-with-barriers-fails", "detail": f"[{spec}] {type(e).__name__}: {e}"[:300], "case": case, "info": {}})
                return out
            except (Unsupported, StepBudget) as e:
                R.bump(res, "oracle_skipped:" + type(e).__name__)
                continue
            R.bump(res, "core_runs", n)
            R.bump(res, "hw_barrier_calls_executed", sum(getattr(m, "hw_barrier_calls", 0) for m in runs))
            res["compared"] += 1
            v, classes = analyse(runs, res)
            classes_all |= classes
            if v and v["info"].get("ops"):
                v["info"]["different_ssa_values"] = reach_through_different_values(p, v["info"]["ops"])
            if v:
                v["detail"] = f"[{spec}] " + v["detail"] + f" (vector {vec})"
                v["case"] = case
                v["info"]["spec"] = spec
                out.append(v)
                return out
    if classes_all:
        R.nontrivial(res, case["skel"], tuple(sorted(classes_all)))
    return out


VIEW_OPS = ("memref.subview", "memref.cast", "memref.memory_space_cast", "snax.layout_cast")


def base_of(v):
    while getattr(v.owner, "name", "") in VIEW_OPS:
        v = v.owner.operands[0]
    return v


def reach_through_different_values(module, ids):
    """Predicate: the two ops have memref operands with a common base buffer but no memref SSA value in common on that base."""
    ops = {}
    for op in module.walk():
        i = _sid(op)
        if i in ids and op.name not in ("memref.alloc",):
            ops[i] = op
    if len(ops) != 2:
        return False
    a, b = ops.values()
    va = {o for o in a.operands if o.type.name == "memref"}
    vb = {o for o in b.operands if o.type.name == "memref"}
    for x in va:
        for y in vb:
            if base_of(x) is base_of(y):
                # common root: is it reached through a shared SSA value?
                shared = {o for o in va if base_of(o) is base_of(x)} & {o for o in vb if base_of(o) is base_of(x)}
                if not shared:
                    return True
    return False


def attribute(v):
    """Known finding by mechanism: predicate on the race witness + counterfactual alias-aware barrier insertion."""
    info = v.get("info") or {}
    case = v.get("case")
    if v["kind"] == "cross-core-accesses-not-separated-by-barrier" and info.get("different_ssa_values") and case:
        from vf.counterfactual.sync_alias import alias_aware_sync_barriers

        with alias_aware_sync_barriers():
            again = run_case(case, R.new_result())
        if not again:
            return "dependency-through-view-not-seen"
    return None


def run_shard(seed, shard, n_cases, tier):
    res = R.new_result()
    rng = random.Random(seed)
    for i in range(n_cases):
        prog = gen_program(rng, sync_ops=rng.random() < 0.3, dealloc=rng.random() < 0.3, xdma=rng.random() < 0.3, multi_block=False, helper=False)
        vecs = input_vectors(prog, rng, 2)
        text = prog.text
        if rng.random() < 0.4:
            text = add_tail(text, rng.randrange(len(TAILS)))
        case = {"text": text, "vecs": vecs, "n": rng.choice([2, 3, 4]), "skel": prog.skeleton, "dealloc_seed": rng.randrange(1 << 30) if rng.random() < 0.5 else None}
        for v in run_case(case, res):
            R.violation(res, v["kind"], v["detail"], v["case"], attribute(v), info=v.get("info"))
        if i < 2 and shard == 0:
            R.sample(res, {"module": prog.text[:3000], "vectors": vecs})
    return res


def replay(case):
    return run_case(case, R.new_result())
