"""C20 - A merged processing element, configured as decoded, computes each kernel (exploration, history checking).

History k1..kn (n <= 5):  abstract = convert_generic_body_to_phs(k1); for every further kernel the REAL
append_to_abstract_graph merges it.  After EVERY merge step every kernel seen so far is decoded again with the REAL
decode_abstract_graph; the PE interpreter (vf/interp/pe_m.py) evaluates the abstract graph under the decoded switch
values on corner and random data inputs and the result is compared with the kernel body evaluated by vf/interp/scalar.py.
Also: pe.get_true_switches() == len(decoded) == number of phs_switch_i fields of SNAXPHSAccelerator(pe, spec).
"""
from __future__ import annotations

import itertools
import random

from vf import runner as R
from vf.ctx import make_ctx, parse
from vf.gen import phs_gen as G
from vf.interp import pe_m as PE
from vf.interp import scalar as S

LEVEL = "exploration"
RULE = (
    "G-phs histories of 1-5 kernel bodies (1-4 binary ops each; integer ops addi/subi/muli/andi/ori/xori/max/min/div/rem/"
    "shift on i8/i16/i32/i64, float ops addf/subf/mulf/divf/maximumf/minimumf/maxnumf/minnumf on f16/f32/f64; 1-4 data "
    "inputs; later kernels are either fresh or relatives of earlier ones with swapped operands, rerouted operands, another "
    "operation or an extra op, dead tails), each kernel set merged in every order for n<=3 and in 4 sampled orders beyond. "
    "Classes outside the stated quantifier are generated on purpose and counted separately, never judged as violations: "
    "'ports' (a kernel leaves a data input unused or reads the output argument, so its port list differs), 'mixed' (element "
    "types differ between kernels), 'attr' (arith.cmpi: an op whose meaning depends on an attribute).  Non-trivial: after "
    "the last merge the abstract graph holds >=1 mux or a choose with >=2 alternatives (read off the graph by the monitor). "
    "Distinct by (kernel skeletons in merge order)."
)
ASSUMPTIONS = [
    "xDSL 0.70 compatibility shim (vf/compat.py) is semantically neutral for the functions under test",
    "PE interpreter vf/interp/pe_m.py: choose = operation of the region selected by its switch applied to all data operands "
    "(single-region choose: switch optimised away, value 0), mux = lhs for 0 / rhs for 1, decoded values mapped onto the "
    "switches in block-argument order skipping single-region chooses (the numbering of the phs_switch_i fields); the graph "
    "is combinational and evaluated demand-driven from the yield",
    "operation semantics inside choose regions and kernel bodies come from the same scalar evaluator vf/interp/scalar.py "
    "(two's complement at the declared width; floats rounded to f16/f32/f64 after every op); input vectors on which the kernel "
    "body itself is undefined (division by zero, shift >= width) are skipped",
    "the PE's data ports are the kernel's *used* block arguments in order (the encoder erases unused ones); a kernel whose "
    "used-argument types differ from the ports fixed by the first kernel does not conform: it is merged (the compiler "
    "accepts some of them) but neither it nor anything after it in that history is judged",
    "an exception other than MappingNotFoundError on the FIRST decode of a kernel, an exception of append_to_abstract_graph and "
    "a verifier failure of the merged PE are rejections by the compiler and end the history",
    "SNAXPHSAccelerator is built with an identity 1-D TemplateSpec (one reader per data port, one writer)",
]
TIERS = {
    "quick": {"shards": 16, "cases": 40, "timeout": 600},
    "thorough": {"shards": 16, "cases": 2400, "timeout": 7200},
}
FLOORS = {
    "quick": {
        "programs": 500,
        "distinct_nontrivial": 300,
        "merge_steps_checked": 1200,
        "decodes_checked": 3000,
        "vectors_compared": 500000,
        "switch_count_checks": 3000,
        "accelerator_field_checks": 400,
    },
    "thorough": {
        "programs": 15000,
        "distinct_nontrivial": 8000,
        "merge_steps_checked": 36000,
        "decodes_checked": 90000,
        "vectors_compared": 15000000,
        "switch_count_checks": 90000,
        "accelerator_field_checks": 12000,
    },
}

_ctx = None


def ctx():
    global _ctx
    if _ctx is None:
        _ctx = make_ctx()
    return _ctx


# ------------------------------------------------------------------------------------------------
# real functions under test
# ------------------------------------------------------------------------------------------------
def real():
    from xdsl.pattern_rewriter import PatternRewriter

    from snaxc.phs.combine import append_to_abstract_graph
    from snaxc.phs.decode import decode_abstract_graph
    from snaxc.phs.encode import convert_generic_body_to_phs

    return PatternRewriter, convert_generic_body_to_phs, append_to_abstract_graph, decode_abstract_graph


_parsed: dict = {}


def generic_of(text):
    """A fresh copy of the kernel's module (parsed once per text, cloned per request: the real encoder gets an op that no
    earlier call could have touched)."""
    m0 = _parsed.get(text)
    if m0 is None:
        if len(_parsed) > 64:
            _parsed.clear()
        m0 = parse(ctx(), text)
        m0.verify()
        _parsed[text] = m0
    m = m0.clone()
    g = [op for op in m.walk() if op.name == "linalg.generic"][0]
    return m, g


def encode(text):
    PatternRewriter, convert, _, _ = real()
    m, g = generic_of(text)
    pe = convert(g, "acc", PatternRewriter(g))
    return pe, m


def kernel_reference(text):
    """(Body of the kernel, indices of its used block arguments, their types) - read off a fresh parse."""
    m, g = generic_of(text)
    block = g.regions[0].blocks[0]
    used = set()
    for op in block.ops:
        for o in op.operands:
            if o.owner is block:
                used.add(o.index)
    used = sorted(used)
    body = S.Body(block)
    return body, used, [block.args[i].type for i in used], [a.type for a in block.args], m


_acc_spec_cache = {}


def accelerator_switch_fields(pe, n_data):
    from xdsl.ir.affine import AffineMap

    from snaxc.accelerators.snax_phs import SNAXPHSAccelerator
    from snaxc.phs.template_spec import TemplateSpec

    spec = _acc_spec_cache.get(n_data)
    if spec is None:
        ident = AffineMap.identity(1)
        spec = TemplateSpec(tuple(ident for _ in range(max(1, n_data))), (ident,), (4,))
        _acc_spec_cache[n_data] = spec
    acc = SNAXPHSAccelerator(pe, spec)
    return [f for f in acc.fields if f.startswith("phs_switch_")]


# ------------------------------------------------------------------------------------------------
# one history
# ------------------------------------------------------------------------------------------------
def run_history(kernels, klass, vec_seed, res, n_random=200, max_corner=150):
    """Returns the list of violation dicts.  `kernels` is the list of kernel specs in merge order."""
    out = []
    _, _, append, decode = real()
    texts = [G.render_kernel(k) for k in kernels]
    case = {"kernels": kernels, "klass": klass, "vec_seed": vec_seed, "n_random": n_random, "max_corner": max_corner}
    judged_class = klass != "attr"
    res["evaluations"] += 1
    rng = random.Random(vec_seed)
    try:
        refs = [kernel_reference(t) for t in texts]
    except Exception as e:  # noqa: BLE001
        R.bump(res, "generator_invalid:" + type(e).__name__)
        return out
    try:
        abstract, _keep = encode(texts[0])
        abstract.verify()
    except Exception as e:  # noqa: BLE001
        R.reject(res, e)
        return out
    ports = [S.type_key(t) for t in refs[0][2]]
    try:
        pe_ports = [S.type_key(a.type) for a in PE.split_args(abstract)[0]]
    except PE.PEError:
        pe_ports = None
    if pe_ports != ports:
        out.append(
            {"kind": "encoded-pe-ports-differ-from-used-arguments", "detail": f"kernel uses arguments of types {ports}, PE data ports are {pe_ports}", "case": case, "info": {"klass": klass}}
        )
        return out
    res["programs"] += 1
    decoded_ok = [False] * len(kernels)
    conforming = [None] * len(kernels)
    skip = [False] * len(kernels)
    executed_any = False
    for step in range(len(kernels)):
        if step > 0:
            conf = [S.type_key(t) for t in refs[step][2]] == ports
            conforming[step] = conf
            try:
                pe_k, _keep2 = encode(texts[step])
                append(pe_k, abstract)
            except Exception as e:  # noqa: BLE001
                R.reject(res, e)
                R.bump(res, "history_ended_by_rejected_merge" + ("" if conf and judged_class else ":" + ("nonconforming" if not conf else klass)))
                break
            try:
                abstract.verify()
            except Exception as e:  # noqa: BLE001
                R.reject(res, "verify-failed-after-append")
                R.bump(res, "history_ended_by_rejected_merge" + ("" if conf and judged_class else ":" + ("nonconforming" if not conf else klass)))
                R.seen(res, "verify_failures_after_append", f"{klass}: {[G.skeleton(k) for k in kernels[: step + 1]]}: {str(e)[:160]}", cap=8)
                break
            if not conf:
                R.bump(res, "repo:nonconforming_kernel_accepted_by_merge")
                R.bump(res, "history_truncated_after_nonconforming_merge")
                break
        else:
            conforming[0] = True
        R.bump(res, "merge_steps_checked")
        stats = PE.graph_stats(abstract)
        for ki in range(step + 1):
            if skip[ki]:
                continue
            body, used, ptypes, all_types, _m = refs[ki]
            try:
                pe_k, _keep3 = encode(texts[ki])
                decoded = list(decode(abstract, pe_k))
            except Exception as e:  # noqa: BLE001
                name = type(e).__name__
                if not judged_class:
                    R.bump(res, f"outside_quantifier:{klass}:decode_raised:{name}")
                    skip[ki] = True
                    continue
                if name == "MappingNotFoundError" or decoded_ok[ki]:
                    out.append(
                        {
                            "kind": "earlier-kernel-became-undecodable" if decoded_ok[ki] else "merged-kernel-undecodable",
                            "detail": f"kernel #{ki} [{G.skeleton(kernels[ki])}] after merging kernel #{step}: {name}: {str(e)[:160]}",
                            "case": case,
                            "info": {"klass": klass, "step": step, "kernel": ki},
                        }
                    )
                    return out
                R.reject(res, e)
                skip[ki] = True
                continue
            R.bump(res, "decodes_checked")
            if ki < step:
                R.bump(res, "earlier_kernel_redecoded_after_later_merge")
            decoded_ok[ki] = True
            info = {"klass": klass, "step": step, "kernel": ki, "decoded": decoded, "stats": stats}
            # -- switch counts ------------------------------------------------------------------
            R.bump(res, "switch_count_checks")
            try:
                reported = abstract.get_true_switches()
            except Exception as e:  # noqa: BLE001
                reported = f"{type(e).__name__}"
            mine = len(PE.true_switches(abstract))
            if reported != len(decoded) or mine != len(decoded):
                v = {
                    "kind": "switch-count-mismatch",
                    "detail": f"decode returned {len(decoded)} values, get_true_switches() = {reported}, hardware switches in the graph = {mine} "
                    f"(kernel #{ki} after merging #{step})",
                    "case": case,
                    "info": info,
                }
                if judged_class:
                    out.append(v)
                    return out
                R.bump(res, f"outside_quantifier:{klass}:switch_count_mismatch")
                continue
            # -- function -----------------------------------------------------------------------
            try:
                cfg = PE.ConfiguredPE(abstract, PE.assign(abstract, decoded))
            except (PE.PEError, S.UnsupportedOp) as e:
                if isinstance(e, S.UnsupportedOp):
                    R.bump(res, "oracle_skipped:UnsupportedOp")
                    continue
                v = {
                    "kind": "decoded-configuration-does-not-compute",
                    "detail": f"kernel #{ki} [{G.skeleton(kernels[ki])}] after merging #{step}, switches {decoded}: {e}",
                    "case": case,
                    "info": info,
                }
                if judged_class:
                    out.append(v)
                    return out
                R.bump(res, f"outside_quantifier:{klass}:configuration_does_not_compute")
                continue
            bad = None
            n = 0
            filler = [S.random_value(rng, t) for t in all_types]  # unused block arguments: any value
            for vec in S.input_vectors(rng, ptypes, n_random, max_corner):
                full = list(filler)
                for pos, x in zip(used, vec):
                    full[pos] = x
                try:
                    want = body(full)
                except S.UndefinedResult:
                    R.bump(res, "vectors_kernel_undefined")
                    continue
                try:
                    got = cfg(vec)
                except S.UndefinedResult as e:
                    got = [f"undefined ({e})"]
                n += 1
                if len(want) != len(got) or not all(S.same_value(p, q) for p, q in zip(want, got)):
                    bad = (vec, want, got)
                    break
            res["compared"] += n
            R.bump(res, "vectors_compared", n)
            if n:
                executed_any = True
            if bad is not None:
                vec, want, got = bad
                v = {
                    "kind": "decoded-pe-computes-different-function",
                    "detail": f"kernel #{ki} [{G.skeleton(kernels[ki])}] after merging #{step}: switches {decoded} select [{' -> '.join(cfg.active_ops)}]; "
                    f"at inputs {[S.show(x, t) for x, t in zip(vec, ptypes)]} the kernel yields {[S.show(x, cfg.out_types[0]) for x in want]}, "
                    f"the PE {[S.show(x, cfg.out_types[0]) if not isinstance(x, str) else x for x in got]}",
                    "case": case,
                    "info": info,
                }
                if judged_class:
                    out.append(v)
                    return out
                R.bump(res, f"outside_quantifier:{klass}:function_mismatch")
                R.seen(res, "outside_quantifier_examples", v["detail"][:300], cap=6)
                skip[ki] = True
        # -- accelerator fields (once per step) ---------------------------------------------------
        try:
            fields = accelerator_switch_fields(abstract, len(ports))
        except Exception as e:  # noqa: BLE001
            R.reject(res, e)
            fields = None
        if fields is not None:
            R.bump(res, "accelerator_field_checks")
            mine = len(PE.true_switches(abstract))
            if len(fields) != mine or fields != [f"phs_switch_{i}" for i in range(mine)]:
                v = {
                    "kind": "accelerator-switch-fields-mismatch",
                    "detail": f"SNAXPHSAccelerator declares {fields} for a PE with {mine} hardware switches (after merging #{step})",
                    "case": case,
                    "info": {"klass": klass, "step": step},
                }
                if judged_class:
                    out.append(v)
                    return out
                R.bump(res, f"outside_quantifier:{klass}:field_mismatch")
    try:
        stats = PE.graph_stats(abstract)
    except Exception:  # noqa: BLE001
        stats = {"muxes": 0, "max_alternatives": 0}
    R.bump(res, "graph_muxes_total", stats["muxes"])
    R.seen(res, "graph_shapes", [stats["muxes"], stats["chooses"], stats["max_alternatives"]], cap=200)
    if executed_any and (stats["muxes"] >= 1 or stats["max_alternatives"] >= 2) and klass == "uniform":
        R.nontrivial(res, tuple(G.skeleton(k) for k in kernels))
        R.bump(res, "nontrivial_histories")
    return out


K_REPEAT = "choose-region-collapses-repeated-operand"


def has_repeated_operand(kernels) -> bool:
    return any(o[0] == o[1] for k in kernels for _, o in k["ops"])


def attribute(v):
    """Known-finding attribution: structural predicate on the history + counterfactual re-run."""
    case = v.get("case") or {}
    if v["kind"] in ("decoded-pe-computes-different-function",) and case.get("kernels"):
        step = (v.get("info") or {}).get("step", len(case["kernels"]) - 1)
        # predicate: a kernel merged at or before the failing step contains an operation that reads the same value twice.
        if has_repeated_operand(case["kernels"][: step + 1]):
            from vf.counterfactual.phs_cf import positional_choose_regions

            with positional_choose_regions():
                again = replay(case)
            if not again:
                return K_REPEAT
    return None


def replay(case):
    res = R.new_result()
    return run_history(case["kernels"], case.get("klass", "uniform"), case["vec_seed"], res, case.get("n_random", 200), case.get("max_corner", 150))


def run_shard(seed, shard, n_cases, tier):
    res = R.new_result()
    rng = random.Random(seed)
    ctx()
    for i in range(n_cases):
        h = G.gen_history(rng)
        ks = [k for k in h["kernels"] if G.well_formed(k)]
        if not ks:
            R.bump(res, "generator_invalid")
            continue
        R.bump(res, "kernel_sets:" + h["klass"])
        n = len(ks)
        perms = list(itertools.permutations(range(n)))
        if n > 3:
            perms = [perms[0]] + rng.sample(perms[1:], 3)
        R.bump(res, f"kernel_sets_of_size_{n}")
        for perm in perms:
            order = [ks[j] for j in perm]
            R.bump(res, "histories:" + h["klass"])
            vs = run_history(order, h["klass"], rng.getrandbits(32), res)
            for v in vs:
                R.violation(res, v["kind"], v["detail"], v["case"], attribute(v))
                R.bump(res, "violations:" + v["kind"])
        if shard == 0 and i < 3:
            R.sample(res, {"klass": h["klass"], "kernels": [G.skeleton(k) for k in ks], "orders": len(perms), "first_kernel": G.render_kernel(ks[0])})
    return res
