"""C14 - Dispatch runs each operation on exactly the cores it belongs to (translation validation).

P --dispatch-regions{nb_cores=N}--> Pd  [--function-constant-pinning--> Pp]          (the REAL passes, N in {2,3,4,8})
P is executed once per runtime vector on the trace machine (vf/interp/trace_m.py); Pd and Pp are executed once per core id
c in 0..N-1 (func.call @snax_cluster_core_idx returns c).  Oracle:

    trace_c(Pd) == trace_c(Pp) == filter_c(trace(P))

where filter_c keeps an event of the original run iff its op's tag verif.kind is "dm" and c == N-1, or "compute" and c == 0, or
anything else.  The tags are the generator's independent classification (corpus inputs are tagged by op name by `tag_corpus`
below); snaxc.util.dispatching_rules is never consulted.  module.verify() failure, a read of an unbound SSA value
(UseBeforeDef) or a machine error that P does not have is a violation.
"""
from __future__ import annotations

import os
import random

from xdsl.dialects.builtin import StringAttr

from vf import runner as R
from vf.compat import repo_path
from vf.corpus import split_file
from vf.ctx import PassTimeout, make_ctx, parse, run_passes_limited, to_text
from vf.gen.cores_gen import ARG_NAMES, gen_program, input_vectors
from vf.interp.buf_m import make_args
from vf.interp.core import MachineError, StepBudget, Unsupported, UseBeforeDef
from vf.interp.trace_m import TraceMachine, first_diff, fmt_diff

LEVEL = "translation_validation"
RULE = (
    "G-cores programs (memref.copy / xdma dart.operation = dm, linalg.generic with and without library_call / dart.operation "
    "on snax_alu, snax_gemmx = compute, test.op markers / arith / alloc / subview / barriers = all; straight-line, nested "
    "scf.for and scf.if (with else / with results), 18% with several blocks (cf.br, cf.cond_br), 12% with a called helper "
    "function that is dispatched too; every op tagged verif.kind by the generator) plus every filecheck function with copies / generics that executes on the machine; each pushed through the "
    "real dispatch-regions for two core counts out of {2,3,4,8} and through function-constant-pinning, executed for every core id "
    "and 2 runtime vectors. Non-trivial: >=1 dm and >=1 compute op at depth >=1, or adjacent dispatchable ops of the same kind "
    "with different parents; distinct by (skeleton, N)."
)
ASSUMPTIONS = [
    "xDSL 0.70 is used through the /verif/vf/compat.py shim instead of the commit the repo pins",
    "trace machine vf/interp/trace_m.py (logical buffer machine + interpreter); func.call @snax_cluster_core_idx returns the core id",
    "independent classification: memref.copy and streaming regions on snax_xdma are data-mover ops, linalg.generic and streaming "
    "regions on any other accelerator are compute ops, everything else runs on all cores; data mover = core N-1, compute = core 0",
    "buffer contents are not compared (one core is executed at a time); an event is (op id, index operands, which elements of "
    "which allocation each memref operand covers)",
    "function-constant-pinning is xDSL's pass (third party); it is run as the repo's pipeline does and judged by the same oracle",
    "exceptions raised by a pass (crash / refusal) are rejections of the input, not violations of this property",
]
TIERS = {
    "quick": {"shards": 16, "cases": 100, "timeout": 600},
    "thorough": {"shards": 16, "cases": 3000, "timeout": 7200},
}
FLOORS = {
    "quick": {
        "programs": 500,
        "compared": 12000,
        "distinct_nontrivial": 600,
        "core_runs_dispatched": 7000,
        "core_runs_pinned": 6000,
        "events_compared": 60000,
        "dm_events_expected_on_dm_core": 11000,
        "compute_events_expected_on_compute_core": 12000,
        "dispatchable_events_filtered_out": 80000,
        "multi_block_programs": 80,
    },
    "thorough": {
        "programs": 15000,
        "compared": 360000,
        "distinct_nontrivial": 12000,
        "core_runs_dispatched": 210000,
        "core_runs_pinned": 180000,
        "events_compared": 1800000,
        "dm_events_expected_on_dm_core": 330000,
        "compute_events_expected_on_compute_core": 360000,
        "dispatchable_events_filtered_out": 2400000,
        "multi_block_programs": 2400,
    },
}
CORE_COUNTS = (2, 3, 4, 8)

_ctx = None


def ctx():
    global _ctx
    if _ctx is None:
        from snaxc.accelerators.snax_xdma import SNAXXDMAAccelerator

        _ctx = make_ctx(extra_accelerators={"snax_xdma": SNAXXDMAAccelerator})
    return _ctx


# ------------------------------------------------------------------------------------------------
# independent classification for inputs that do not come from the generator (corpus)
# ------------------------------------------------------------------------------------------------
STREAMING = ("dart.operation", "dart.schedule", "dart.access_pattern", "snax_stream.streaming_region")


def classify_by_name(op) -> str:
    if op.name == "memref.copy":
        return "dm"
    if op.name == "linalg.generic":
        return "compute"
    if op.name in STREAMING:
        acc = op.properties.get("accelerator")
        return "dm" if isinstance(acc, StringAttr) and acc.data == "snax_xdma" else "compute"
    return "all"


def tag_corpus(module):
    n = 0
    for op in module.walk():
        n += 1
        if "verif.kind" in op.attributes:
            continue
        k = classify_by_name(op)
        if k != "all" or op.name in ("test.op", "memref.alloc", "memref.dealloc", "snax.cluster_sync_op", "func.call"):
            op.attributes["verif.kind"] = StringAttr(k)
            if "verif.id" not in op.attributes:
                op.attributes["verif.id"] = StringAttr(f"auto{n}")


# ------------------------------------------------------------------------------------------------
def stage(c, module, spec, res, seconds=5):
    m2 = module.clone()
    try:
        run_passes_limited(c, m2, spec, seconds)
    except PassTimeout:
        R.reject(res, f"PassTimeout@{spec}")
        return None
    except Exception as e:
        R.reject(res, e)
        return None
    return m2


def execute(module, fname, vec, argnames, core):
    m = TraceMachine(module, core_id=core, step_budget=300_000)
    f = m.funcs[fname]
    ints = {}
    for i, a in enumerate(f.body.blocks[0].args):
        key = argnames[i] if i < len(argnames) else f"#{i}"
        if key in vec:
            ints[i] = vec[key]
    m.run_func(fname, make_args(m, f, int_values=ints, dyn_size=8))
    return m


def keep(kind, core, n):
    if kind == "dm":
        return core == n - 1
    if kind == "compute":
        return core == 0
    return True


def structure(module):
    """(nontrivial?, reason) from the tags of the ORIGINAL program."""
    tagged = []
    for op in module.walk():
        k = op.attributes.get("verif.kind")
        if isinstance(k, StringAttr) and k.data in ("dm", "compute"):
            depth = 0
            p = op.parent_op()
            while p is not None and p.name != "func.func":
                depth += 1
                p = p.parent_op()
            tagged.append((k.data, depth, op.parent_block()))
    deep_dm = any(k == "dm" and d >= 1 for k, d, _ in tagged)
    deep_cp = any(k == "compute" and d >= 1 for k, d, _ in tagged)
    adj = any(a[0] == b[0] and a[2] is not b[2] for a, b in zip(tagged, tagged[1:]))
    return (deep_dm and deep_cp) or adj, ("deep" if deep_dm and deep_cp else "") + ("+adjacent-different-parents" if adj else ""), len(tagged)


def run_one(text, fname, argnames, vecs, core_counts, res, skeleton="", origin="gen", tag=False):
    c = ctx()
    out = []
    try:
        p0 = parse(c, text)
        p0.verify()
    except Exception:
        R.bump(res, "generator_invalid" if origin == "gen" else "corpus_unparsable")
        return out
    if tag:
        tag_corpus(p0)
    res["evaluations"] += 1
    nontriv, why, ntag = structure(p0)
    # original traces
    base = []
    for vec in vecs:
        try:
            e0 = execute(p0, fname, vec, argnames, 0)
        except (StepBudget, Unsupported, MachineError, UseBeforeDef) as e:
            R.bump(res, "out_of_domain_vector:" + type(e).__name__)
            continue
        base.append((vec, e0.trace, e0.kinds))
    if not base and vecs:
        return out
    ran = False
    for n in core_counts:
        spec = f"dispatch-regions{{nb_cores={n}}}"
        pd = stage(c, p0, spec, res)
        if pd is None:
            continue
        variants = []
        try:
            pd.verify()
            variants.append(("dispatched", spec, pd))
        except Exception as e:
            out.append({"kind": "verify-failed-after-dispatch", "detail": f"[N={n}] {str(e)[:300]}", "case": _case(text, fname, argnames, None, n, None, tag)})
            continue
        pp = stage(c, pd, "function-constant-pinning", res)
        if pp is not None:
            try:
                pp.verify()
                variants.append(("pinned", spec + ",function-constant-pinning", pp))
                R.bump(res, "pinned_function_bodies", sum(1 for f in pp.walk() if f.name == "func.func" and "_pinned" in f.sym_name.data))
            except Exception as e:
                out.append({"kind": "verify-failed-after-pinning", "detail": f"[N={n}] {str(e)[:300]}", "case": _case(text, fname, argnames, None, n, None, tag)})
        ran = True
        if to_text(pd) != to_text(p0):
            R.bump(res, "ir_changed_by_dispatch")
        bad = set()
        for vec, t0, k0 in base:
            R.bump(res, "vectors_executed")
            for core in range(n):
                exp = [e for e, k in zip(t0, k0) if keep(k, core, n)]
                for vname, vspec, mod in variants:
                    if vname in bad:
                        continue
                    d = None
                    kind = "core-trace-differs-from-filtered-original"
                    try:
                        e1 = execute(mod, fname, vec, argnames, core)
                        fd = first_diff(exp, e1.trace)
                        if fd:
                            d = fmt_diff(fd, "expected(filtered original)", vname) + f" (lengths {len(exp)} / {len(e1.trace)})"
                    except UseBeforeDef as e:
                        kind = "use-before-def-after-dispatch"
                        d = str(e)[:240]
                    except (MachineError, StepBudget) as e:
                        kind = "dispatched-program-fails"
                        d = f"{type(e).__name__}: {str(e)[:240]}"
                    except Unsupported as e:
                        R.bump(res, "oracle_unsupported_after_pass")
                        continue
                    res["compared"] += 1
                    R.bump(res, "core_runs_" + vname)
                    R.bump(res, "events_compared", len(exp))
                    if core == n - 1:
                        R.bump(res, "dm_events_expected_on_dm_core", sum(1 for k in k0 if k == "dm"))
                    if core == 0:
                        R.bump(res, "compute_events_expected_on_compute_core", sum(1 for k in k0 if k == "compute"))
                    R.bump(res, "dispatchable_events_filtered_out", len(t0) - len(exp))
                    R.seen(res, "core_ids", [n, core], cap=40)
                    if d:
                        out.append(
                            {
                                "kind": kind,
                                "detail": f"[{vname} N={n} core={core}] {d}",
                                "case": _case(text, fname, argnames, vec, n, core, tag),
                            }
                        )
                        bad.add(vname)
        if nontriv:
            R.nontrivial(res, skeleton or text, n)
            R.bump(res, "nontrivial_cases")
    if ran:
        res["programs"] += 1
        R.bump(res, "tagged_dispatchable_ops", ntag)
        if "adjacent" in why:
            R.bump(res, "programs_with_adjacent_dispatchable_ops_in_different_parents")
    return out


def _case(text, fname, argnames, vec, n, core, tag):
    return {"text": text, "fname": fname, "args": argnames, "vec": vec, "n": n, "core": core, "tag": tag}


# ------------------------------------------------------------------------------------------------
# corpus: every filecheck function that contains dispatchable ops and executes on the machine
# ------------------------------------------------------------------------------------------------
def corpus_cases(rng, limit=80):
    c = ctx()
    root = os.path.join(repo_path(), "tests/filecheck/transforms")
    files = sorted(f for f in os.listdir(root) if f.endswith(".mlir")) if os.path.isdir(root) else []
    # the property's own inputs first
    files.sort(key=lambda f: (f not in ("dispatch_regions.mlir", "insert-sync-barrier.mlir"), f))
    n = 0
    for fn in files:
        for ci, chunk in enumerate(split_file(os.path.join(root, fn))):
            if "memref.copy" not in chunk and "linalg.generic" not in chunk and "dart." not in chunk:
                continue
            if "snax_cluster_core_idx" in chunk:  # already dispatched: not an original program
                continue
            body = "\n".join(l for l in chunk.splitlines() if not l.lstrip().startswith("//"))
            try:
                m = parse(c, body)
            except Exception:
                continue
            for f in m.walk():
                if f.name != "func.func" or not f.body.blocks:
                    continue
                if not any(classify_by_name(o) != "all" for o in f.walk()):
                    continue
                keys = [f"#{i}" for i in range(len(f.body.blocks[0].args))]
                vecs = [{k: rng.randrange(0, 4) for k in keys} for _ in range(2)]
                yield body, f.sym_name.data, keys, vecs, f"{fn}#{ci}:{f.sym_name.data}"
                n += 1
                if n >= limit:
                    return


# ------------------------------------------------------------------------------------------------
def run_shard(seed, shard, n_cases, tier):
    res = R.new_result()
    rng = random.Random(seed)
    ctx()
    if shard == 0:
        for text, fname, keys, vecs, label in corpus_cases(rng):
            R.bump(res, "corpus_cases")
            before = res["programs"]
            for v in run_one(text, fname, keys, vecs, (2, 3), res, skeleton="corpus:" + label, origin="corpus", tag=True):
                R.violation(res, v["kind"], v["detail"], v["case"], attribute(v))
            if res["programs"] > before:
                R.bump(res, "corpus_cases_executed")
                R.seen(res, "corpus_executed", label, cap=100)
    for i in range(n_cases):
        prog = gen_program(rng, sync_ops=rng.random() < 0.5, dealloc=False, xdma=True, multi_block=True)
        vecs = input_vectors(prog, rng, 2)
        ns = rng.sample(CORE_COUNTS, 2)
        vs = run_one(prog.text, prog.fname, ARG_NAMES, vecs, ns, res, skeleton=prog.skeleton)
        for f in prog.features:
            R.bump(res, "feature:" + f)
        if prog.multi_block:
            R.bump(res, "multi_block_programs")
        R.seen(res, "skeletons", prog.skeleton, cap=300)
        for v in vs:
            R.violation(res, v["kind"], v["detail"], v["case"], attribute(v))
        if i < 2 and shard == 0:
            R.sample(res, {"program": prog.text, "vectors": vecs, "core_counts": ns})
    return res


def attribute(v):
    """Known-finding attribution.  None = unattributed."""
    return None


def replay(case):
    res = R.new_result()
    vecs = [] if case.get("vec") is None else [case["vec"]]
    vs = run_one(case["text"], case.get("fname", "main"), case["args"], vecs, (case["n"],), res, tag=case.get("tag", False))
    for v in vs:
        v["attributed"] = attribute(v)
    return vs
