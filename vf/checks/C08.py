"""C08 - Generated configuration values line up with field names (translation validation).

For every accelerator instance of G-accdecl a snax_stream.streaming_region whose stride patterns carry pairwise distinct marker
values is lowered by the REAL convert-linalg-to-accfg; the emitted program is executed on the accfg machine and the register file
latched by the launch is compared, *by field name*, with a reference dictionary written from the property statement.
"""
from __future__ import annotations

import random
from math import ceil, prod

from vf import runner as R
from vf.checks._accfg_common import ASSUME_COMMON, MachineError, StepBudget, Unsupported, UseBeforeDef, parse, stage, to_text
from vf.ctx import PassTimeout, make_ctx, run_passes_limited
from vf.gen import accdecl_gen as AD
from vf.interp.accfg_m import AccfgMachine, Poison
from vf.interp.core import wrap

LEVEL = "translation_validation"
RULE = (
    "accelerator instances from G-accdecl (alu / gemmx geometries / xdma extension subsets / hwpe_mult; random temporal dims 1..6 "
    "with n/i/r flags, 1..2 spatial dims, option subsets) x kernel bodies (alu add/mul; gemmx mac, qmac, qmac+add, qmac+rescale i8, "
    "rescale-only with distinct parameters; xdma add / rescale up/down) x stride patterns with pairwise distinct marker bounds and "
    "strides of random rank <= hardware dimensionality (zero strides on reuse/broadcast dims in a fraction of cases, zero-pointer "
    "operands); 25 % of the streaming-region modules hold a second region for the same accelerator and kernel with other stride "
    "patterns and zero points in a function @main2 before or after the judged one. Non-trivial: configuration differs from the default one or the pattern rank is below the hardware dimensionality; "
    "distinct by (accelerator description, kernel, pattern ranks)."
)
ASSUMPTIONS = ASSUME_COMMON + [
    "reference meaning of streamer fields: x_ptr_low = operand (zero address 0x10000040 for the zero constant), x_ptr_high = 0, x_sstride_j, "
    "x_bound_i padded with 1 and collapsed to 1 on a reuse-flagged dim with stride 0, x_tstride_i padded with 0, x_broadcast = 1 iff a spatial "
    "stride is 0 on a broadcast-capable streamer, channel/byte masks all-ones (0 for a zero pattern of that streamer), remap/transpose = 0",
    "fields whose hardware meaning cannot be established independently here: alu_mode is only checked for position; the xDMA bypass word is checked bit by bit (one bit per extension in declaration order) with both polarities accepted",
    "gemmx packed fields decoded by bit position as documented in snax_gemmx._generate_setup_vals comments (4 8-bit shifts per CSR, csr0 = min|max|zp_out|zp_in)",
    "a streaming region with fewer spatial strides than the streamer has spatial dims is refused by the compiler (IndexError) and counted as rejected",
]
TIERS = {
    "quick": {"shards": 16, "cases": 90, "timeout": 600},
    "thorough": {"shards": 16, "cases": 30000, "timeout": 7200},
}
FLOORS = {
    "quick": {"programs": 700, "fields_compared": 30000, "distinct_nontrivial": 300, "kernel_param_checks": 1500, "cases_second_region_in_module": 120},
    "thorough": {"programs": 25000, "fields_compared": 1000000, "distinct_nontrivial": 8000},
}

ZERO_ADDR = 0x1000_0040
ALL_ONES = 0xFFFFFFFF


class Markers:
    def __init__(self, rng):
        self.rng = rng
        self.used = set()

    def bound(self):
        while True:
            v = self.rng.randint(2, 60)
            if v not in self.used:
                self.used.add(v)
                return v

    def stride(self):
        while True:
            v = self.rng.randint(61, 4000)
            if v not in self.used:
                self.used.add(v)
                return v


def sdesc_of(acc):
    return [(s.type.value, tuple(f.value for f in s.temporal_dims), tuple(s.spatial_dims), [type(o).__name__ for o in s.opts]) for s in acc.streamer_config.data.streamers]


def gen_patterns(rng, acc, zero_ptrs, consistent_gemmx=None, p_short_spatial=0.03):
    """Marker stride patterns for every streamer of the accelerator."""
    mk = Markers(rng)
    pats = []
    for si, (kind, tflags, sdims, opts) in enumerate(sdesc_of(acc)):
        T, S = len(tflags), len(sdims)
        r = rng.randint(1, T) if rng.random() < 0.7 else T
        ub, ts = [], []
        for d in range(r):
            ub.append(mk.bound())
            if tflags[d] == "i":
                ts.append(0)
            elif tflags[d] == "r" and rng.random() < 0.5:
                ts.append(0)
            else:
                ts.append(mk.stride())
        ns = S if rng.random() >= p_short_spatial else rng.randint(0, S)
        ss = []
        for j in range(ns):
            if "HasBroadcast" in opts and rng.random() < 0.3:
                ss.append(0)
            else:
                ss.append(mk.stride())
        pats.append({"ub": ub, "ts": ts, "ss": ss})
    return pats


def pat_text(p):
    return f"#snax_stream.stride_pattern<ub = {p['ub']}, ts = {p['ts']}, ss = {p['ss']}>"


# -- kernel bodies -----------------------------------------------------------------------------------
def rescale_attrs(rp):
    return (
        f"{{input_zp = {rp['zp_in']} : i32, output_zp = {rp['zp_out']} : i32, multiplier = array<i32: {', '.join(map(str, rp['mult']))}>, "
        f"shift = array<i8: {', '.join(map(str, rp['shift']))}>, min_int = {rp['min']} : i32, max_int = {rp['max']} : i32, double_round = {'true' if rp['dr'] else 'false'}}}"
    )


def gen_rescale_params(rng, n, per_channel):
    k = n if per_channel else 1
    return {
        "zp_in": rng.randint(-100, 100),
        "zp_out": rng.randint(-100, 100),
        "mult": [rng.randint(1, 1 << 30) for _ in range(k)],
        "shift": [rng.randint(1, 60) for _ in range(k)],
        "min": rng.randint(-128, -1),
        "max": rng.randint(1, 127),
        "dr": rng.random() < 0.5,
    }


def body_for(kind, kernel, rp=None):
    """Returns (block-arg list text, body text, extra prelude ops)"""
    if kind == "alu":
        k = {"add": "kernel.add", "mul": "kernel.mul"}[kernel]
        return (
            "^bb0(%s0: !dart.stream<i64>, %s1: !dart.stream<i64>, %s2: !dart.stream<i64>):",
            f"""      %g = "dart.generic"(%s0, %s1) <{{library_call = "snax_alu"}}> ({{
      ^bb1(%x: i64, %y: i64, %o: i64):
        %k = {k} %x, %y : i64, i64 -> i64
        dart.yield %k : i64
      }}) : (!dart.stream<i64>, !dart.stream<i64>) -> !dart.stream<i64>
      dart.yield %g : !dart.stream<i64>""",
        )
    if kind == "gemmx":
        mac = (
            """      %g = "dart.generic"(%s0, %s1, %zpa, %zpb) <{library_call = "snax_gemmx"}> ({
      ^bb1(%x: i8, %y: i8, %za: i32, %zb: i32, %o: i32):
        %k = kernel.qmac %x, %y zp_lhs : %za zp_rhs : %zb : i8, i8, i32, i32 -> i32
        dart.yield %k : i32
      }) : (!dart.stream<i8>, !dart.stream<i8>, i32, i32) -> !dart.stream<i32>"""
            if kernel.startswith("qmac")
            else """      %g = "dart.generic"(%s0, %s1) <{library_call = "snax_gemmx"}> ({
      ^bb1(%x: i8, %y: i8, %o: i32):
        %k = kernel.mac %x, %y : i8, i8 -> i32
        dart.yield %k : i32
      }) : (!dart.stream<i8>, !dart.stream<i8>) -> !dart.stream<i32>"""
        )
        if kernel in ("qmac", "mac"):
            return ("^bb0(%s0: !dart.stream<i8>, %s1: !dart.stream<i8>, %s2: !dart.stream<i32>):", mac + "\n      dart.yield %g : !dart.stream<i32>")
        if kernel in ("qmac+add",):
            return (
                "^bb0(%s0: !dart.stream<i8>, %s1: !dart.stream<i8>, %s2: !dart.stream<i32>, %s3: !dart.stream<i32>):",
                mac
                + """
      %g2 = "dart.generic"(%g, %s2) <{library_call = "snax_gemmx"}> ({
      ^bb2(%x2: i32, %y2: i32, %o2: i32):
        %k2 = kernel.add %x2, %y2 : i32, i32 -> i32
        dart.yield %k2 : i32
      }) : (!dart.stream<i32>, !dart.stream<i32>) -> !dart.stream<i32>
      dart.yield %g2 : !dart.stream<i32>""",
            )
        if kernel in ("qmac+rescale", "mac+rescale"):
            return (
                "^bb0(%s0: !dart.stream<i8>, %s1: !dart.stream<i8>, %s2: !dart.stream<i8>):",
                mac
                + f"""
      %g2 = "dart.generic"(%g) <{{library_call = "snax_gemmx"}}> ({{
      ^bb2(%x2: i32, %o2: i8):
        %k2 = "kernel.rescale"(%x2) {rescale_attrs(rp)} : (i32) -> i8
        dart.yield %k2 : i8
      }}) : (!dart.stream<i32>) -> !dart.stream<i8>
      dart.yield %g2 : !dart.stream<i8>""",
            )
        if kernel == "rescale":
            return (
                "^bb0(%s0: !dart.stream<i32>, %s1: !dart.stream<i8>):",
                f"""      %g = "dart.generic"(%s0) <{{library_call = "snax_gemmx"}}> ({{
      ^bb1(%x: i32, %o: i8):
        %k = "kernel.rescale"(%x) {rescale_attrs(rp)} : (i32) -> i8
        dart.yield %k : i8
      }}) : (!dart.stream<i32>) -> !dart.stream<i8>
      dart.yield %g : !dart.stream<i8>""",
            )
    if kind == "xdma":
        if kernel == "add":
            return (
                "^bb0(%s0: !dart.stream<i32>, %s1: !dart.stream<i32>, %s2: !dart.stream<i32>):",
                """      %g = "dart.generic"(%s0, %s1) <{library_call = "snax_xdma"}> ({
      ^bb1(%x: i32, %y: i32, %o: i32):
        %k = kernel.add %x, %y : i32, i32 -> i32
        dart.yield %k : i32
      }) : (!dart.stream<i32>, !dart.stream<i32>) -> !dart.stream<i32>
      dart.yield %g : !dart.stream<i32>""",
            )
        tin, tout = ("i32", "i8") if kernel == "rescale_down" else ("i8", "i32")
        return (
            f"^bb0(%s0: !dart.stream<{tin}>, %s1: !dart.stream<{tout}>):",
            f"""      %g = "dart.generic"(%s0) <{{library_call = "snax_xdma"}}> ({{
      ^bb1(%x: {tin}, %o: {tout}):
        %k = "kernel.rescale"(%x) {rescale_attrs(rp)} : ({tin}) -> {tout}
        dart.yield %k : {tout}
      }}) : (!dart.stream<{tin}>) -> !dart.stream<{tout}>
      dart.yield %g : !dart.stream<{tout}>""",
        )
    raise ValueError((kind, kernel))


def build_text(name, nstreams, pats, zero_ptrs, kind, kernel, rp, zps):
    args = ", ".join(f"%p{i}: index" for i in range(nstreams))
    ops = [f"%p{i}" if i not in zero_ptrs else "%zero" for i in range(nstreams)]
    blk, body = body_for(kind, kernel, rp)
    n_in = nstreams - 1
    return f"""builtin.module {{
  func.func @main({args}) {{
    %zero = arith.constant 0 : index
    %zpa = arith.constant {zps[0]} : i32
    %zpb = arith.constant {zps[1]} : i32
    "snax_stream.streaming_region"({", ".join(ops)}) <{{stride_patterns = [{", ".join(pat_text(p) for p in pats)}], accelerator = "{name}", operandSegmentSizes = array<i32: {n_in}, 1>}}> ({{
    {blk}
{body}
    }}) : ({", ".join("index" for _ in range(nstreams))}) -> ()
    func.return
  }}
}}
"""


# -- reference dictionary ------------------------------------------------------------------------------
def reference(acc, cls, pats, ptr_vals, zero_ptrs, kernel, rp, zps):
    """field name -> expected value | ("skip",) ; written from the property statement."""
    ref = {}
    names = "abcdefghijklmnop"
    sd = sdesc_of(acc)
    xdma = cls == "xdma"
    for i, (kind, tflags, sdims, opts) in enumerate(sd):
        x = names[i]
        p = pats[i]
        zero = i in zero_ptrs
        ref[f"{x}_ptr_low"] = ZERO_ADDR if zero else ptr_vals[i]
        ref[f"{x}_ptr_high"] = 0
        for j in range(len(sdims)):
            ref[f"{x}_sstride_{j}"] = p["ss"][j]
        for d in range(len(tflags)):
            b = p["ub"][d] if d < len(p["ub"]) else 1
            s = p["ts"][d] if d < len(p["ts"]) else 0
            if tflags[d] == "r" and s == 0 and b > 1:
                b = 1
            ref[f"{x}_bound_{d}"] = b
            ref[f"{x}_tstride_{d}"] = s
        if not xdma:
            if "HasAddressRemap" in opts:
                ref[f"{x}_address_remap"] = 0
            if "HasChannelMask" in opts:
                ref[f"{x}_channel_mask"] = 0 if zero else ALL_ONES
            if "TransposeExtension" in opts:
                ref[f"{x}_transpose"] = 0
            if "HasBroadcast" in opts:
                ref[f"{x}_broadcast"] = 1 if any(s == 0 for s in p["ss"][: len(sdims)]) else 0
        else:
            ref[f"{x}_enabled_chan"] = 0 if zero else ALL_ONES
            if "HasByteMask" in opts:
                ref[f"{x}_enabled_byte"] = 0 if zero else ALL_ONES
            # one bit per extension, in declaration order; the polarity (set = extension in use, or set = bypassed) cannot be
            # established independently here, so both readings are accepted - but nothing else
            exts = [o for o in acc.streamer_config.data.streamers[i].opts if hasattr(o, "csr_length")]
            used_mask = 0
            for bit, o in enumerate(exts):
                if o.supported_kernel is not None and o.name == {"add": "add_ext", "rescale_down": "rescale_down_ext", "rescale_up": "rescale_up_ext"}[kernel]:
                    used_mask |= 1 << bit
            ref[f"{x}_bypass"] = ("oneof", sorted({used_mask, ((1 << len(exts)) - 1) & ~used_mask}))
            for o in acc.streamer_config.data.streamers[i].opts:
                if hasattr(o, "csr_length"):
                    sk = o.supported_kernel
                    match = False
                    if sk is not None:
                        kn = sk.kernel_type.__name__ if hasattr(sk, "kernel_type") else type(sk).__name__
                        want = {"add": ("AddOp", None), "rescale_down": ("RescaleOp", ("i32", "i8")), "rescale_up": ("RescaleOp", ("i8", "i32"))}[kernel]
                        match = o.name == {"add": "add_ext", "rescale_down": "rescale_down_ext", "rescale_up": "rescale_up_ext"}[kernel]
                    if match and kernel.startswith("rescale"):
                        vals = [wrap(rp["zp_in"], 32), rp["mult"][0], wrap(rp["zp_out"], 32), rp["shift"][0]]
                    elif match:
                        vals = [("skip",)] * o.csr_length
                    else:
                        vals = [0] * o.csr_length
                    for q in range(o.csr_length):
                        ref[f"{x}_{o.name}_{q}"] = vals[q]
    # kernel parameters
    if cls == "alu":
        ref["alu_mode"] = ("skip",)
        steps = prod(pats[0]["ub"]) if pats[0]["ub"] else 1
        ref["loop_bound_alu"] = ("steps", steps, pats[0]["ub"][0] if pats[0]["ub"] else 1)
    if cls == "gemmx":
        n = acc.n
        nsh = ceil(n / 4)
        if kernel == "rescale":
            steps = prod(pats[0]["ub"])
            ref["K"], ref["N"], ref["M"] = 1, 1, steps
            ref["subtractions"] = 0
            ref["csr0"] = pack_csr0(rp)
            ref["csr1"] = ("bool", rp["dr"])
            for i in range(nsh):
                ref[f"shift_{i}"] = pack_shifts([rp["shift"][0]] * 4)
            for i in range(n):
                ref[f"mult_{i}"] = rp["mult"][0]
            ref["temporal_loop_bound"] = steps
            ref["bypassSIMD"] = 0
        else:
            i8_out = kernel.endswith("+rescale")
            outp = pats[2] if i8_out else pats[4]
            m = prod(b for b, s in zip(outp["ub"], outp["ts"]) if s != 0)
            ksteps = prod(pats[0]["ub"])
            ref["N"] = 1
            ref["M"] = m
            ref["K"] = ("K", ksteps, m)
            if kernel.startswith("qmac"):
                ref["subtractions"] = (zps[0] & 255) | ((zps[1] & 255) << 8)
            else:
                ref["subtractions"] = 0
            if i8_out:
                ref["csr0"] = pack_csr0(rp)
                ref["csr1"] = ("bool", rp["dr"])
                sh = rp["shift"] if len(rp["shift"]) > 1 else rp["shift"] * n
                mu = rp["mult"] if len(rp["mult"]) > 1 else rp["mult"] * n
                for i in range(nsh):
                    ref[f"shift_{i}"] = pack_shifts(sh[4 * i : 4 * i + 4])
                for i in range(n):
                    ref[f"mult_{i}"] = mu[i]
                ref["temporal_loop_bound"] = m
                ref["bypassSIMD"] = 0
            else:
                ref["csr0"] = 0
                ref["csr1"] = 0
                for i in range(nsh):
                    ref[f"shift_{i}"] = 0
                for i in range(n):
                    ref[f"mult_{i}"] = ("skip",)
                ref["temporal_loop_bound"] = 0
                ref["bypassSIMD"] = 1
    return ref


def pack_csr0(rp):
    return ((rp["min"] & 255) << 24) | ((rp["max"] & 255) << 16) | ((rp["zp_out"] & 255) << 8) | (rp["zp_in"] & 255)


def pack_shifts(sh):
    v = 0
    for j, s in enumerate(sh):
        v |= (s & 255) << (8 * j)
    return v


# ------------------------------------------------------------------------------------------------------
def in_main(op):
    p = op.parent_op()
    while p is not None and p.name != "func.func":
        p = p.parent_op()
    return p is None or p.sym_name.data == "main"


def run_case(case, res):
    if case.get("linalg"):
        return run_linalg_case(case, res)
    out = []
    desc = case["desc"]
    cls = desc[0]
    acc = AD.build(desc)
    accop = acc.generate_acc_op()
    name = accop.name_prop.string_value()
    c = make_ctx(extra_accelerators={name: (lambda a=acc: a)})
    pats, zero_ptrs, kernel, rp, zps = case["pats"], set(case["zero_ptrs"]), case["kernel"], case["rp"], case["zps"]
    nstreams = len(acc.streamer_config.data.streamers)
    text = build_text(name, nstreams, pats, zero_ptrs, cls, kernel, rp, zps)
    sec = case.get("second")
    if sec:
        # a second streaming region for the same accelerator and kernel with other stride patterns and zero points in a function
        # @main2 before or after the judged one: the pass handles both in one application, nothing may leak from one to the other
        r2 = random.Random(sec["seed"])
        t2 = build_text(name, nstreams, gen_patterns(r2, acc, sorted(zero_ptrs)), zero_ptrs, cls, kernel, rp, [r2.randint(-120, 120), r2.randint(-120, 120)])
        b1, b2 = text.strip().split("\n"), t2.strip().split("\n")
        i1, i2 = "\n".join(b1[1:-1]), "\n".join(b2[1:-1]).replace("@main(", "@main2(")
        text = b1[0] + "\n" + (i2 + "\n" + i1 if sec["pos"] == "before" else i1 + "\n" + i2) + "\n}\n"
    res["evaluations"] += 1
    try:
        m = parse(c, text)
    except Exception as e:
        R.bump(res, "generator_invalid")
        R.reject(res, e)
        return out
    m.body.block.insert_op_before(accop, m.body.block.first_op)
    try:
        m.verify()
    except Exception as e:
        R.reject(res, "input-refused-by-verifier:" + type(e).__name__)
        return out
    try:
        run_passes_limited(c, m, "convert-linalg-to-accfg", 5)
    except PassTimeout:
        R.reject(res, "PassTimeout")
        return out
    except Exception as e:
        R.reject(res, e)
        return out
    setups = [op for op in m.walk() if op.name == "accfg.setup" and in_main(op)]
    if len(setups) != 1:
        R.reject(res, f"no-single-setup:{len(setups)}")
        return out
    st = setups[0]
    names = [n.data for n in st.param_names.data]
    declared = list(accop.fields.data.keys())
    res["programs"] += 1
    if sec:
        R.bump(res, "cases_second_region_in_module")
        R.bump(res, "second_region:" + sec["pos"])
    R.bump(res, "setups_checked")
    if len(st.values) != len(names) or len(names) != len(declared):
        out.append(
            {
                "kind": "value-count-differs-from-field-count",
                "detail": f"{len(st.values)} values for {len(names)} names; accelerator declares {len(declared)} fields",
                "case": case,
                "info": {"n_values": len(st.values), "n_fields": len(declared), "kernel": kernel, "cls": cls},
            }
        )
        return out
    if names != declared:
        out.append({"kind": "field-names-out-of-declared-order", "detail": f"first difference at {[i for i, (a, b) in enumerate(zip(names, declared)) if a != b][:1]}", "case": case})
        return out
    try:
        m.verify()
    except Exception as e:
        out.append({"kind": "verify-failed-after-lowering", "detail": str(e)[:300], "case": case})
        return out
    ptr_vals = [0x2000_0000 + 0x10000 * i + 64 for i in range(nstreams)]
    mach = AccfgMachine(m, step_budget=200_000)
    try:
        mach.run_func("main", ptr_vals)
    except (Unsupported, MachineError, UseBeforeDef, StepBudget) as e:
        out.append({"kind": "emitted-program-fails", "detail": f"{type(e).__name__}: {e}"[:300], "case": case})
        return out
    launches = [e for e in mach.events if e[0] == "L"]
    if len(launches) != 1:
        out.append({"kind": "not-exactly-one-launch", "detail": f"{len(launches)} launches", "case": case})
        return out
    regs = launches[0][3]
    ref = reference(acc, cls, pats, ptr_vals, zero_ptrs, kernel, rp, zps)
    res["compared"] += 1
    for f in declared:
        if f not in ref:
            out.append({"kind": "oracle-has-no-meaning-for-field", "detail": f, "case": case})
            return out
        want = ref[f]
        got = regs.get(f)
        if isinstance(got, Poison) or got is None:
            out.append({"kind": "field-never-written", "detail": f, "case": case})
            return out
        got = wrap(got, 32)
        R.bump(res, "fields_compared")
        if isinstance(want, tuple):
            if want[0] == "skip":
                R.bump(res, "fields_position_only")
                continue
            if want[0] == "oneof":
                R.bump(res, "extension_bit_masks_checked")
                if got not in want[1]:
                    out.append({"kind": "field-holds-value-with-another-meaning", "detail": f"{f} = {got:#b}; with one bit per extension in declaration order it can only be one of {[bin(x) for x in want[1]]}", "case": case})
                    return out
                continue
            if want[0] == "bool":
                # xDSL 0.70 stores `true : i1` as -1, the pinned xDSL as 1: only truthiness is compared (version drift, not the repo)
                R.bump(res, "kernel_param_checks")
                if bool(got) != bool(want[1]) or got not in (0, 1, ALL_ONES):
                    out.append({"kind": "field-holds-value-with-another-meaning", "detail": f"{f} = {got} expected boolean {want[1]}", "case": case})
                    return out
                continue
            if want[0] == "steps":
                R.bump(res, "kernel_param_checks")
                if got != want[1]:
                    out.append(
                        {
                            "kind": "loop-count-disagrees-with-stream-steps",
                            "detail": f"{f} = {got} but stream a performs {want[1]} steps (bounds {pats[0]['ub']})",
                            "case": case,
                            "info": {"field": f, "got": got, "steps": want[1], "innermost": want[2], "cls": cls},
                        }
                    )
                    return out
                continue
            if want[0] == "K":
                R.bump(res, "kernel_param_checks")
                _, ksteps, mm = want
                if mm and ksteps % mm == 0:
                    if got * mm != ksteps:
                        out.append({"kind": "gemmx-K-inconsistent", "detail": f"K={got} M={mm} but stream a performs {ksteps} steps", "case": case})
                        return out
                else:
                    R.bump(res, "gemmx_K_out_of_domain")
                continue
        if f in ("K", "N", "M", "subtractions", "csr0", "csr1", "temporal_loop_bound", "bypassSIMD") or f.startswith(("shift_", "mult_")):
            R.bump(res, "kernel_param_checks")
        if got != wrap(want, 32):
            out.append(
                {
                    "kind": "field-holds-value-with-another-meaning",
                    "detail": f"{f} = {got} expected {wrap(want, 32)}" + origin_of(got, ref),
                    "case": case,
                    "info": {"field": f, "got": got, "want": wrap(want, 32), "cls": cls, "kernel": kernel},
                }
            )
            return out
    ranks = tuple(len(p["ub"]) for p in pats)
    full = all(len(p["ub"]) == len(s[1]) for p, s in zip(pats, sdesc_of(acc)))
    if desc[1] is not None or not full:
        R.nontrivial(res, repr(desc), kernel, ranks)
    return out


def origin_of(val, ref):
    hits = [k for k, v in ref.items() if not isinstance(v, tuple) and wrap(v, 32) == val and val not in (0, 1, ALL_ONES)]
    return f" (that value belongs to {hits[:3]})" if hits else ""


# -- linalg.generic paths of hwpe_mult and alu (hard-coded value lists for the default configuration) -----------------------------
def run_gemmini_case(case, res):
    """Quantised matmul linalg.generic {library_call = "gemmini"} -> real convert-linalg-to-accfg -> the ten RoCC operand halves
    compared by name: BOUNDS.rs2 = K/16 << 32 | J/16 << 16 | I/16 (A is IxK, B is KxJ), ADDRS_AB = start of A / B, ADDRS_DC = 0 /
    start of C, STRIDES_* = row strides, BOUNDS.rs1 (paddings) = 0."""
    out = []
    m_, n_, k_ = case["mnk"]
    pa, pb, pc = case["pad"]
    oa, ob, oc = case["offsets"]
    sa, sb, sc = k_ + pa, n_ + pb, n_ + pc

    def ty(r, c_, el, st, off):
        lay = f", strided<[{st}, 1], offset: {off}>" if (st != c_ or off) else ""
        return f"memref<{r}x{c_}x{el}{lay}>"

    ta, tb, tc = ty(m_, k_, "i8", sa, oa), ty(k_, n_, "i8", sb, ob), ty(m_, n_, "i32", sc, oc)
    c = make_ctx()
    acc = c.get_acc("gemmini")
    accop = acc.generate_acc_op()
    text = f"""builtin.module {{
  func.func @main(%a: {ta}, %b: {tb}, %c: {tc}) {{
    %z = arith.constant 0 : i32
    "linalg.generic"(%a, %b, %z, %z, %c) <{{indexing_maps = [affine_map<(d0, d1, d2) -> (d0, d2)>, affine_map<(d0, d1, d2) -> (d2, d1)>, affine_map<(d0, d1, d2) -> ()>, affine_map<(d0, d1, d2) -> ()>, affine_map<(d0, d1, d2) -> (d0, d1)>], iterator_types = [#linalg.iterator_type<parallel>, #linalg.iterator_type<parallel>, #linalg.iterator_type<reduction>], operandSegmentSizes = array<i32: 4, 1>, library_call = "gemmini"}}> ({{
    ^bb0(%x: i8, %y: i8, %za: i32, %zb: i32, %o: i32):
      "linalg.yield"(%o) : (i32) -> ()
    }}) : ({ta}, {tb}, i32, i32, {tc}) -> ()
    func.return
  }}
}}
"""
    res["evaluations"] += 1
    try:
        m = parse(c, text)
        m.body.block.insert_op_before(accop, m.body.block.first_op)
        m.verify()
        run_passes_limited(c, m, "convert-linalg-to-accfg", 5)
        m.verify()
    except PassTimeout:
        R.reject(res, "PassTimeout")
        return out
    except Exception as e:
        R.reject(res, e)
        return out
    setups = [op for op in m.walk() if op.name == "accfg.setup"]
    if len(setups) != 1:
        R.reject(res, f"no-single-setup:{len(setups)}")
        return out
    declared = list(accop.fields.data.keys())
    names = [x.data for x in setups[0].param_names.data]
    res["programs"] += 1
    if names != declared or len(setups[0].values) != len(declared):
        out.append({"kind": "value-count-differs-from-field-count", "detail": f"{len(setups[0].values)} values / {len(names)} names / {len(declared)} declared", "case": case, "info": {"cls": "gemmini"}})
        return out
    ptrs = [0x2000_0000, 0x2100_0000, 0x2200_0000]
    descs = [
        {"ptr": ptrs[0], "off": oa, "sizes": [m_, k_], "strides": [sa, 1]},
        {"ptr": ptrs[1], "off": ob, "sizes": [k_, n_], "strides": [sb, 1]},
        {"ptr": ptrs[2], "off": oc, "sizes": [m_, n_], "strides": [sc, 1]},
    ]

    class M(AccfgMachine):
        def __init__(self, mod):
            super().__init__(mod)
            self.handlers["memref.extract_aligned_pointer_as_index"] = lambda op: self.set_results(op, [self.get(op.operands[0])["ptr"]])
            self.handlers["memref.extract_strided_metadata"] = self._meta

        def _meta(self, op):
            d = self.get(op.operands[0])
            self.set_results(op, [d, d["off"], *d["sizes"], *d["strides"]][: len(op.results)])

    mach = M(m)
    try:
        mach.run_func("main", descs)
    except (Unsupported, MachineError, UseBeforeDef, StepBudget) as e:
        out.append({"kind": "emitted-program-fails", "detail": f"{type(e).__name__}: {e}"[:300], "case": case, "info": {"cls": "gemmini"}})
        return out
    launches = [e for e in mach.events if e[0] == "L"]
    if len(launches) != 1:
        out.append({"kind": "not-exactly-one-launch", "detail": f"{len(launches)} launches", "case": case, "info": {"cls": "gemmini"}})
        return out
    regs = launches[0][3]
    P = "k_LOOP_WS_CONFIG_"
    ref = {
        P + "BOUNDS.rs1": 0,
        P + "BOUNDS.rs2": ((k_ // 16) << 32) | ((n_ // 16) << 16) | (m_ // 16),
        P + "ADDRS_AB.rs1": ptrs[0] + oa,
        P + "ADDRS_AB.rs2": ptrs[1] + ob,
        P + "ADDRS_DC.rs1": 0,
        P + "ADDRS_DC.rs2": ptrs[2] + 4 * oc,
        P + "STRIDES_AB.rs1": sa,
        P + "STRIDES_AB.rs2": sb,
        P + "STRIDES_DC.rs1": ("skip",),
        P + "STRIDES_DC.rs2": sc,
    }
    res["compared"] += 1
    R.bump(res, "linalg_path_setups_checked")
    R.bump(res, "gemmini_setups_checked")
    for f in declared:
        want = ref.get(f, ("skip",))
        got = regs.get(f)
        R.bump(res, "fields_compared")
        if isinstance(want, tuple):
            continue
        if isinstance(got, Poison) or got is None or wrap(got, 64) != wrap(want, 64):
            out.append({"kind": "field-holds-value-with-another-meaning", "detail": f"[gemmini linalg path] {f} = {got} expected {want} (M,N,K = {case['mnk']})", "case": case, "info": {"cls": "gemmini", "field": f}})
            return out
    R.nontrivial(res, "linalg-path", "gemmini", tuple(case["mnk"]), tuple(case["pad"]), tuple(case["offsets"]))
    return out


def run_linalg_case(case, res):
    """linalg.generic {library_call} on 1-D memrefs -> real convert-linalg-to-accfg -> registers compared by name."""
    if case.get("cls") == "gemmini":
        return run_gemmini_case(case, res)
    out = []
    cls, n, offs = case["cls"], case["n"], case["offsets"]
    el = "i32" if cls == "hwpe" else "i64"
    elsize = 4 if cls == "hwpe" else 8
    lib = "snax_hwpe_mult" if cls == "hwpe" else "snax_alu"
    c = make_ctx()
    acc = c.get_acc(lib)
    accop = acc.generate_acc_op()
    tys = [f"memref<{n}x{el}, strided<[1], offset: {o}>>" if o else f"memref<{n}x{el}>" for o in offs]
    text = f"""builtin.module {{
  func.func @main(%a: {tys[0]}, %b: {tys[1]}, %o: {tys[2]}) {{
    "linalg.generic"(%a, %b, %o) <{{indexing_maps = [affine_map<(d0) -> (d0)>, affine_map<(d0) -> (d0)>, affine_map<(d0) -> (d0)>], iterator_types = [#linalg.iterator_type<parallel>], operandSegmentSizes = array<i32: 2, 1>, library_call = "{lib}"}}> ({{
    ^bb0(%x: {el}, %y: {el}, %z: {el}):
      %r = arith.muli %x, %y : {el}
      "linalg.yield"(%r) : ({el}) -> ()
    }}) : ({", ".join(tys)}) -> ()
    func.return
  }}
}}
"""
    res["evaluations"] += 1
    try:
        m = parse(c, text)
        m.body.block.insert_op_before(accop, m.body.block.first_op)
        m.verify()
        run_passes_limited(c, m, "convert-linalg-to-accfg", 5)
        m.verify()
    except PassTimeout:
        R.reject(res, "PassTimeout")
        return out
    except Exception as e:
        R.reject(res, e)
        return out
    setups = [op for op in m.walk() if op.name == "accfg.setup"]
    if len(setups) != 1:
        R.reject(res, f"no-single-setup:{len(setups)}")
        return out
    names = [x.data for x in setups[0].param_names.data]
    declared = list(accop.fields.data.keys())
    res["programs"] += 1
    if names != declared or len(setups[0].values) != len(declared):
        out.append({"kind": "value-count-differs-from-field-count", "detail": f"{len(setups[0].values)} values / {len(names)} names / {len(declared)} declared", "case": case, "info": {"cls": cls}})
        return out

    class M(AccfgMachine):
        def __init__(self, mod, descs):
            super().__init__(mod)
            self.handlers["memref.extract_aligned_pointer_as_index"] = lambda op: self.set_results(op, [self.get(op.operands[0])["ptr"]])
            self.handlers["memref.dim"] = lambda op: self.set_results(op, [self.get(op.operands[0])["n"]])
            self.handlers["memref.extract_strided_metadata"] = lambda op: self.set_results(op, [self.get(op.operands[0]), self.get(op.operands[0])["off"], self.get(op.operands[0])["n"], 1][: len(op.results)])

    ptrs = [0x2000_0000 + 0x10000 * i for i in range(3)]
    descs = [{"ptr": p, "n": n, "off": o} for p, o in zip(ptrs, offs)]
    mach = M(m, descs)
    try:
        mach.run_func("main", descs)
    except (Unsupported, MachineError, UseBeforeDef, StepBudget) as e:
        out.append({"kind": "emitted-program-fails", "detail": f"{type(e).__name__}: {e}"[:300], "case": case, "info": {"cls": cls}})
        return out
    launches = [e for e in mach.events if e[0] == "L"]
    if len(launches) != 1:
        out.append({"kind": "not-exactly-one-launch", "detail": f"{len(launches)} launches", "case": case, "info": {"cls": cls}})
        return out
    regs = launches[0][3]
    start = [p + o * elsize for p, o in zip(ptrs, offs)]
    if cls == "hwpe":
        ref = {"A": start[0], "B": start[1], "O": start[2], "vector_length": n, "nr_iters": 1, "mode": ("skip",)}
    else:
        ref = {}
        for x, st in zip("abc", start):
            ref.update({f"{x}_ptr_low": st, f"{x}_ptr_high": 0, f"{x}_sstride_0": 8, f"{x}_bound_0": n // 4, f"{x}_tstride_0": 32})
        ref["alu_mode"] = ("skip",)
        ref["loop_bound_alu"] = n // 4
    res["compared"] += 1
    R.bump(res, "linalg_path_setups_checked")
    for f in declared:
        want = ref.get(f, ("skip",))
        got = regs.get(f)
        R.bump(res, "fields_compared")
        if isinstance(want, tuple):
            continue
        if isinstance(got, Poison) or got is None or wrap(got, 32) != wrap(want, 32):
            out.append(
                {
                    "kind": "field-holds-value-with-another-meaning",
                    "detail": f"[{lib} linalg path] {f} = {got} expected {want}",
                    "case": case,
                    "info": {"cls": cls, "field": f, "got": None if isinstance(got, Poison) or got is None else wrap(got, 32), "regs": {k: (v if isinstance(v, int) else None) for k, v in regs.items()}, "n": n},
                }
            )
            return out
    R.nontrivial(res, "linalg-path", cls, n, tuple(offs))
    return out


def gen_case(rng):
    if rng.random() < 0.12:
        cls = rng.choice(["hwpe", "alu", "gemmini"])
        if cls == "gemmini":
            # quantised matmul generic on the RoCC accelerator: sizes in units of the 16x16 array, operands possibly windows of
            # wider buffers (row stride > row length), byte offsets on the i8 operands
            m, n_, k = (16 * rng.choice([1, 2, 3, 5]) for _ in range(3))
            return {"linalg": True, "cls": "gemmini", "mnk": [m, n_, k], "pad": [rng.choice([0, 0, 16, 48]) for _ in range(3)], "offsets": [rng.choice([0, 0, 16, 64]), rng.choice([0, 0, 32]), rng.choice([0, 0, 8, 40])], "n": 0}
        n = rng.choice([4, 8, 12, 16, 20, 64, 100]) if cls == "hwpe" else rng.choice([4, 8, 12, 16, 20, 64])
        return {"linalg": True, "cls": cls, "n": n, "offsets": [rng.choice([0, 0, 4, 8]) for _ in range(3)]}
    cls = rng.choice(["alu", "gemmx", "gemmx", "xdma"])
    desc = AD.gen_desc(rng, classes=(cls,), p_default=0.25)
    acc = AD.build(desc)
    sd = sdesc_of(acc)
    n = len(sd)
    zero_ptrs = []
    rp = None
    zps = [rng.randint(-120, 120), rng.randint(-120, 120)]
    if cls == "alu":
        kernel = rng.choice(["add", "mul"])
        if rng.random() < 0.15:
            zero_ptrs = [rng.randrange(2)]
    elif cls == "gemmx":
        kernel = rng.choice(["qmac", "mac", "qmac+add", "qmac+rescale", "mac+rescale", "rescale"])
        if kernel.endswith("rescale"):
            rp = gen_rescale_params(rng, acc.n, per_channel=(kernel != "rescale" and rng.random() < 0.5))
        if kernel in ("qmac", "mac", "qmac+rescale", "mac+rescale"):
            zero_ptrs = [3]
        if kernel == "rescale":
            zero_ptrs = [0, 1]
    else:
        kernel = rng.choice(["add", "rescale_down", "rescale_up"])
        if kernel.startswith("rescale"):
            rp = gen_rescale_params(rng, 1, False)
        if rng.random() < 0.25:
            zero_ptrs = [0]
    pats = gen_patterns(rng, acc, zero_ptrs)
    if cls == "gemmx" and kernel != "rescale" and rng.random() < 0.8:
        # make K*M consistent: bounds of stream a = k-dims + the non-zero-stride bounds of the output stream
        outi = 2 if kernel.endswith("+rescale") else 4
        mb = [b for b, s in zip(pats[outi]["ub"], pats[outi]["ts"]) if s != 0]
        Ta = len(sd[0][1])
        if 0 < len(mb) < Ta:
            kb = pats[0]["ub"][: Ta - len(mb)] or [1]
            ub = (kb + mb)[:Ta]
            pats[0]["ub"] = ub
            pats[0]["ts"] = (pats[0]["ts"] + [7001 + i for i in range(Ta)])[: len(ub)]
    return {"desc": desc, "pats": pats, "zero_ptrs": zero_ptrs, "kernel": kernel, "rp": rp, "zps": zps}


def attribute(v):
    """Known findings by mechanism: predicate on the case + counterfactual re-run."""
    info = v.get("info") or {}
    case = v.get("case")
    if v["kind"] == "field-holds-value-with-another-meaning" and info.get("cls") == "hwpe" and info.get("field") in ("vector_length", "nr_iters"):
        # predicate: exactly the two values are exchanged between the two names; counterfactual: the names exchanged in the field tuple
        regs = info.get("regs") or {}
        if regs.get("vector_length") == 1 and regs.get("nr_iters") == info.get("n"):
            from vf.counterfactual.hwpe_names import hwpe_field_names_exchanged

            with hwpe_field_names_exchanged():
                again = run_case(case, R.new_result())
            if not again:
                return "hwpe-mult-vector-length-and-nr-iters-names-exchanged"
    if v["kind"] == "loop-count-disagrees-with-stream-steps" and info.get("cls") == "alu":
        # predicate: the alu streamers have more than one temporal dimension in use and the register holds exactly the innermost bound
        if len(case["pats"][0]["ub"]) > 1 and info.get("got") == info.get("innermost"):
            from vf.counterfactual.alu_loop_bound import alu_loop_bound_is_step_count

            with alu_loop_bound_is_step_count():
                again = run_case(case, R.new_result())
            if not again:
                return "alu-loop-bound-is-innermost-bound-only"
    return None


def run_shard(seed, shard, n_cases, tier):
    res = R.new_result()
    rng = random.Random(seed)
    rng_d = random.Random((seed << 4) ^ 0x8D0B)  # own stream: the judged regions stay what they were
    for i in range(n_cases):
        try:
            case = gen_case(rng)
        except Exception as e:
            R.reject(res, e)
            continue
        if not case.get("linalg") and rng_d.random() < 0.25:
            case["second"] = {"seed": rng_d.getrandbits(32), "pos": rng_d.choice(["before", "after"])}
        for v in run_case(case, res):
            R.violation(res, v["kind"], v["detail"], v["case"], attribute(v), info=v.get("info"))
        R.seen(res, "kernels", f"{case['desc'][0]}:{case['kernel']}" if not case.get("linalg") else f"linalg-path:{case['cls']}")
        if i < 2 and shard == 0:
            R.sample(res, {k: (repr(v) if k == "desc" else v) for k, v in case.items()})
    return res


def _norm_desc(desc):
    return (desc[0], [(sd[0], tuple(sd[1]), tuple(sd[2]), tuple(sd[3])) for sd in desc[1]] if desc[1] else None, tuple(desc[2]) if desc[2] else None)


def replay(case):
    res = R.new_result()
    case = dict(case)
    if not case.get("linalg"):
        case["desc"] = _norm_desc(case["desc"])
    return run_case(case, res)
