"""C04 - CSR lowering writes every field to its declared register (translation validation + exploration).

Monitor 1 (lowering trace): accfg programs on *real* accelerator declarations (hwpe_mult / alu / gemmx / xdma instances from
  G-accdecl) after the real trace/dedup[/overlap] are executed on the accfg machine (log of W/L/A events), lowered by the real
  convert-accfg-to-csr and executed on the CSR machine (CW/CR events); both logs are cut at launches/awaits and compared.
Monitor 2 (register map): all addresses of generate_acc_op() (setup fields, launch fields, barrier, reserved status registers,
  xDMA multicast gap) are pairwise distinct and the declared names equal the names the setup op uses.
Monitor 3 (RoCC): gemmini programs; every setup must produce, per instruction touched, exactly one `.insn` carrying the values
  currently held by the accfg machine for both source fields.
"""
from __future__ import annotations

import random
from collections import Counter

from vf import runner as R
from vf.checks._accfg_common import ASSUME_COMMON, MachineError, StepBudget, Unsupported, UseBeforeDef, input_vectors, parse, stage, to_text
from vf.corpus import assign_ids
from vf.ctx import PassTimeout, make_ctx, run_passes_limited
from vf.gen import accdecl_gen as AD
from vf.gen.accfg_gen import gen_program
from vf.interp.accfg_m import AccfgMachine, Poison
from vf.interp.core import signed, wrap
from vf.interp.csr_m import CsrMachine

LEVEL = "translation_validation"
RULE = (
    "Monitor 1/3: G-accfg programs over a real accelerator instance from G-accdecl (30% default configuration, else random streamer "
    "configurations / gemmx geometries / xDMA extension subsets; gemmini for RoCC), traced + deduplicated (+ overlapped in half of "
    "the cases) by the real passes, then lowered by the real convert-accfg-to-csr; executed before and after for up to 4 runtime "
    "vectors with busy-poll counts {0,1,3}. Non-trivial: >=1 loop or if carrying state and >=2 executed setups with different "
    "field subsets; distinct by (accelerator description, control-flow skeleton). Monitor 2: exhaustive over the uniform "
    "configuration box (1..6 temporal dims x 1..2 spatial dims x every option subset, same for all streamers) for alu and xdma, "
    "random non-uniform configurations beyond."
)
ASSUMPTIONS = ASSUME_COMMON + [
    "CSR machine (vf/interp/csr_m.py): csrw/csrr/.insn r events; status protocol per barrier class from the C snippets in snaxc/accelerators/snax.py",
    "reserved registers: busy + performance counter directly after the streamer launch register (docstring of get_streamer_launch_dict); "
    "xDMA: 2*(max_multicast_dest-1) addresses after the four base-pointer registers",
    "order of CSR writes inside one setup is free; index values are truncated to 32 bit",
]
TIERS = {
    "quick": {"shards": 16, "cases": 40, "timeout": 600},
    "thorough": {"shards": 16, "cases": 1500, "timeout": 7200},
}
FLOORS = {
    "quick": {"programs": 250, "csr_writes_compared": 50000, "awaits_with_busy_polls": 300, "regmaps_checked": 400, "rocc_setups_compared": 300, "distinct_nontrivial": 100},
    "thorough": {"programs": 8000, "csr_writes_compared": 1500000, "regmaps_checked": 5000, "distinct_nontrivial": 2000},
}

BARRIER_STYLE = {"snax_hwpe_mult": 1, "snax_alu": 3, "snax_gemmx": 3, "snax_xdma": 3}


# ------------------------------------------------------------------------------------------------
def expected_segments(events, fields, launch_fields, barrier, style, rocc=False):
    """Translate the accfg-level log into the CSR-level segments the lowering must produce."""
    segs = []
    cur = None
    for e in events:
        k = e[0]
        if k == "SB":
            cur = []
        elif k == "W":
            _, acc, field, val, is_index = e
            cur.append((fields[field], wrap(val, 32) if not isinstance(val, Poison) else val))
        elif k == "SE":
            segs.append(("set", cur, e[2] if len(e) > 2 else None))
            cur = None
        elif k == "L":
            segs.append(("launch", [(launch_fields[n], wrap(v, 32)) for n, v in e[2]]))
        elif k == "A":
            segs.append(("await",))
        elif k in ("X", "T"):
            segs.append(("other", e))
    return segs


def compare_csr(segs, actual, launch_fields, barrier, style):
    """Walk the CSR log along the expected segments.  Returns (None | description, stats)."""
    st = Counter()
    i = 0
    act = [e for e in actual if e[0] in ("CW", "CR", "X", "T", "I")]
    for sg in segs:
        if sg[0] == "set":
            exp = Counter(sg[1])
            n = len(sg[1])
            got = act[i : i + n]
            if len(got) < n or any(g[0] != "CW" for g in got):
                return f"setup of {n} fields lowered to {[g[:3] for g in got][:6]}... (expected {n} CSR writes)", st
            gotc = Counter((g[1], g[2]) for g in got)
            if gotc != exp:
                miss = list((exp - gotc).items())[:3]
                extra = list((gotc - exp).items())[:3]
                return f"setup writes differ: missing (addr,value) {miss} unexpected {extra}", st
            st["csr_writes_compared"] += n
            i += n
        elif sg[0] == "launch":
            for addr, val in sg[1]:
                if i >= len(act) or act[i][:3] != ("CW", addr, val):
                    return f"launch write expected CW({addr},{val}) got {act[i][:3] if i < len(act) else None}", st
                i += 1
                st["launch_writes_compared"] += 1
        elif sg[0] == "await":
            if style in (1, 2, 3):
                n = 0
                while i < len(act) and act[i][0] == "CR":
                    if act[i][1] != barrier:
                        return f"await polls CSR {act[i][1]} instead of the declared barrier {barrier}", st
                    i += 1
                    n += 1
                if n == 0:
                    return f"await does not poll the barrier register {barrier} (next event {act[i][:3] if i < len(act) else None})", st
                st["awaits_compared"] += 1
                if n > 1:
                    st["awaits_with_busy_polls"] += 1
                if style == 1:
                    if i >= len(act) or act[i][:3] != ("CW", 0x3C5, 0):
                        return f"hwpe await: missing soft-clear write CW(0x3c5,0), got {act[i][:3] if i < len(act) else None}", st
                    i += 1
            else:
                raise AssertionError(style)
        elif sg[0] == "other":
            if i >= len(act) or act[i][:2] != sg[1][:2]:
                return f"side-effecting op {sg[1][:2]} out of order with CSR accesses (got {act[i][:2] if i < len(act) else None})", st
            i += 1
    if i != len(act):
        return f"{len(act) - i} CSR events beyond what the accfg program does, first {act[i][:3]}", st
    return None, st


def compare_rocc(events, actual, fields, launch_fields):
    """RoCC: per setup the multiset of (funct7, rs1, rs2) with the values currently in effect."""
    st = Counter()
    act = [e for e in actual if e[0] in ("I", "X", "T")]
    i = 0
    regs = {}
    cur = None
    for e in events:
        k = e[0]
        if k == "SB":
            cur = set()
            cur_written = set()
            cur_has_state = e[2] if len(e) > 2 else None
        elif k == "W":
            regs[e[2]] = e[3]
            cur.add(e[2][:-4])
            cur_written.add(e[2])
        elif k == "C":
            regs = {f: Poison(-1, "clobber") for f in regs}
        elif k == "SE":
            exp = []
            for insn in cur:
                exp.append((fields[insn + ".rs1"], regs.get(insn + ".rs1", Poison(-1, "never")), regs.get(insn + ".rs2", Poison(-1, "never"))))
            got = act[i : i + len(exp)]
            if len(got) < len(exp) or any(g[0] != "I" for g in got):
                return f"setup touching {sorted(cur)} lowered to {[g[:2] for g in got]}", st
            gotd = {g[1]: (g[2], g[3]) for g in got}
            if len(gotd) != len(got):
                return f"instruction emitted twice in one setup: {[g[:2] for g in got]}", st
            for f7, r1, r2 in exp:
                if f7 not in gotd:
                    return f"no instruction funct7={f7} emitted for setup touching {sorted(cur)}", st
                g1, g2 = gotd[f7]
                for want, have, nm in ((r1, g1, "rs1"), (r2, g2, "rs2")):
                    if isinstance(want, Poison):
                        continue
                    if wrap(want, 64) != wrap(have, 64):
                        insn = [i_ for i_ in cur if fields[i_ + ".rs1"] == f7][0]
                        LAST_INFO.clear()
                        LAST_INFO.update(
                            {
                                "what": "rocc-operand",
                                "have": have,
                                "setup_has_in_state": cur_has_state,
                                "operand_written_by_this_setup": (insn + "." + nm) in cur_written,
                            }
                        )
                        return f"instruction funct7={f7} carries {nm}={have} but the value in effect is {want}", st
                st["rocc_operands_compared"] += 2
            st["rocc_setups_compared"] += 1
            if len(cur) and any(True for _ in cur):
                pass
            i += len(exp)
            cur = None
        elif k == "L":
            vals = dict(e[2])
            names = sorted({n[:-4] for n in vals})
            for insn in names:
                if i >= len(act) or act[i][0] != "I":
                    return f"launch {insn} not lowered to an instruction", st
                g = act[i]
                if g[1] != launch_fields[insn + ".rs1"] or wrap(g[2], 64) != wrap(vals[insn + ".rs1"], 64) or wrap(g[3], 64) != wrap(vals[insn + ".rs2"], 64):
                    return f"launch instruction {g} does not carry {vals}", st
                i += 1
                st["rocc_launches_compared"] += 1
        elif k in ("X", "T"):
            if i >= len(act) or act[i][:2] != e[:2]:
                return f"side-effecting op {e[:2]} out of order with RoCC instructions", st
            i += 1
    if i != len(act):
        return f"{len(act) - i} extra instructions, first {act[i][:2]}", st
    return None, st


LAST_INFO: dict = {}


class LoggingAccfg(AccfgMachine):
    def __init__(self, module, **kw):
        super().__init__(module, **kw)
        self.log_writes = True

    def _h_setup(self, op):
        self.events.append(("SB", op.accelerator.data, op.in_state is not None))
        super()._h_setup(op)
        self.events.append(("SE", op.accelerator.data))


def leftovers(module):
    bad = []
    for op in module.walk():
        if op.name.startswith("accfg."):
            bad.append(f"op {op.name}")
        for v in list(op.results) + [a for r in op.regions for b in r.blocks for a in b.args]:
            if v.type.name in ("accfg.state", "accfg.token"):
                bad.append(f"value of type {v.type.name} at {op.name}")
        for o in op.operands:
            if o.type.name in ("accfg.state", "accfg.token"):
                bad.append(f"operand of type {o.type.name} at {op.name}")
    return bad


# ------------------------------------------------------------------------------------------------
def run_program(desc, text, argnames, vecs, pre, res, skeleton=""):
    out = []
    acc = AD.build(desc)
    accop = acc.generate_acc_op()
    name = accop.name_prop.string_value()
    c = make_ctx(extra_accelerators={name: (lambda a=acc: a)})
    fields = {k: v.value.data for k, v in accop.fields.data.items()}
    lfields = {k: v.value.data for k, v in accop.launch_fields.data.items()}
    barrier = accop.barrier.value.data
    rocc = desc[0] == "gemmini"
    case = {"desc": desc, "text": text, "args": argnames, "vec": None, "pre": pre}
    try:
        p0 = parse(c, text)
        p0.verify()
        assign_ids(p0)
    except Exception as e:
        R.bump(res, "generator_invalid")
        R.reject(res, e)
        return out
    res["evaluations"] += 1
    pa = stage(c, p0, pre, res)
    if pa is None:
        return out
    pc = stage(c, pa, "convert-accfg-to-csr", res)
    if pc is None:
        return out
    try:
        pc.verify()
    except Exception as e:
        out.append({"kind": "verify-failed-after-lowering", "detail": str(e)[:300], "case": case})
        return out
    lo = leftovers(pc)
    R.bump(res, "leftover_walks")
    if lo:
        out.append({"kind": "state-values-survive-lowering", "detail": "; ".join(lo[:4]), "case": case})
        return out
    res["programs"] += 1
    style = BARRIER_STYLE.get(name, 3)
    subsets = set()
    has_cf_state = any(op.name in ("scf.for", "scf.if") and any(r.type.name == "accfg.state" for r in op.results) for op in pa.walk())
    for trips, vec in vecs:
        args = [vec[a] for a in argnames]
        case = {**case, "vec": vec}
        try:
            ma = LoggingAccfg(pa, step_budget=600_000)
            ma.run_func("main", args)
        except (StepBudget, Unsupported, MachineError, UseBeforeDef) as e:
            R.bump(res, "oracle_skipped:" + type(e).__name__)
            continue
        try:
            mc = CsrMachine(pc, barrier_styles={barrier: style}, launch_addrs=lfields.values(), step_budget=900_000)
            mc.run_func("main", args)
        except StepBudget:
            out.append({"kind": "await-does-not-terminate", "detail": "step budget exceeded in lowered program (polling loop?)", "case": case})
            break
        except (UseBeforeDef, MachineError) as e:
            out.append({"kind": "lowered-program-fails", "detail": f"{type(e).__name__}: {e}"[:300], "case": case})
            break
        except Unsupported as e:
            R.bump(res, "oracle_skipped:Unsupported")
            continue
        res["compared"] += 1
        R.bump(res, "vectors_executed")
        if rocc:
            d, st = compare_rocc(ma.events, mc.events, fields, lfields)
        else:
            segs = expected_segments(ma.events, fields, lfields, barrier, style)
            d, st = compare_csr(segs, mc.events, lfields, barrier, style)
            for sg in segs:
                if sg[0] == "set":
                    subsets.add(frozenset(a for a, _ in sg[1]))
        for k, v in st.items():
            R.bump(res, k, v)
        if d:
            out.append({"kind": "csr-trace-differs", "detail": d, "case": case, "info": dict(LAST_INFO) if rocc else {}})
            LAST_INFO.clear()
            break
    if has_cf_state and (len(subsets) >= 2 or rocc):
        R.nontrivial(res, repr(desc), skeleton)
    return out


# -- monitor 2 ------------------------------------------------------------------------------------
def check_regmap(desc, res):
    out = []
    try:
        acc = AD.build(desc)
        op = acc.generate_acc_op()
    except Exception as e:
        R.reject(res, e)
        return out
    R.bump(res, "regmaps_checked")
    res["evaluations"] += 1
    fields = {k: v.value.data for k, v in op.fields.data.items()}
    lfields = {k: v.value.data for k, v in op.launch_fields.data.items()}
    barrier = op.barrier.value.data
    owners = {}
    if desc[0] == "gemmini":
        # RoCC: one instruction carries X.rs1 and X.rs2, so the two halves must declare the same funct7 (otherwise one of them cannot
        # reach its declared place), and different instructions must declare different ones
        R.bump(res, "regmaps_checked_rocc")
        by_insn = {}
        for k, a in list(fields.items()) + list(lfields.items()):
            if not k.endswith((".rs1", ".rs2")):
                out.append({"kind": "register-map-not-injective", "detail": f"RoCC field {k} is neither an rs1 nor an rs2 half", "case": {"desc": desc, "regmap": True}})
                continue
            by_insn.setdefault(k[:-4], {})[k[-3:]] = a
        seen_f7 = {}
        for insn, halves in by_insn.items():
            if len(set(halves.values())) != 1 or set(halves) != {"rs1", "rs2"}:
                out.append({"kind": "register-map-not-injective", "detail": f"RoCC instruction {insn}: halves declare {halves}", "case": {"desc": desc, "regmap": True}})
            f7 = next(iter(halves.values()))
            if f7 in seen_f7:
                out.append({"kind": "register-map-not-injective", "detail": f"funct7 {f7} shared by instructions {seen_f7[f7]} and {insn}", "case": {"desc": desc, "regmap": True}})
            seen_f7.setdefault(f7, insn)
        if not out:
            R.nontrivial(res, "regmap", repr(desc))
        return out

    def claim(addr, who):
        if addr in owners:
            out.append({"kind": "register-map-not-injective", "detail": f"address {addr:#x} shared by {owners[addr]} and {who}", "case": {"desc": desc, "regmap": True}})
        owners.setdefault(addr, who)

    for k, a in fields.items():
        claim(a, "field " + k)
    for k, a in lfields.items():
        claim(a, "launch " + k)
    claim(barrier, "barrier")
    cls = desc[0]
    if cls in ("alu", "gemmx", "phs") and "launch_streamer" in lfields:
        claim(lfields["launch_streamer"] + 1, "reserved streamer busy register")
        claim(lfields["launch_streamer"] + 2, "reserved streamer performance counter")
    if cls == "xdma":
        base = fields["a_ptr_low"]
        for g in range(2 * (acc.max_multicast_dest - 1)):
            claim(base + 4 + g, f"reserved multicast destination register {g}")
    declared = list(op.fields.data.keys())
    used = list(acc.fields)
    if set(declared) != set(used) or len(declared) != len(used) or len(set(used)) != len(used):
        out.append(
            {
                "kind": "declared-fields-differ-from-setup-fields",
                "detail": f"declared-only {sorted(set(declared) - set(used))[:4]} setup-only {sorted(set(used) - set(declared))[:4]} dup {len(used) - len(set(used))}",
                "case": {"desc": desc, "regmap": True},
            }
        )
    if set(op.launch_fields.data.keys()) != set(acc.launch_fields):
        out.append({"kind": "declared-launch-fields-differ", "detail": f"{list(op.launch_fields.data.keys())} vs {list(acc.launch_fields)}", "case": {"desc": desc, "regmap": True}})
    if cls == "phs":
        R.bump(res, "regmaps_checked_phs")
        n_sw = acc.pe.get_true_switches()
        got = [k for k in declared if k.startswith("phs_switch_")]
        if len(got) != n_sw:
            out.append({"kind": "declared-fields-differ-from-setup-fields", "detail": f"{len(got)} switch fields declared, the PE has {n_sw} switches", "case": {"desc": desc, "regmap": True}})
        R.seen(res, "phs_switch_counts", n_sw)
    if not out:
        R.nontrivial(res, "regmap", repr(desc) if cls != "phs" else ("phs", len(declared), tuple(sorted(fields.values()))))
    return out


# ------------------------------------------------------------------------------------------------
# monitor 4: gemmx launches with channel-wise quantisation (custom launch lowering, `mult_vals` / `shift_vals` / `m` attributes)
# ------------------------------------------------------------------------------------------------
def run_gemmx_channel_launch(case, res):
    """A gemmx streaming region with a rescale carrying g*n multipliers / shifts is lowered by the REAL convert-linalg-to-accfg
    (launch op gets the attributes) and the REAL convert-accfg-to-csr; the CSR log of the launch phase is compared with the meaning
    of the attributes: per group of n output channels the group's multipliers go to mult_0..n-1, the group's shifts to the bytes of
    shift_0.. (byte j%4 of register j//4, the packing the setup phase uses), then the array is launched and awaited; the streamers
    are launched once; M * groups equals the M the setup wrote; no other register is written."""
    from vf.checks import C08

    out = []
    desc = case["desc"]
    acc = AD.build(desc)
    accop = acc.generate_acc_op()
    name = accop.name_prop.string_value()
    c = make_ctx(extra_accelerators={name: (lambda a=acc: a)})
    nstreams = len(acc.streamer_config.data.streamers)
    rp = case["rp"]
    text = C08.build_text(name, nstreams, case["pats"], set(case["zero_ptrs"]), "gemmx", case["kernel"], rp, case["zps"])
    res["evaluations"] += 1
    try:
        m = parse(c, text)
        m.body.block.insert_op_before(accop, m.body.block.first_op)
        m.verify()
        run_passes_limited(c, m, "convert-linalg-to-accfg", 5)
        m.verify()
    except PassTimeout:
        R.reject(res, "PassTimeout")
        return out
    except Exception as e:
        R.reject(res, e)
        return out
    launches = [op for op in m.walk() if op.name == "accfg.launch"]
    if len(launches) != 1 or "mult_vals" not in launches[0].attributes:
        R.bump(res, "channel_launch:no_attributes")
        return out
    try:
        run_passes_limited(c, m, "convert-accfg-to-csr", 5)
        m.verify()
    except PassTimeout:
        R.reject(res, "PassTimeout")
        return out
    except Exception as e:
        R.reject(res, e)
        return out
    fields = {k: v.value.data for k, v in accop.fields.data.items()}
    lfields = {k: v.value.data for k, v in accop.launch_fields.data.items()}
    barrier = accop.barrier.value.data
    by_addr = {a: k for k, a in fields.items()}
    ptr_vals = [0x2000_0000 + 0x10000 * i + 64 for i in range(nstreams)]
    try:
        mc = CsrMachine(m, barrier_styles={barrier: BARRIER_STYLE.get(name, 3)}, launch_addrs=[lfields["launch_gemmx"]], step_budget=900_000)
        mc.run_func("main", ptr_vals)
    except StepBudget:
        out.append({"kind": "await-does-not-terminate", "detail": "step budget exceeded in lowered program (polling loop?)", "case": case})
        return out
    except (UseBeforeDef, MachineError) as e:
        out.append({"kind": "lowered-program-fails", "detail": f"{type(e).__name__}: {e}"[:300], "case": case})
        return out
    except Unsupported:
        R.bump(res, "oracle_skipped:Unsupported")
        return out
    res["programs"] += 1
    res["compared"] += 1
    R.bump(res, "channel_launches_checked")
    n = acc.n
    mult, shift = rp["mult"], rp["shift"]
    groups = len(mult) // n
    ev = mc.events
    # setup phase = everything before the first launch-register write
    la = set(lfields.values())
    first_launch = next((i for i, e in enumerate(ev) if e[0] == "CW" and e[1] in la), None)
    if first_launch is None:
        out.append({"kind": "csr-trace-differs", "detail": "no launch register written", "case": case, "info": {"what": "channel-launch"}})
        return out
    setup_regs = {}
    for e in ev[:first_launch]:
        if e[0] == "CW":
            setup_regs[e[1]] = e[2]
    # the custom lowering rewrites M and the loop bound right before the streamer launch: find the last M write
    phase = ev[:]
    bad = None
    writes = [(i, e[1], e[2]) for i, e in enumerate(phase) if e[0] == "CW"]
    for _i, a, _v in writes:
        if a not in by_addr and a not in la:
            bad = f"write to undeclared register {a:#x}"
    m_writes = [v for _i, a, v in writes if a == fields["M"]]
    if not bad and len(m_writes) >= 2 and m_writes[0] >= (1 << 31):
        # the row count travels in a signless i32 attribute; generated marker bounds can multiply to more than 2^31 - 1 rows, which no
        # real schedule has and which the attribute cannot carry as a positive number: outside the domain, not judged
        R.bump(res, "channel_launch:m_beyond_i32_out_of_domain")
        return out
    if not bad and len(m_writes) >= 2:
        if m_writes[-1] * groups != m_writes[0]:
            if m_writes[0] % groups == 0:
                bad = f"M rewritten to {m_writes[-1]} for {groups} channel groups, the setup wrote {m_writes[0]}"
            else:
                R.bump(res, "channel_launch:m_not_divisible_out_of_domain")
                return out
    elif not bad:
        bad = f"M written {len(m_writes)} time(s); the per-group launches need the row count divided by the {groups} groups"
    streamer_launches = [i for i, a, v in writes if a == lfields["launch_streamer"]]
    gemmx_launches = [i for i, a, v in writes if a == lfields["launch_gemmx"]]
    if not bad and len(streamer_launches) != 1:
        bad = f"streamers launched {len(streamer_launches)} times"
    if not bad and len(gemmx_launches) != groups:
        bad = f"array launched {len(gemmx_launches)} times for {groups} channel groups"
    if not bad and streamer_launches[0] > gemmx_launches[0]:
        bad = "array launched before the streamers"
    if not bad:
        prev = streamer_launches[0]
        for g, li in enumerate(gemmx_launches):
            seg = {a: v for i, a, v in writes if prev < i < li}
            for j in range(n):
                a = fields[f"mult_{j}"]
                want = wrap(mult[g * n + j], 32)
                if seg.get(a) != want:
                    bad = f"group {g}: mult_{j} holds {seg.get(a)} at the launch, channel {g * n + j} needs {want}"
                    break
            if bad:
                break
            for k in range((n + 3) // 4):
                want = 0
                for b in range(4):
                    if 4 * k + b < n:
                        want |= (shift[g * n + 4 * k + b] & 0xFF) << (8 * b)
                if seg.get(fields[f"shift_{k}"]) != want:
                    bad = f"group {g}: shift_{k} holds {seg.get(fields[f'shift_{k}'])} at the launch, channels need {want:#x}"
                    break
            if bad:
                break
            extra = [by_addr.get(a, hex(a)) for a in seg if not (by_addr.get(a, "").startswith(("mult_", "shift_")))]
            if extra and g > 0:
                bad = f"group {g}: registers other than the quantisation parameters rewritten between launches: {extra[:4]}"
                break
            # the launch must be awaited before the next group's parameters are written
            nxt = gemmx_launches[g + 1] if g + 1 < len(gemmx_launches) else len(phase)
            first_write_after = next((i for i, _a, _v in writes if li < i < nxt), nxt)
            polls = [i for i, e in enumerate(phase) if e[0] == "CR" and e[1] == barrier and li < i < first_write_after]
            if not polls:
                bad = f"group {g}: the launch is not awaited before the next group's parameters are written"
                break
            R.bump(res, "channel_groups_checked")
            prev = li
    if bad:
        out.append({"kind": "csr-trace-differs", "detail": "[gemmx channel-wise launch] " + bad, "case": {**case, "channel_launch": True}, "info": {"what": "channel-launch"}})
    else:
        R.nontrivial(res, "channel-launch", n, groups, case["kernel"])
    return out


def gen_channel_launch_case(rng):
    from vf.checks import C08

    for _ in range(50):
        desc = AD.gen_desc(rng, classes=("gemmx",), p_default=0.3)
        acc = AD.build(desc)
        if acc.n % 4 == 0:
            break
    kernel = rng.choice(["qmac+rescale", "mac+rescale"])
    groups = rng.choice([2, 2, 3, 4])
    rp = C08.gen_rescale_params(rng, acc.n * groups, True)
    rp["shift"] = [rng.randint(1, 60) for _ in rp["shift"]]
    zero_ptrs = [3]
    pats = C08.gen_patterns(rng, acc, zero_ptrs)
    # make the output row count a multiple of the number of groups in most cases
    return {"desc": desc, "pats": pats, "zero_ptrs": zero_ptrs, "kernel": kernel, "rp": rp, "zps": [rng.randint(-120, 120), rng.randint(-120, 120)]}


def attribute(v):
    """Known findings by mechanism: predicate + counterfactual (the corrected lowering *rejects* the input)."""
    info = v.get("info") or {}
    case = v.get("case") or {}
    if (
        v["kind"] == "csr-trace-differs"
        and info.get("what") == "rocc-operand"
        and info.get("have") == 0
        and info.get("setup_has_in_state") is False
        and info.get("operand_written_by_this_setup") is False
        and case.get("vec") is not None
    ):
        from vf.counterfactual.rocc_defaults import rocc_rejects_partial_setup_without_state

        res2 = R.new_result()
        with rocc_rejects_partial_setup_without_state():
            again = replay(case, res2)
        if not again and any(k.startswith("NotImplementedError") for k in res2["rejected"]):
            return "rocc-default-zero-for-unknown-partner"
    return None


def run_shard(seed, shard, n_cases, tier):
    res = R.new_result()
    rng = random.Random(seed)
    nsh = TIERS[tier]["shards"]
    # monitor 2: exhaustive uniform box, split over shards
    box = list(AD.uniform_box("alu")) + list(AD.uniform_box("xdma")) + [("hwpe", None, None), ("alu", None, None), ("gemmx", None, None), ("xdma", None, None), ("gemmini", None, None)]
    for i, d in enumerate(box):
        if i % nsh == shard:
            for v in check_regmap(d, res):
                R.violation(res, v["kind"], v["detail"], v["case"], attribute(v), info=v.get("info"))
    R.bump(res, "regmap_box_size", len(box) if shard == 0 else 0)
    for _ in range(n_cases * (4 if tier == "thorough" else 6)):
        d = AD.gen_desc(rng, p_default=0.0)
        for v in check_regmap(d, res):
            R.violation(res, v["kind"], v["detail"], v["case"], attribute(v), info=v.get("info"))
    # PHS instances: PE graphs from the real encoder / merge over generated kernel histories (0..n switches), generated templates
    rng_phs = random.Random(seed ^ 0x9E3779B9)
    for _ in range(n_cases):
        d = AD.gen_phs_desc(rng_phs)
        for v in check_regmap(d, res):
            R.violation(res, v["kind"], v["detail"], v["case"], attribute(v), info=v.get("info"))
    # monitors 1 and 3
    for i in range(n_cases):
        rocc = rng.random() < 0.25
        desc = ("gemmini", None, None) if rocc else AD.gen_desc(rng)
        try:
            spec = AD.spec_of(AD.build(desc))
        except Exception as e:
            R.reject(res, e)
            continue
        prog = gen_program(rng, acc_specs=[spec], vt="i64" if rocc else "i32", max_launches=7)
        vecs = input_vectors(prog, rng, 4)
        pre = "accfg-trace-states,accfg-dedup" + (",accfg-config-overlap" if rng.random() < 0.5 else "")
        argn = [a.name for a in prog.args]
        for v in run_program(desc, prog.text, argn, vecs, pre, res, prog.skeleton):
            R.violation(res, v["kind"], v["detail"], v["case"], attribute(v), info=v.get("info"))
        R.seen(res, "accelerator_classes", desc[0])
        if i < 1 and shard == 0:
            R.sample(res, {"accelerator": repr(desc), "pipeline": pre, "program": prog.text[:3000], "vector": vecs[0][1]})
    # monitor 4: channel-wise quantised gemmx launches
    rng_ch = random.Random(seed ^ 0x51ED270B)
    for i in range(max(2, n_cases // 3)):
        case = gen_channel_launch_case(rng_ch)
        for v in run_gemmx_channel_launch(case, res):
            R.violation(res, v["kind"], v["detail"], v["case"], attribute(v), info=v.get("info"))
    # the same lowering monitors for PHS instances (switch fields between the streamer launch register and loop_bound_alu)
    for i in range(max(1, n_cases // 6)):
        desc = AD.gen_phs_desc(rng_phs)
        try:
            spec = AD.spec_of(AD.build(desc))
        except Exception as e:
            R.reject(res, e)
            continue
        prog = gen_program(rng_phs, acc_specs=[spec], vt="i32", max_launches=5)
        vecs = input_vectors(prog, rng_phs, 3)
        pre = "accfg-trace-states,accfg-dedup" + (",accfg-config-overlap" if rng_phs.random() < 0.5 else "")
        before = res["compared"]
        for v in run_program(desc, prog.text, [a.name for a in prog.args], vecs, pre, res, prog.skeleton):
            R.violation(res, v["kind"], v["detail"], v["case"], attribute(v), info=v.get("info"))
        R.bump(res, "phs_program_executions_compared", res["compared"] - before)
        R.seen(res, "accelerator_classes", "phs")
    return res


def replay(case, res=None):
    res = res if res is not None else R.new_result()
    desc = case["desc"]
    if desc[0] == "phs":
        desc = ("phs", None, tuple(tuple(x) for x in desc[2]))
    else:
        desc = (desc[0], [tuple(tuple(x) if isinstance(x, list) else x for x in sd) for sd in desc[1]] if desc[1] else None, tuple(desc[2]) if desc[2] else None)
    if case.get("channel_launch"):
        from vf.checks import C08

        cc = dict(case)
        cc["desc"] = C08._norm_desc(case["desc"])
        return run_gemmx_channel_launch(cc, res)
    if case.get("regmap"):
        return check_regmap(desc, res)
    vecs = [((), case["vec"])] if case.get("vec") else []
    return run_program(desc, case["text"], case["args"], vecs, case["pre"], res)
