"""Crude FileCheck over the upstream expectations (tests/filecheck): used to confirm that a `fix:` commit
does not change what upstream expects.  Counts CHECK lines that can be matched in order per split chunk.

usage: python -m vf.filecheck [file ...]     prints  <file> matched/total
"""
from __future__ import annotations

import os
import re
import shlex
import sys

import vf.compat  # noqa
from vf.ctx import make_ctx, parse, run_passes, to_text
from vf.corpus import split_file


def norm(s):
    s = re.sub(r"\s+", " ", s.strip())
    s = re.sub(r"\s*:\s*", ":", s)
    s = re.sub(r"\s*,\s*", ",", s)
    s = re.sub(r"\s*=\s*", "=", s)
    return s


def pat_to_regex(p):
    out = []
    i = 0
    p = norm(p)
    for m in re.finditer(r"\{\{(.*?)\}\}|\[\[([A-Za-z_0-9]+):(.*?)\]\]|\[\[([A-Za-z_0-9]+)\]\]", p):
        out.append(re.escape(p[i : m.start()]))
        if m.group(1) is not None:
            out.append("(?:" + m.group(1) + ")")
        else:
            out.append(".*?")
        i = m.end()
    out.append(re.escape(p[i:]))
    return re.compile("".join(out))


def run_spec_from_runline(line):
    m = re.search(r"snax-opt(.*?)(\||$)", line)
    if not m:
        return None
    if "mlir-opt" in line or "circt-opt" in line:
        return None
    toks = shlex.split(m.group(1))
    spec = None
    for i, t in enumerate(toks):
        if t == "-p" and i + 1 < len(toks):
            spec = toks[i + 1]
    prefixes = re.findall(r"--check-prefix(?:es)?[ =]([A-Za-z_,]+)", line)
    pf = set()
    for p in prefixes:
        pf.update(p.split(","))
    return spec, (pf or {"CHECK"}), "--split-input-file" in line


def check_file(path):
    text = open(path).read()
    total = matched = 0
    for line in text.splitlines():
        if "RUN:" not in line:
            continue
        r = run_spec_from_runline(line)
        if r is None or r[0] is None:
            continue
        spec, prefixes, split = r
        chunks = split_file(path) if split else [text]
        for chunk in chunks:
            ctx = make_ctx()
            try:
                m = parse(ctx, chunk)
                run_passes(ctx, m, spec)
                out = [norm(l) for l in to_text(m).splitlines()]
            except Exception as e:
                out = []
            pos = 0
            for cl in chunk.splitlines():
                mm = re.match(r"\s*//\s*([A-Z_]+)(-NEXT|-SAME|-DAG|-NOT)?:\s?(.*)$", cl)
                if not mm or mm.group(1) not in prefixes or mm.group(2) == "-NOT":
                    continue
                total += 1
                rx = pat_to_regex(mm.group(3))
                for j in range(pos, len(out)):
                    if rx.search(out[j]):
                        matched += 1
                        pos = j + (0 if mm.group(2) == "-SAME" else 1)
                        break
    return matched, total


def main(argv):
    files = argv or []
    if not files:
        root = os.path.join(vf.compat.repo_path(), "tests/filecheck")
        for d, _, fs in os.walk(root):
            for f in sorted(fs):
                if f.endswith(".mlir"):
                    files.append(os.path.join(d, f))
    tm = tt = 0
    for f in sorted(files):
        try:
            m, t = check_file(f)
        except Exception as e:
            m, t = 0, 0
        tm += m
        tt += t
        print(f"{os.path.relpath(f, vf.compat.repo_path())} {m}/{t}")
    print(f"TOTAL {tm}/{tt}")


if __name__ == "__main__":
    main(sys.argv[1:])
