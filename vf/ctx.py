"""AccContext factory and in-process pass runner (the equivalent of `snax-opt -p <spec>`)."""
import vf.compat  # noqa: F401  (must precede snaxc imports)

import sys

from xdsl.dialects import get_all_dialects
from xdsl.parser import Parser
from xdsl.passes import PassPipeline
from xdsl.transforms import get_all_passes

_ALLP = None


def all_passes():
    global _ALLP
    if _ALLP is None:
        from snaxc.transforms import get_all_snax_passes

        p = get_all_passes()
        p.update(get_all_snax_passes())
        _ALLP = p
    return _ALLP


def make_ctx(extra_accelerators=None, memories=None, allow_unregistered=True):
    from snaxc.accelerators import AccContext, get_all_accelerators
    from snaxc.dialects import get_all_snax_dialects
    from snaxc.util.snax_memory import L1, L3, TEST

    ctx = AccContext()
    dl = get_all_dialects()
    dl.pop("accfg", None)
    dl.pop("stream", None)
    dl.update(get_all_snax_dialects())
    for n, f in dl.items():
        ctx.register_dialect(n, f)
    for n, f in get_all_accelerators().items():
        ctx.register_accelerator(n, f)
    for n, f in (extra_accelerators or {}).items():
        if n in ctx._registered_accelerators:
            ctx._registered_accelerators[n] = f
        else:
            ctx.register_accelerator(n, f)
    for m in memories if memories is not None else (L1, L3, TEST):
        ctx.register_memory(m)
    ctx.allow_unregistered = allow_unregistered
    return ctx


def parse(ctx, text):
    return Parser(ctx, text).parse_module()


def run_passes(ctx, module, spec):
    """Apply a pass pipeline spec string (snax-opt syntax) to the module in place."""
    pipeline = PassPipeline.parse_spec(all_passes(), spec)
    pipeline.apply(ctx, module)
    return module


def to_text(module):
    from io import StringIO

    from xdsl.printer import Printer

    s = StringIO()
    Printer(stream=s).print_op(module)
    return s.getvalue()


class PassTimeout(Exception):
    """The real pass did not terminate within the wall-clock watchdog (inconclusive for that case,
    unless termination itself is what is being monitored)."""


class time_limit:
    """SIGALRM based watchdog around one call into repo code (main thread only)."""

    def __init__(self, seconds):
        self.seconds = seconds

    def __enter__(self):
        import signal

        def handler(signum, frame):
            raise PassTimeout()

        self._old = signal.signal(signal.SIGALRM, handler)
        signal.setitimer(signal.ITIMER_REAL, self.seconds)

    def __exit__(self, *a):
        import signal

        signal.setitimer(signal.ITIMER_REAL, 0)
        signal.signal(signal.SIGALRM, self._old)
        return False


def run_passes_limited(ctx, module, spec, seconds=10):
    with time_limit(seconds):
        return run_passes(ctx, module, spec)
