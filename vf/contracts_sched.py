"""Contract layer (runtime monitors) on the real DART scheduling API  -- used by C03 and C16.

The monitors are plain pre/post-condition wrappers around the *real* functions of
    snaxc.ir.dart.access_pattern   SchedulePattern/Schedule .rotate .tile_dim .add_dim,
                                   PatternCollection.clear_unused_dims/.canonicalize, AccessPattern.canonicalize,
                                   TemplatePattern.matches, same_nonzero_singular_vectors
    snaxc.ir.dart.scheduler        scheduler_backtrack (generator: every yielded schedule), scheduler,
                                   is_pure_output_stationary / is_memory_flexible_enough / is_output_channel_stationary
They are installed by rebinding: methods on the class object, module-level functions in *every* loaded module namespace
that holds the original (sys.modules scan), so that `from ... import scheduler` copies are monitored as well.  Every
monitor counts how often its condition was really evaluated (`ST.counters`); a check that ends with zero evaluations
is inconclusive, not "held".

Oracles in here never call the repo: images are computed with numpy from the raw (bounds, A, b) numbers read off the
objects, row spaces with vf.ref.rowspace (exact Fraction elimination).

A violation is *recorded* (ST.violations), never raised into the repo code, so a search keeps running.
"""
from __future__ import annotations

import functools
import os
import sys

for _v in ("OPENBLAS_NUM_THREADS", "OMP_NUM_THREADS", "MKL_NUM_THREADS"):
    os.environ.setdefault(_v, "1")  # before numpy: shards run side by side, one BLAS thread each

import numpy as np  # noqa: E402

from vf.ref import rowspace as RS

MAX_POINTS = 20_000  # boxes larger than this are out of the monitored domain (counted)
ENTRY_BOUND = 64  # differential monitor on the SVD matcher only judges matrices with |a| <= 64


# ------------------------------------------------------------------------------------------------
# monitor state
# ------------------------------------------------------------------------------------------------
class State:
    def __init__(self):
        self.counters = {}
        self.violations = []  # {"kind","detail","where"}
        self.reset_case()
        self.check_img = True  # C03 conditions
        self.check_fit = True  # C16 conditions
        self.in_search_budget_default = 24_000  # points that may be spent on img contracts inside one search
        self.yield_check_cap = 64  # yielded schedules fully checked per search (the rest is counted)
        self.installed = False
        self.sites = {}
        self.template_log = None  # set to a list to record the raw templates of top-level searches

    def reset_case(self):
        self.search_depth = 0  # >0 while the body of a top-level scheduler_backtrack is executing
        self.suppress = 0  # >0 while inside a collection-level monitored call (pattern-level calls pass through)
        self.budget = 0
        self.img_cache = {}  # id(obj) -> (obj, img)   (obj kept alive so ids are not reused)
        self.requested_seen = {}  # constraint kind -> params, observed during the running search
        self.search_log = []  # one dict per finished/aborted top-level search of the current case

    def bump(self, k, n=1):
        self.counters[k] = self.counters.get(k, 0) + n

    def violation(self, kind, detail, where=""):
        self.violations.append({"kind": kind, "detail": detail, "where": where})

    def take_violations(self):
        v, self.violations = self.violations, []
        return v


ST = State()


# ------------------------------------------------------------------------------------------------
# reference: image of an iteration box  (img)
# ------------------------------------------------------------------------------------------------
def n_points(bounds):
    n = 1
    for b in bounds:
        n *= int(b)
    return n


def box_points(bounds):
    """All points of the box in loop-nest order (first dim outermost), shape (N, n)."""
    bounds = tuple(int(b) for b in bounds)
    if len(bounds) == 0:
        return np.zeros((1, 0), dtype=np.int64)
    return np.indices(bounds, dtype=np.int64).reshape(len(bounds), -1).T


def values(bounds, mats, offs):
    """(N, R_total) matrix: row p = concatenation over operands of A_i @ p + b_i."""
    P = box_points(bounds)
    n = len(bounds)
    ms = []
    for m in mats:
        m = np.asarray(m, dtype=np.int64)
        ms.append(m if (m.ndim == 2 and m.shape[1] == n) else m.reshape(len(m), n))
    os_ = [np.asarray(o, dtype=np.int64).reshape(-1) for o in offs]
    M = np.concatenate(ms, axis=0) if ms else np.zeros((0, n), dtype=np.int64)
    o = np.concatenate(os_) if os_ else np.zeros((0,), dtype=np.int64)
    return P @ M.T + o


def row_keys(V):
    """Collision-free 1-D integer key per row of V (mixed radix), or None when it does not fit in int64."""
    if V.shape[1] == 0:
        return np.zeros(V.shape[0], dtype=np.int64), (), ()
    mn = V.min(axis=0)
    rng = V.max(axis=0) - mn + 1
    total = 1
    for r in rng.tolist():
        total *= int(r)
    if total >= 2**62:
        return None, tuple(mn.tolist()), tuple(rng.tolist())
    strides = np.ones(V.shape[1], dtype=np.int64)
    for j in range(V.shape[1] - 2, -1, -1):
        strides[j] = strides[j + 1] * rng[j + 1]
    return ((V - mn) * strides).sum(axis=1), tuple(mn.tolist()), tuple(rng.tolist())


def img(bounds, mats, offs):
    """Canonical form of the multiset {(A_1 p + b_1, ..., A_k p + b_k) : p in box}."""
    V = values(bounds, mats, offs)
    if V.shape[1] == 0:
        return ("n", V.shape[0])
    keys, mn, rng = row_keys(V)
    if keys is None:
        order = np.lexsort(V.T[::-1])
        return ("v", V.shape, V[order])
    keys.sort()
    return ("k", mn, rng, keys)


def img_equal(a, b):
    if a[0] != b[0]:
        return False
    if a[0] == "n":
        return a[1] == b[1]
    if a[0] == "v":
        return a[1] == b[1] and bool(np.array_equal(a[2], b[2]))
    return a[1] == b[1] and a[2] == b[2] and a[3].shape == b[3].shape and bool(np.array_equal(a[3], b[3]))


def img_describe(a):
    if a[0] == "n":
        return f"{a[1]} points, no indices"
    if a[0] == "v":
        return f"{a[1][0]} points, first rows {a[2][:3].tolist()}"
    return f"{a[3].shape[0]} points, per-column min {list(a[1])} extent {list(a[2])}, distinct tuples {len(np.unique(a[3]))}"


# raw numbers of the observed objects ------------------------------------------------------------
def _mat(M, ncols):
    """int64 (rows x ncols) copy of a matrix-like (also when it has 0 rows or 0 columns)."""
    M = np.array(M, dtype=np.int64)
    if M.ndim == 2 and M.shape[1] == ncols:
        return M
    return M.reshape(len(M), ncols)


def raw_pattern(p):
    """(bounds, A, b) copied out of an AccessPattern-like object (plain attribute reads only)."""
    bounds = tuple(p.bounds)
    A = np.array(p.pattern.A, dtype=np.int64)
    if A.ndim != 2 or A.shape[1] != len(bounds):
        raise ValueError("pattern matrix does not fit the bounds")
    return bounds, A, np.array(p.pattern.b, dtype=np.int64).reshape(-1)


def raw_collection(c):
    return [raw_pattern(p) for p in c]


def static_bounds(bounds):
    return all(isinstance(b, (int, np.integer)) and not isinstance(b, bool) and b > 0 for b in bounds)


def img_of_pattern(p):
    b, A, o = raw_pattern(p)
    return img(b, [A], [o])


def img_of_collection(c):
    """Joint image when all patterns share one box (the meaning of a Schedule); otherwise the tuple of the
    per-pattern images (collections with differing boxes only occur in hand-written unit tests)."""
    raws = raw_collection(c)
    if not raws:
        return ("n", 0)
    b0 = raws[0][0]
    if all(r[0] == b0 for r in raws):
        return img(b0, [r[1] for r in raws], [r[2] for r in raws])
    return ("t", tuple(img(r[0], [r[1]], [r[2]]) for r in raws))


def _img_eq_any(a, b):
    if a[0] == "t" or b[0] == "t":
        return a[0] == b[0] and len(a[1]) == len(b[1]) and all(img_equal(x, y) for x, y in zip(a[1], b[1]))
    return img_equal(a, b)


def _cached_img(obj, fn):
    ent = ST.img_cache.get(id(obj))
    if ent is not None and ent[0] is obj:
        return ent[1]
    im = fn(obj)
    if len(ST.img_cache) > 64:
        ST.img_cache.clear()
    ST.img_cache[id(obj)] = (obj, im)
    return im


def _fmt_pat(p):
    b, A, o = raw_pattern(p)
    return f"bounds={list(b)} A={A.tolist()} b={o.tolist()}"


def _fmt_coll(c):
    return "; ".join(_fmt_pat(p) for p in c)


# ------------------------------------------------------------------------------------------------
# C03: elementary transformations
# ------------------------------------------------------------------------------------------------
def _points_of(obj, is_coll):
    try:
        b = tuple(obj[0].bounds) if is_coll else tuple(obj.bounds)
    except Exception:
        return None
    if not static_bounds(b):
        return None
    return n_points(b)


def _post_img(name, self, result, is_coll, detail_args):
    """Post-condition img(result) == img(self).  Returns True when evaluated."""
    f = img_of_collection if is_coll else img_of_pattern
    before = _cached_img(self, f)
    after = _cached_img(result, f)
    ST.bump(f"eval:{name}")
    if ST.search_depth:
        ST.bump(f"eval_in_search:{name}")
    if not _img_eq_any(before, after):
        fmt = _fmt_coll if is_coll else _fmt_pat
        ST.violation(
            "img-not-preserved:" + name,
            f"{name}({detail_args}) changed the multiset of operand-index tuples: before [{fmt(self)}] "
            f"({img_describe(before) if before[0] != 't' else 'per-pattern'}) after [{fmt(result)}] "
            f"({img_describe(after) if after[0] != 't' else 'per-pattern'})",
            where=name,
        )
    return True


def _monitored_transform(name, is_coll, domain):
    """Build a wrapper for a method `name`; `domain(self, *args)` -> None (in domain) or a reason string."""

    def deco(orig):
        @functools.wraps(orig)
        def wrapper(self, *args, **kwargs):
            if not ST.check_img:
                return orig(self, *args, **kwargs)
            if ST.suppress and not is_coll:
                ST.bump(f"passthrough_inner:{name}")
                return orig(self, *args, **kwargs)
            # pre-state facts must be read before the call (objects are frozen, but be safe)
            why = None
            try:
                why = domain(self, *args, **kwargs)
            except Exception as e:  # malformed call: the repo will raise itself
                why = "domain-eval:" + type(e).__name__
            npts = _points_of(self, is_coll)
            if why is None and npts is None:
                why = "non-static-bounds"
            if why is None and npts > MAX_POINTS:
                why = "box-too-large"
            in_search = ST.search_depth > 0
            if name.endswith("tile_dim") and in_search and is_coll:
                # the guard the property names: scheduler_backtrack may only tile by a divisor
                ST.bump("eval:tile_guard_in_search")
                try:
                    dim, tb = args[0], args[1]
                    bd = self[0].bounds[dim]
                    if tb <= 0 or bd % tb != 0:
                        ST.violation(
                            "tile-guard",
                            f"scheduler_backtrack tiles dimension {dim} (bound {bd}) by {tb}, which does not divide it "
                            f"(schedule [{_fmt_coll(self)}])",
                            where="scheduler_backtrack",
                        )
                except Exception:
                    ST.bump("tile_guard_unreadable")
            if is_coll:
                ST.suppress += 1
            try:
                result = orig(self, *args, **kwargs)
            finally:
                if is_coll:
                    ST.suppress -= 1
            if why is not None:
                ST.bump(f"out_of_domain:{name}:{why}")
                return result
            if in_search:
                if ST.budget < npts:
                    ST.bump(f"skipped_budget_in_search:{name}")
                    return result
                ST.budget -= npts
            try:
                _post_img(name, self, result, is_coll, ",".join(map(str, args)))
            except Exception as e:  # oracle trouble is never a verdict
                ST.bump(f"oracle_error:{name}:{type(e).__name__}")
            return result

        wrapper._vf_orig = orig
        return wrapper

    return deco


def _dom_rotate(self, dim, *a, **k):
    n = self.num_dims
    if not isinstance(dim, (int, np.integer)) or dim < 1 or dim > n:
        return "dim-out-of-range"
    return None


def _dom_tile(self, dim, template_bound, *a, **k):
    n = self.num_dims
    if not isinstance(dim, (int, np.integer)) or dim < 0 or dim >= n:
        return "dim-out-of-range"
    if not isinstance(template_bound, (int, np.integer)) or template_bound <= 0:
        return "tile-not-positive"
    b = self[0].bounds[dim] if hasattr(self, "_patterns") else self.bounds[dim]
    if b % template_bound != 0:
        return "tile-does-not-divide"  # outside the documented domain of tile_dim: counted, not judged
    return None


def _dom_none(self, *a, **k):
    return None


def _dom_clear(self, bounds=None, *a, **k):
    if len(self) == 0:
        return "empty-collection"
    b0 = tuple(self[0].bounds)
    if bounds is not None and tuple(bounds) != b0:
        return "custom-bounds"
    if any(tuple(p.bounds) != b0 for p in self):
        return "patterns-with-different-boxes"
    return None


def _dom_coll(self, *a, **k):
    if len(self) == 0:
        return "empty-collection"
    return None


# ------------------------------------------------------------------------------------------------
# C16: fit of a schedule to a template
# ------------------------------------------------------------------------------------------------
_rs_memo = {}


def exact_same_rowspace(A, B):
    A = np.asarray(A, dtype=np.int64)
    B = np.asarray(B, dtype=np.int64)
    key = (A.shape, A.tobytes(), B.shape, B.tobytes())
    r = _rs_memo.get(key)
    if r is None:
        if len(_rs_memo) > 50_000:
            _rs_memo.clear()
        ncol = A.shape[1] if A.ndim == 2 else 0
        r = RS.rref(A.tolist(), ncol) == RS.rref(B.tolist(), B.shape[1] if B.ndim == 2 else ncol)
        _rs_memo[key] = r
    return r


def trimmed_template(At, rows_sched):
    """Broadcast rule: a schedule pattern with fewer results than the template addresses the *last* results."""
    extra = At.shape[0] - rows_sched
    return At[extra:, :] if extra > 0 else At


def semantic_output_stationary(bounds, A_out, T):
    """Walk the temporal loop nest (all dims but the innermost T) in execution order.  Returns (verdict, how):
    how = 'vacuous' (no temporal dims), 'semantic' (each distinct output index forms exactly one contiguous run; used
    when the output map is injective on its parallel temporal dims) or 'syntactic' (parallel dims precede reduction
    dims)."""
    n = len(bounds)
    if n <= T:
        return True, "vacuous"
    nt = n - T
    At = np.asarray(A_out, dtype=np.int64)[:, :nt]
    tb = [int(b) for b in bounds[:nt]]
    par = [c for c in range(nt) if np.any(At[:, c] != 0)]
    red = [c for c in range(nt) if c not in par]
    if not par or not red:
        # documented: only parallel or only reduction dims => output stationary.  (Observation only, never judged: with
        # a non-injective output map such as d0 - d1 the runs are not contiguous although the documented rule holds.)
        if len(par) >= 2 and n_points(tb) <= MAX_POINTS:
            V = box_points(tb) @ At.T
            k, _, _ = row_keys(V)
            if k is not None and 1 + int(np.count_nonzero(k[1:] != k[:-1])) != len(np.unique(k)):
                ST.bump("observation:os_documented_rule_holds_but_output_runs_not_contiguous(non-injective-map)")
        return True, "vacuous"
    # injectivity of the output map on the parallel dims
    Vp = box_points([tb[c] for c in par]) @ At[:, par].T
    kp, _, _ = row_keys(Vp)
    distinct_par = len(np.unique(kp)) if kp is not None else len(np.unique(Vp, axis=0))
    if distinct_par == Vp.shape[0]:
        V = box_points(tb) @ At.T
        k, _, _ = row_keys(V)
        if k is None:
            _, k = np.unique(V, axis=0, return_inverse=True)
            k = np.asarray(k).reshape(-1)
        runs = 1 + int(np.count_nonzero(k[1:] != k[:-1]))
        return runs == len(np.unique(k)), "semantic"
    first_red = min(red)
    last_par = max(par)
    ok = first_red > last_par
    if ok and n_points(tb) <= MAX_POINTS:
        V = box_points(tb) @ At.T
        k, _, _ = row_keys(V)
        if k is not None and 1 + int(np.count_nonzero(k[1:] != k[:-1])) != len(np.unique(k)):
            ST.bump("observation:os_documented_rule_holds_but_output_runs_not_contiguous(non-injective-map)")
    return ok, "syntactic"


def restated_memory_flexible(bounds, mats, T, sizes):
    """Documented predicate of is_memory_flexible_enough, restated: with temporal dims present, every operand (that has an
    element size) needs one result dim that is unrolled spatially with stride 1 and whose temporal strides are all
    multiples of the number of elements per 8-byte bank word."""
    n = len(bounds)
    if n <= T:
        return True, "vacuous"
    for A, size in zip(mats, sizes):
        A = np.asarray(A, dtype=np.int64)
        per_word = -(-8 // int(size))
        ok = False
        for r in range(A.shape[0]):
            unit_spatial = any(int(x) == 1 for x in A[r, n - T :])
            coarse_temporal = all(int(x) % per_word == 0 for x in A[r, : n - T])
            if unit_spatial and coarse_temporal:
                ok = True
                break
        if not ok:
            return False, "evaluated"
    return True, "evaluated"


def restated_channel_stationary(bounds, A_out, T, channel_dim):
    n = len(bounds)
    nt = max(n - T, 0)
    A = np.asarray(A_out, dtype=np.int64)
    if channel_dim >= A.shape[0]:
        return None, "no-such-result"
    row = [int(x) for x in A[channel_dim, :nt]]
    nz = [i for i, x in enumerate(row) if x != 0]
    if not nz:
        return True, "vacuous"
    return nz[0] == 0, "evaluated"


def fit_check(template_raw, sched_raw, requested, where):
    """All C16 post-conditions on one returned schedule.  template_raw / sched_raw: lists of (bounds, A, b)."""
    if len(template_raw) != len(sched_raw):
        ST.bump("fit_out_of_domain:operand-count-differs")
        return
    if not sched_raw:
        return
    sb = tuple(sched_raw[0][0])
    tb = tuple(template_raw[0][0])
    n, T = len(sb), len(tb)
    if any(tuple(r[0]) != sb for r in sched_raw) or any(tuple(r[0]) != tb for r in template_raw):
        ST.bump("fit_out_of_domain:boxes-differ-between-operands")
        return
    ST.bump("eval:fit_yield")
    w = min(n, T)
    if n < T:
        ST.bump("fit_short_schedule(n<T):compared-with-innermost-n-template-dims")
    # (1) row spaces
    for i, ((_, As, _), (_, At, _)) in enumerate(zip(sched_raw, template_raw)):
        As = _mat(As, n)
        At = _mat(At, T)
        S = As[:, n - w :] if w else As[:, :0]
        Tm = trimmed_template(At, As.shape[0])[:, T - w :] if w else At[:, :0]
        ST.bump("eval:fit_rowspace")
        if Tm.shape[0] < At.shape[0]:
            ST.bump("eval:fit_rowspace_broadcast_trimmed")
        if not exact_same_rowspace(S, Tm):
            ST.violation(
                "schedule-does-not-span-template",
                f"operand {i}: innermost {w} dims of the returned schedule A={As.tolist()} (bounds {list(sb)}) span "
                f"rref {RS.describe(S.tolist())} but the template {At.tolist()} (trimmed to {Tm.tolist()}) spans "
                f"rref {RS.describe(Tm.tolist())}",
                where,
            )
    # (2) bounds
    for j in range(1, w + 1):
        t = tb[-j]
        if t is None:
            ST.bump("fit_bound_unbounded_dim")
            continue
        ST.bump("eval:fit_bound")
        if sb[-j] > t:
            ST.violation(
                "bound-exceeds-template",
                f"returned schedule bounds {list(sb)}: dim -{j} has bound {sb[-j]} > template bound {t} (template bounds {list(tb)})",
                where,
            )
    # (3) requested constraints, re-evaluated on the final schedule
    mats = [_mat(r[1], n) for r in sched_raw]
    for kind, param in sorted(requested.items(), key=lambda kv: kv[0]):
        if kind == "os":
            ok, how = semantic_output_stationary(sb, mats[-1], T)
            ST.bump(f"eval:fit_os_{how}")
            if not ok:
                ST.violation(
                    "not-output-stationary",
                    f"pure output stationarity was requested but the returned schedule (bounds {list(sb)}, output A={mats[-1].tolist()}, "
                    f"{T} template dims) revisits an output index after leaving it [{how}]",
                    where,
                )
        elif kind == "mem":
            for sizes in param:
                ok, how = restated_memory_flexible(sb, mats, T, sizes)
                ST.bump(f"eval:fit_mem_{how}")
                if not ok:
                    ST.violation(
                        "memory-not-flexible-enough",
                        f"memory flexibility (element sizes {list(sizes)}) was requested but the returned schedule bounds {list(sb)} "
                        f"A={[m.tolist() for m in mats]} ({T} template dims) has an operand without a unit-stride spatial result whose "
                        f"temporal strides are bank-word multiples",
                        where,
                    )
        elif kind == "chan":
            for cd in param:
                ok, how = restated_channel_stationary(sb, mats[-1], T, cd)
                if ok is None:
                    ST.bump("fit_chan_out_of_domain")
                    continue
                ST.bump(f"eval:fit_chan_{how}")
                if not ok:
                    ST.violation(
                        "not-output-channel-stationary",
                        f"output-channel stationarity (result {cd}) was requested but the outermost temporal loop of the returned schedule "
                        f"(bounds {list(sb)}, output A={mats[-1].tolist()}) does not move along that result",
                        where,
                    )


# ------------------------------------------------------------------------------------------------
# tagging of extra checks handed to the scheduler by the harness
# ------------------------------------------------------------------------------------------------
def tag(fn, kind, param=None):
    """Wrap a real constraint function so that the monitor knows what was requested (the call still goes to `fn`)."""

    def tagged(t, s):
        return fn(t, s)

    tagged._vf_kind = kind
    tagged._vf_param = param
    return tagged


def _requested_from(extra_checks, originals):
    req = {}
    unknown = 0
    for c in extra_checks or ():
        kind = getattr(c, "_vf_kind", None)
        if kind is None:
            if c is originals.get("is_pure_output_stationary") or getattr(c, "_vf_orig", None) is originals.get("is_pure_output_stationary"):
                kind = "os"
            else:
                unknown += 1
                continue
        param = getattr(c, "_vf_param", None)
        if kind == "os":
            req["os"] = True
        elif kind == "mem":
            req.setdefault("mem", [])
            if tuple(param) not in req["mem"]:
                req["mem"].append(tuple(param))
        elif kind == "chan":
            req.setdefault("chan", [])
            if param not in req["chan"]:
                req["chan"].append(param)
    return req, unknown


def _merge_requested(a, b):
    out = {k: (list(v) if isinstance(v, list) else v) for k, v in a.items()}
    for k, v in b.items():
        if k == "os":
            out["os"] = True
        else:
            out.setdefault(k, [])
            for x in v:
                if x not in out[k]:
                    out[k].append(x)
    return out


# ------------------------------------------------------------------------------------------------
# installation
# ------------------------------------------------------------------------------------------------
_ORIG = {}


def _rebind_everywhere(orig, new):
    """Rebind a module-level function in every loaded module namespace that holds the original object."""
    n = 0
    for name, mod in list(sys.modules.items()):
        d = getattr(mod, "__dict__", None)
        if not d or name.startswith("vf.contracts_sched"):
            continue
        for k, v in list(d.items()):
            if v is orig:
                d[k] = new
                n += 1
    return n


def install():
    """Install all monitors (idempotent; call again after importing more repo modules to catch new references)."""
    import vf.compat  # noqa: F401

    import snaxc.ir.dart.access_pattern as AP
    import snaxc.ir.dart.scheduler as SCH

    try:  # holds `from ... import scheduler, is_...`
        import snaxc.transforms.dart.dart_scheduler  # noqa: F401
    except Exception:
        ST.bump("install:dart_scheduler_pass_not_importable")

    if not ST.installed:
        # ---- class methods --------------------------------------------------------------------
        for cls, is_coll, meths in (
            (AP.SchedulePattern, False, (("rotate", _dom_rotate), ("tile_dim", _dom_tile), ("add_dim", _dom_none))),
            (AP.Schedule, True, (("rotate", _dom_rotate), ("tile_dim", _dom_tile), ("add_dim", _dom_coll))),
        ):
            for m, dom in meths:
                orig = cls.__dict__[m]
                _ORIG[(cls.__name__, m)] = orig
                setattr(cls, m, _monitored_transform(f"{cls.__name__}.{m}", is_coll, dom)(orig))
        orig = AP.PatternCollection.__dict__["clear_unused_dims"]
        _ORIG[("PatternCollection", "clear_unused_dims")] = orig
        AP.PatternCollection.clear_unused_dims = _monitored_transform("PatternCollection.clear_unused_dims", True, _dom_clear)(orig)
        orig = AP.PatternCollection.__dict__["canonicalize"]
        _ORIG[("PatternCollection", "canonicalize")] = orig
        AP.PatternCollection.canonicalize = _monitored_transform("PatternCollection.canonicalize", True, _dom_coll)(orig)
        orig = AP.AccessPattern.__dict__["canonicalize"]
        _ORIG[("AccessPattern", "canonicalize")] = orig
        AP.AccessPattern.canonicalize = _monitored_transform("AccessPattern.canonicalize", False, _dom_none)(orig)
        orig = AP.TemplatePattern.__dict__["matches"]
        _ORIG[("TemplatePattern", "matches")] = orig
        AP.TemplatePattern.matches = _wrap_matches(orig)
        ST.sites["class_methods"] = 10

        # ---- module-level functions -----------------------------------------------------------
        _ORIG["same_nonzero_singular_vectors"] = AP.same_nonzero_singular_vectors
        _ORIG["scheduler_backtrack"] = SCH.scheduler_backtrack
        _ORIG["scheduler"] = SCH.scheduler
        _ORIG["is_pure_output_stationary"] = SCH.is_pure_output_stationary
        _ORIG["is_memory_flexible_enough"] = SCH.is_memory_flexible_enough
        _ORIG["is_output_channel_stationary"] = SCH.is_output_channel_stationary
        _NEW["same_nonzero_singular_vectors"] = _wrap_ssv(_ORIG["same_nonzero_singular_vectors"])
        _NEW["scheduler_backtrack"] = _wrap_backtrack(_ORIG["scheduler_backtrack"])
        _NEW["scheduler"] = _wrap_scheduler(_ORIG["scheduler"])
        _NEW["is_pure_output_stationary"] = _wrap_constraint(_ORIG["is_pure_output_stationary"], "os")
        _NEW["is_memory_flexible_enough"] = _wrap_constraint(_ORIG["is_memory_flexible_enough"], "mem")
        _NEW["is_output_channel_stationary"] = _wrap_constraint(_ORIG["is_output_channel_stationary"], "chan")
        ST.installed = True
    for k, new in _NEW.items():
        n = _rebind_everywhere(_ORIG[k], new)
        ST.sites[k] = ST.sites.get(k, 0) + n
    return dict(ST.sites)


_NEW = {}


def originals():
    return _ORIG


# ---- matcher differential ----------------------------------------------------------------------
def _bounded(*Ms):
    for M in Ms:
        if M.size and int(np.abs(M).max()) > ENTRY_BOUND:
            return False
    return True


def _wrap_ssv(orig):
    @functools.wraps(orig)
    def same_nonzero_singular_vectors(A, B, *args, **kwargs):
        res = orig(A, B, *args, **kwargs)
        if not ST.check_fit:
            return res
        try:
            if args or kwargs:
                ST.bump("out_of_domain:ssv:custom-tolerance")
                return res
            a = np.asarray(A)
            b = np.asarray(B)
            if a.ndim != 2 or b.ndim != 2 or a.shape[1] != b.shape[1] or not (np.issubdtype(a.dtype, np.integer) and np.issubdtype(b.dtype, np.integer)):
                ST.bump("out_of_domain:ssv:shape-or-dtype")
                return res
            if not _bounded(a, b):
                ST.bump("out_of_domain:ssv:entries>64")
                return res
            exact = exact_same_rowspace(a, b)
            ST.bump("eval:ssv_differential")
            ST.bump("eval:ssv_exact_" + ("same" if exact else "different"))
            if bool(res) != exact:
                ST.violation(
                    "svd-matcher-disagrees-with-exact-rowspace",
                    f"same_nonzero_singular_vectors(A={a.tolist()}, B={b.tolist()}) = {bool(res)} but exact row-space equality is {exact} "
                    f"(rref A {RS.describe(a.tolist())}, rref B {RS.describe(b.tolist())})",
                    "same_nonzero_singular_vectors",
                )
        except Exception as e:
            ST.bump("oracle_error:ssv:" + type(e).__name__)
        return res

    same_nonzero_singular_vectors._vf_orig = orig
    return same_nonzero_singular_vectors


def _wrap_matches(orig):
    @functools.wraps(orig)
    def matches(self, sp):
        res = orig(self, sp)
        if not ST.check_fit:
            return res
        try:
            T = len(self.bounds)
            n = len(sp.bounds)
            if n < T:
                ST.bump("out_of_domain:matches:schedule-has-fewer-dims")
                return res
            At = _mat(self.pattern.A, T)
            As = _mat(sp.pattern.A, n)
            if not _bounded(At, As):
                ST.bump("out_of_domain:matches:entries>64")
                return res
            S = As[:, n - T :]
            Tm = trimmed_template(At, As.shape[0])
            exact = exact_same_rowspace(S, Tm)
            ST.bump("eval:matches_differential")
            ST.bump("eval:matches_exact_" + ("span" if exact else "nospan"))
            if Tm.shape[0] < At.shape[0]:
                ST.bump("eval:matches_broadcast_trimmed")
            if bool(res) != exact:
                ST.violation(
                    "matches-disagrees-with-exact-rowspace",
                    f"TemplatePattern(A={At.tolist()}).matches(SchedulePattern(A={As.tolist()})) = {bool(res)} but the innermost {T} "
                    f"schedule dims {'span' if exact else 'do not span'} the (broadcast-trimmed) template row space "
                    f"(rref schedule {RS.describe(S.tolist())}, rref template {RS.describe(Tm.tolist())})",
                    "TemplatePattern.matches",
                )
        except Exception as e:
            ST.bump("oracle_error:matches:" + type(e).__name__)
        return res

    matches._vf_orig = orig
    return matches


# ---- constraint functions: record what was requested -------------------------------------------
def _wrap_constraint(orig, kind):
    @functools.wraps(orig)
    def wrapper(template, schedule, *args, **kwargs):
        if ST.search_depth:
            try:
                if kind == "os":
                    ST.requested_seen["os"] = True
                elif kind == "mem":
                    sizes = args[0] if args else kwargs.get("element_sizes")
                    lst = ST.requested_seen.setdefault("mem", [])
                    t = tuple(int(x) for x in sizes)
                    if t not in lst:
                        lst.append(t)
                elif kind == "chan":
                    cd = args[0] if args else kwargs.get("channel_dim")
                    lst = ST.requested_seen.setdefault("chan", [])
                    if cd not in lst:
                        lst.append(cd)
                ST.bump("constraint_calls_in_search:" + kind)
            except Exception:
                ST.bump("constraint_args_unreadable:" + kind)
        return orig(template, schedule, *args, **kwargs)

    wrapper._vf_orig = orig
    return wrapper


# ---- scheduler_backtrack / scheduler -------------------------------------------------------------
def _wrap_backtrack(orig):
    def scheduler_backtrack(template, schedule, inner_dims=1, extra_checks=[]):
        if ST.search_depth:
            # recursive call made by the running search: hand out the raw generator
            return orig(template, schedule, inner_dims, extra_checks)
        return _monitored_search(orig, template, schedule, inner_dims, extra_checks)

    scheduler_backtrack.__doc__ = orig.__doc__
    scheduler_backtrack._vf_orig = orig
    return scheduler_backtrack


def _monitored_search(orig, template, schedule, inner_dims, extra_checks):
    log = {"yielded": 0, "checked": 0, "tiled": 0, "changed": 0, "finished": False}
    ST.search_log.append(log)
    ST.bump("searches_started")
    in_img = None
    t_raw = None
    in_raw = None
    domain = None
    try:
        in_raw = raw_collection(schedule)
        t_raw = raw_collection(template)
        b0 = in_raw[0][0] if in_raw else ()
        if not in_raw:
            domain = "empty-schedule"
        elif any(r[0] != b0 for r in in_raw) or not static_bounds(b0):
            domain = "input-boxes-differ-or-dynamic"
        elif n_points(b0) > MAX_POINTS:
            domain = "box-too-large"
        elif inner_dims != 1:
            domain = "partial-search(inner_dims!=1)"
    except Exception as e:
        domain = "unreadable-input:" + type(e).__name__
    if domain:
        ST.bump("out_of_domain:search:" + domain)
    if t_raw is not None and getattr(ST, "template_log", None) is not None and len(ST.template_log) < 8:
        ST.template_log.append(t_raw)
    req_tagged, unknown = _requested_from(extra_checks, _ORIG)
    if unknown:
        ST.bump("untagged_extra_checks", unknown)
    ST.requested_seen = {}
    ST.budget = ST.in_search_budget_default
    it = orig(template, schedule, inner_dims, extra_checks)
    while True:
        ST.search_depth += 1
        try:
            s = next(it)
        except StopIteration:
            log["finished"] = True
            return
        finally:
            ST.search_depth -= 1
        log["yielded"] += 1
        ST.bump("schedules_yielded")
        if domain is None and log["checked"] < ST.yield_check_cap:
            log["checked"] += 1
            try:
                out_raw = raw_collection(s)
                if ST.check_img:
                    if in_img is None:
                        in_img = img(in_raw[0][0], [r[1] for r in in_raw], [r[2] for r in in_raw])
                    ob = out_raw[0][0]
                    if any(r[0] != ob for r in out_raw):
                        ST.violation("yielded-schedule-malformed", f"operands of a yielded schedule have different boxes: {_fmt_coll(s)}", "scheduler_backtrack")
                    else:
                        oi = img(ob, [r[1] for r in out_raw], [r[2] for r in out_raw])
                        ST.bump("eval:yield_img")
                        if len(ob) != len(in_raw[0][0]):
                            log["tiled"] += 1
                            ST.bump("eval:yield_img_after_tiling")
                        if len(ob) != len(in_raw[0][0]) or any(not np.array_equal(a[1], b[1]) for a, b in zip(in_raw, out_raw)):
                            log["changed"] += 1
                            ST.bump("eval:yield_img_A_changed")
                        if log["yielded"] >= 2:
                            ST.bump("eval:yield_img_alternative(not-first)")
                        if not img_equal(in_img, oi):
                            ST.violation(
                                "yielded-schedule-changes-iteration-space",
                                f"schedule #{log['yielded'] - 1} yielded by scheduler_backtrack visits a different multiset of operand-index "
                                f"tuples: input [{_fmt_coll(schedule)}] ({img_describe(in_img)}) yielded [{_fmt_coll(s)}] ({img_describe(oi)})",
                                "scheduler_backtrack",
                            )
                if ST.check_fit:
                    req = _merge_requested(req_tagged, ST.requested_seen)
                    fit_check(t_raw, out_raw, req, f"scheduler_backtrack yield #{log['yielded'] - 1}")
            except Exception as e:
                ST.bump("oracle_error:yield:" + type(e).__name__)
        elif domain is None:
            ST.bump("yield_unchecked_over_cap")
        yield s


def _fit_on_scheduler_result(template, result, args, kwargs):
    """C16 on the value the public entry point hands out (not only on what the search yields: the two can differ when the entry
    point keeps results between calls)."""
    if not getattr(ST, "check_fit", False):
        return
    try:
        req, _unknown = _requested_from(kwargs.get("extra_checks", args[0] if args else ()), _ORIG)
        fit_check(raw_collection(template), raw_collection(result), req, "scheduler() return value")
        ST.bump("eval:scheduler_result_fit")
    except Exception as e:
        ST.bump("oracle_error:scheduler_fit:" + type(e).__name__)


def _wrap_scheduler(orig):
    @functools.wraps(orig)
    def scheduler(template, schedule, *args, **kwargs):
        if ST.search_depth:
            return orig(template, schedule, *args, **kwargs)
        if not ST.check_img:
            result = orig(template, schedule, *args, **kwargs)
            _fit_on_scheduler_result(template, result, args, kwargs)
            return result
        pre = None
        try:
            raws = raw_collection(schedule)
            if raws and all(r[0] == raws[0][0] for r in raws) and static_bounds(raws[0][0]) and n_points(raws[0][0]) <= MAX_POINTS:
                pre = raws
        except Exception:
            pre = None
        result = orig(template, schedule, *args, **kwargs)
        if pre is None:
            ST.bump("out_of_domain:scheduler")
            return result
        try:
            out = raw_collection(result)
            a = img(pre[0][0], [r[1] for r in pre], [r[2] for r in pre])
            b = img(out[0][0], [r[1] for r in out], [r[2] for r in out])
            ST.bump("eval:scheduler_result_img")
            idx = kwargs.get("schedule_idx", args[1] if len(args) > 1 else None)
            if idx is not None:
                ST.bump("eval:scheduler_result_img_schedule_idx")
            if not img_equal(a, b):
                ST.violation(
                    "scheduler-result-changes-iteration-space",
                    f"scheduler(..., schedule_idx={idx}) returned [{_fmt_coll(result)}] ({img_describe(b)}) for input [{_fmt_coll(schedule)}] ({img_describe(a)})",
                    "scheduler",
                )
        except Exception as e:
            ST.bump("oracle_error:scheduler:" + type(e).__name__)
        _fit_on_scheduler_result(template, result, args, kwargs)
        return result

    scheduler._vf_orig = orig
    return scheduler


# ================================================================================================
# drivers: push one generated case (vf.gen.sched_gen) through the REAL api with the monitors on.
# They return an `info` dict; violations are left in ST (take_violations()).
# ================================================================================================
def make_checks(names, sizes):
    """Extra checks for the real scheduler: the repo's own constraint functions (looked up through the module, i.e. the
    monitored bindings), tagged so that the yield monitor knows what was requested."""
    import snaxc.ir.dart.scheduler as SCH

    out = []
    for nm in names:
        if nm == "os":
            out.append(tag(SCH.is_pure_output_stationary, "os"))
        elif nm == "mem":
            sz = tuple(sizes)
            out.append(tag(lambda t, s, sz=sz: SCH.is_memory_flexible_enough(t, s, list(sz)), "mem", sz))
        elif nm.startswith("chan:"):
            cd = int(nm.split(":")[1])
            out.append(tag(lambda t, s, cd=cd: SCH.is_output_channel_stationary(t, s, cd), "chan", cd))
    return out


def drive_search(case, cap=48, seconds=3.0, also_scheduler=True):
    from vf.ctx import PassTimeout, time_limit
    from vf.gen import sched_gen as G

    import snaxc.ir.dart.scheduler as SCH

    info = {"yields": 0, "rejected": [], "timeout": False, "exhausted": False, "tiled": 0, "changed": 0, "scheduler_calls": 0}
    ST.reset_case()
    try:
        template = G.build_template(case["tbounds"], case["tmats"])
        schedule = G.build_schedule(case["sbounds"], case["smats"], case.get("soffs"))
    except Exception as e:
        info["rejected"].append(e)
        return info
    checks = make_checks(case.get("checks", ()), case.get("sizes", ()))
    try:
        with time_limit(seconds):
            gen = SCH.scheduler_backtrack(template, schedule, extra_checks=checks)
            try:
                for _ in gen:
                    info["yields"] += 1
                    if info["yields"] >= cap:
                        break
                else:
                    info["exhausted"] = True
            finally:
                gen.close()
            if ST.search_log:
                info["tiled"] = ST.search_log[0]["tiled"]
                info["changed"] = ST.search_log[0]["changed"]
            if also_scheduler:
                # the public entry point: the k-th result when the case asks for one and the enumeration is known to be
                # small, else the first result
                idx = case.get("idx")
                try:
                    info["scheduler_calls"] += 1
                    if idx is not None and info["exhausted"]:
                        SCH.scheduler(template, schedule, extra_checks=checks, schedule_idx=idx)
                    else:
                        SCH.scheduler(template, schedule, extra_checks=checks)
                except (StopIteration, IndexError) as e:
                    info["rejected"].append(e)
    except PassTimeout:
        info["timeout"] = True
    except RecursionError as e:
        info["rejected"].append(e)
    except Exception as e:  # the scheduler refused / crashed on this input: rejection, never a violation
        info["rejected"].append(e)
    finally:
        ST.search_depth = 0
        ST.suppress = 0
    return info


def _divisors(b):
    return [d for d in range(1, b + 1) if b % d == 0]


def drive_elementary(case):
    """All rotations, tilings by divisors (and one non-divisor, outside tile_dim's domain), add_dim, clear_unused_dims,
    canonicalize on the Schedule and on its first pattern, then the random chain of the case."""
    from vf.gen import sched_gen as G

    info = {"calls": 0, "rejected": [], "changedA": 0}
    ST.reset_case()
    try:
        S = G.build_schedule(case["sbounds"], case["smats"], case.get("soffs"))
    except Exception as e:
        info["rejected"].append(e)
        return info
    n = len(case["sbounds"])

    def call(obj, meth, *args):
        info["calls"] += 1
        try:
            return getattr(obj, meth)(*args)
        except Exception as e:
            info["rejected"].append(e)
            return None

    first = S[0] if len(S) else None
    for d in range(1, n + 1):
        call(S, "rotate", d)
        if first is not None and d % 2 == 1:
            call(first, "rotate", d)
    for d in range(n):
        b = case["sbounds"][d]
        divs = _divisors(b)
        pick = sorted({divs[0], divs[-1], divs[len(divs) // 2]})
        for t in pick:
            call(S, "tile_dim", d, t)
        if first is not None:
            call(first, "tile_dim", d, divs[len(divs) // 2])
        nd = next((t for t in range(2, b + 2) if b % t != 0), None)
        if nd is not None and d == 0:
            call(S, "tile_dim", d, nd)  # out of the documented domain: counted, not judged
    call(S, "add_dim")
    call(S, "clear_unused_dims")
    call(S, "canonicalize")
    if first is not None:
        call(first, "add_dim")
        call(first, "canonicalize")
    cur = S
    for op, x, y in case.get("chain", ()):
        if cur is None:
            break
        nd = cur.num_dims if len(cur) else 0
        if op == "rotate":
            if nd >= 1:
                cur = call(cur, "rotate", 1 + int(x * nd) % nd)
        elif op == "tile":
            if nd >= 1:
                d = int(x * nd) % nd
                divs = _divisors(cur[0].bounds[d])
                cur = call(cur, "tile_dim", d, divs[int(y * len(divs)) % len(divs)])
        elif op == "add_dim":
            cur = call(cur, "add_dim")
        elif op == "clear":
            cur = call(cur, "clear_unused_dims")
        elif op == "canon":
            cur = call(cur, "canonicalize")
    return info


def drive_matches(case):
    import numpy as np

    import snaxc.ir.dart.access_pattern as AP
    from snaxc.ir.dart.affine_transform import AffineTransform

    info = {"rejected": [], "result": None}
    ST.reset_case()
    try:
        T = len(case["tbounds"])
        n = len(case["sbounds"])
        At = np.array(case["tmat"], dtype=np.int_).reshape(len(case["tmat"]), T)
        As = np.array(case["smat"], dtype=np.int_).reshape(len(case["smat"]), n)
        tp = AP.TemplatePattern(tuple(case["tbounds"]), AffineTransform(At, np.zeros(len(At), dtype=np.int_)))
        sp = AP.SchedulePattern(tuple(case["sbounds"]), AffineTransform(As, np.zeros(len(As), dtype=np.int_)))
        info["result"] = bool(tp.matches(sp))
        if n == T:
            # the bare predicate as well, both argument orders (row-space equality is symmetric)
            AP.same_nonzero_singular_vectors(As, At)
    except Exception as e:
        info["rejected"].append(e)
    return info


# ---- pass level ---------------------------------------------------------------------------------
def affine_map_matrix(amap):
    """(A, b) of an xDSL AffineMap by unit responses (uses only AffineMap.eval of xDSL)."""
    n = amap.num_dims
    zero = [0] * n
    b = [int(v) for v in amap.eval(zero, [])]
    A = [[0] * n for _ in b]
    for d in range(n):
        e = list(zero)
        e[d] = 1
        col = amap.eval(e, [])
        for r, v in enumerate(col):
            A[r][d] = int(v) - b[r]
        # linearity probe (floordiv/mod maps are outside the monitored domain)
        e[d] = 2
        col2 = amap.eval(e, [])
        for r, v in enumerate(col2):
            if int(v) - b[r] != 2 * A[r][d]:
                raise ValueError("non-linear affine map")
    return A, b


def operation_box(op):
    """Iteration bounds of a dart.operation, derived from operand shapes: the bound of dim d is the extent of the first
    operand dimension that is indexed by exactly d (what get_static_pattern_bounds documents)."""
    mats = []
    shapes = []
    for attr, operand in zip(op.patterns.data, op.operands):
        mats.append(affine_map_matrix(attr.data))
        shapes.append([int(x) for x in operand.type.get_shape()])
    n = op.patterns.data[0].data.num_dims
    bounds = [None] * n
    for (A, b), shape in zip(mats, shapes):
        for r, row in enumerate(A):
            nz = [d for d, c in enumerate(row) if c != 0]
            if len(nz) == 1 and row[nz[0]] == 1 and b[r] == 0 and bounds[nz[0]] is None:
                bounds[nz[0]] = shape[r]
    return bounds, mats


def drive_pass(ctx, case, seconds=10.0):
    """dart.operation -> real dart-scheduler -> dart.schedule; compares img before/after.  The scheduler monitors are
    active inside the pass as well (the pass reaches scheduler() through its own `from ... import`)."""
    from vf.ctx import PassTimeout, parse, run_passes_limited

    info = {"rejected": [], "timeout": False, "compared": False, "emitted": False, "changed": False, "n_out": None, "generator_invalid": False}
    ST.reset_case()
    try:
        module = parse(ctx, case["text"])
        module.verify()
    except Exception as e:
        info["generator_invalid"] = True
        info["rejected"].append(e)
        return info
    ops = [o for o in module.walk() if o.name == "dart.operation"]
    if len(ops) < 1 or (len(ops) != 1 and not case.get("multi")):
        info["generator_invalid"] = True
        return info
    befores = []
    op_requests = []
    for k, op in enumerate(ops):
        try:
            bounds, mats = operation_box(op)
        except Exception as e:
            info["generator_invalid"] = True
            info["rejected"].append(e)
            return info
        want = case["multi"][k] if case.get("multi") else case.get("bounds")
        if any(b is None for b in bounds) or (want is not None and list(want) != bounds):
            info["generator_invalid"] = True
            return info
        if n_points(bounds) > MAX_POINTS:
            ST.bump("out_of_domain:pass:box-too-large")
            return info
        befores.append((bounds, mats, img(bounds, [np.array(A, dtype=np.int64).reshape(len(A), len(bounds)) for A, _ in mats], [np.array(b, dtype=np.int64) for _, b in mats])))
        # what the pass will ask of the scheduler for THIS operation (read off the op, not off what the search happens to evaluate)
        try:
            sizes_k = tuple(int(o.type.element_type.size) for o in op.operands)
            T_k = ctx.get_acc(case["accelerator"]).get_template(op).num_dims
        except Exception:
            sizes_k, T_k = None, None
        op_requests.append((sizes_k, T_k))
    spec = f"insert-accfg-op{{accelerator={case['accelerator']}}},dart-scheduler"
    try:
        run_passes_limited(ctx, module, spec, seconds)
    except PassTimeout:
        info["timeout"] = True
        return info
    except BaseException as e:
        if isinstance(e, (KeyboardInterrupt, SystemExit)):
            raise
        info["rejected"].append(e)
        return info
    finally:
        ST.search_depth = 0
        ST.suppress = 0
    outs = [o for o in module.walk() if o.name == "dart.schedule"]
    if len(outs) != len(ops):
        ST.bump("pass_left_operation_unscheduled")
        return info
    info["emitted"] = True
    if len(ops) > 1:
        ST.bump("eval:pass_modules_with_several_operations")
    for (bounds, mats, before), so in zip(befores, outs):
        try:
            ob = [int(a.value.data) for a in so.bounds.data]
            omats = [affine_map_matrix(attr.data) for attr in so.patterns.data]
            if n_points(ob) > 4 * MAX_POINTS:
                ST.bump("out_of_domain:pass:emitted-box-too-large")
                return info
            after = img(ob, [np.array(A, dtype=np.int64).reshape(len(A), len(ob)) for A, _ in omats], [np.array(b, dtype=np.int64) for _, b in omats])
        except Exception as e:
            ST.bump("oracle_error:pass:" + type(e).__name__)
            return info
        info["compared"] = True
        info["n_out"] = len(ob)
        info["changed"] = info["changed"] or len(ob) != len(bounds) or any(a[0] != b[0] for a, b in zip(mats, omats))
        ST.bump("eval:pass_img")
        sizes_k, T_k = op_requests[outs.index(so)]
        if getattr(ST, "check_fit", False) and sizes_k is not None and T_k:
            try:
                mats_np = [np.array(A, dtype=np.int64).reshape(len(A), len(ob)) for A, _ in omats]
                ok, how = restated_memory_flexible(tuple(ob), mats_np, T_k, sizes_k)
                ST.bump(f"eval:pass_fit_mem_{how}")
                if not ok:
                    ST.violation(
                        "memory-not-flexible-enough",
                        f"dart-scheduler: the schedule emitted for operation {outs.index(so) + 1} of {len(ops)} (bounds {ob}, element sizes {list(sizes_k)}, {T_k} template dims) "
                        f"has an operand without a unit-stride spatial result whose temporal strides are bank-word multiples, although the pass requests that constraint for every operation",
                        "dart-scheduler",
                    )
            except Exception as e:
                ST.bump("oracle_error:pass_fit:" + type(e).__name__)
        if not img_equal(before, after):
            ST.violation(
                "pass-changes-iteration-space",
                f"dart-scheduler: dart.operation bounds {bounds} patterns {[m[0] for m in mats]} offsets {[m[1] for m in mats]} ({img_describe(before)}) "
                f"became dart.schedule bounds {ob} patterns {[m[0] for m in omats]} offsets {[m[1] for m in omats]} ({img_describe(after)})"
                + (f" [operation {outs.index(so) + 1} of {len(ops)} in one module]" if len(ops) > 1 else ""),
                "dart-scheduler",
            )
            break
    return info


# ================================================================================================
# the repo's own unit tests under the monitors:   python -m vf.contracts_sched [pytest args]
# ================================================================================================
def run_own_tests(argv=None):
    """Run tests/ir/dart of the repo with every monitor installed; print evaluation counters and any contract
    that fired.  Exit status: 1 when a monitor recorded a violation, else pytest's."""
    import vf.compat as compat

    import pytest

    install()
    ST.check_img = True
    ST.check_fit = True
    ST.reset_case()
    ST.in_search_budget_default = 10**9
    repo = compat.repo_path()
    args = list(argv or []) or ["-q", "-p", "no:cacheprovider", os.path.join(repo, "tests", "ir", "dart")]
    rc = pytest.main(args)
    install()  # report rebinding sites found after the test modules were imported (from-imports made before install
    # hold the monitored objects already because install() ran first)
    print("monitor evaluations:")
    for k, v in sorted(ST.counters.items()):
        print(f"  {k} = {v}")
    vs = ST.take_violations()
    print(f"contracts fired: {len(vs)}")
    for v in vs:
        print(f"  {v['kind']}: {v['detail'][:400]}")
    return 1 if vs else int(rc)


if __name__ == "__main__":
    sys.exit(run_own_tests(sys.argv[1:]))
