"""Corpus seeds: IR written by the repo authors (tests/filecheck, kernels) fed to the pass-level monitors."""
from __future__ import annotations

import os
import re

from xdsl.dialects import builtin
from xdsl.dialects.builtin import IndexType, IntegerType, StringAttr

from vf.compat import repo_path


def split_file(path):
    text = open(path).read()
    chunks = re.split(r"^// -----\s*$", text, flags=re.M)
    return [c for c in chunks if c.strip()]


def assign_ids(module):
    """Give every opaque producer / side-effecting marker op a stable verif.id (walk order)."""
    n = 0
    for op in module.walk():
        if op.name in ("test.op", "func.call", "llvm.call") and "verif.id" not in op.attributes:
            op.attributes["verif.id"] = StringAttr(f"auto{n}")
        n += 1


def args_for(func_op, rng, small_index=True):
    vals = []
    for i, a in enumerate(func_op.body.blocks[0].args):
        t = a.type
        if isinstance(t, IntegerType):
            w = t.width.data
            if w == 1:
                vals.append(rng.randrange(2))
            else:
                vals.append((0x1000 * (i + 1) + rng.randrange(0x1000)) & ((1 << min(w, 31)) - 1))
        elif isinstance(t, IndexType):
            vals.append(rng.choice([0, 1, 2, 3, 5]) if small_index else 0x100 * (i + 1))
        else:
            vals.append(0x40000000 + 0x10000 * i + rng.randrange(0x100) * 16)
    return vals


ACCFG_FILES = [
    "tests/filecheck/transforms/acc-dedup.mlir",
    "tests/filecheck/transforms/accfg-trace-states.mlir",
    "tests/filecheck/transforms/accfg-config-overlap.mlir",
    "tests/filecheck/transforms/accfg-insert-resets.mlir",
]


def accfg_corpus(rng, ctx=None, nvec=6):
    """Yield (text, fname, argkeys, vecs, label)."""
    from vf.ctx import make_ctx, parse

    ctx = ctx or make_ctx()
    for rel in ACCFG_FILES:
        path = os.path.join(repo_path(), rel)
        if not os.path.exists(path):
            continue
        for ci, chunk in enumerate(split_file(path)):
            try:
                m = parse(ctx, chunk)
            except Exception:
                continue
            for f in m.walk():
                if f.name != "func.func" or not f.body.blocks:
                    continue
                keys = [f"#{i}" for i in range(len(f.body.blocks[0].args))]
                vecs = []
                for _ in range(nvec):
                    vals = args_for(f, rng)
                    vecs.append(((), dict(zip(keys, vals))))
                yield chunk, f.sym_name.data, keys, vecs, f"{os.path.basename(rel)}#{ci}:{f.sym_name.data}"
