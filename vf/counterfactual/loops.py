"""Counterfactuals and witness predicates for the C17 known findings (oracle side, independent of the repo logic).

key = movememrefdims-affine-min-replaced-by-constant
    MoveMemrefDims resolves `memref.dim` of a subview whose dynamic size is an `affine.min` to the *first constant result* of
    that affine.min and then replaces the affine.min by that constant for ALL its users (subview sizes, markers, users
    located before the loop).  Counterfactual: the pattern refuses to rewrite a memref.dim whose size chain ends in an
    affine.min (rejecting is the honest behaviour: the size is not loop invariant).
    Predicate: the original program contains a memref.dim inside an scf.for whose source chain
    (subview dynamic size -> [memref.dim -> subview dynamic size]*) ends in an affine.min.

key = mergeforloops-imperfect-nest
    MergeForLoops merges `for i { A ; for j { B } ; C }` into one loop of ub_i*ub_j iterations with A and C executed in
    every iteration (ub_j times too often).  Counterfactual: the pattern refuses to merge unless every other op of the
    parent body is a known pure op.
    Predicate: the original program contains an scf.for directly inside an scf.for body that also holds an op which is not
    a known pure op (besides the inner loop and the terminator).
"""
from __future__ import annotations

from contextlib import contextmanager

DYN = -(1 << 63)

# ops without side effects the generators emit (name based: independent of xDSL trait declarations)
PURE_NAMES = {
    "arith.constant",
    "arith.addi",
    "arith.subi",
    "arith.muli",
    "arith.divui",
    "arith.remui",
    "arith.cmpi",
    "arith.select",
    "arith.index_cast",
    "affine.min",
    "affine.apply",
    "memref.dim",
    "memref.subview",
}


# ------------------------------------------------------------------------------------------------
# structural predicates (on the ORIGINAL program)
# ------------------------------------------------------------------------------------------------
def _in_for(op):
    p = op.parent_op()
    while p is not None:
        if p.name == "scf.for":
            return True
        p = p.parent_op()
    return False


def _dyn_size_operand(subview, index):
    static = list(subview.static_sizes.get_values())
    if index >= len(static) or static[index] != DYN:
        return None
    k = sum(1 for s in static[:index] if s == DYN)
    return subview.sizes[k]


def dim_chain_ends_in_affine_min(dim_op, depth=0) -> bool:
    from xdsl.dialects.builtin import IntegerAttr
    from xdsl.ir import Operation

    if depth > 16:
        return False
    idx_owner = dim_op.index.owner
    if not isinstance(idx_owner, Operation) or idx_owner.name != "arith.constant" or not isinstance(idx_owner.value, IntegerAttr):
        return False
    index = idx_owner.value.value.data
    src = dim_op.source.owner
    if not isinstance(src, Operation) or src.name != "memref.subview":
        return False
    size = _dyn_size_operand(src, index)
    if size is None or not isinstance(size.owner, Operation):
        return False
    if size.owner.name == "affine.min":
        return True
    if size.owner.name == "memref.dim":
        return dim_chain_ends_in_affine_min(size.owner, depth + 1)
    return False


def has_dim_of_min_sized_subview_in_loop(module) -> bool:
    for op in module.walk():
        if op.name == "memref.dim" and _in_for(op) and dim_chain_ends_in_affine_min(op):
            return True
    return False


def _imperfect(parent_for, inner_for) -> bool:
    for other in parent_for.body.block.ops:
        if other is inner_for or other.name == "scf.yield":
            continue
        if other.name not in PURE_NAMES:
            return True
    return False


def has_imperfect_nest(module) -> bool:
    for op in module.walk():
        if op.name == "scf.for":
            p = op.parent_op()
            if p is not None and p.name == "scf.for" and _imperfect(p, op):
                return True
    return False


# ------------------------------------------------------------------------------------------------
# counterfactual versions of the repo patterns (in-process replacement, restored on exit)
# ------------------------------------------------------------------------------------------------
@contextmanager
def move_memref_dims_rejects_affine_min():
    from snaxc.transforms import reuse_memref_allocs as RM

    cls = RM.MoveMemrefDims
    orig = cls.match_and_rewrite

    def guarded(self, op, rewriter, *a, **k):
        if op.name == "memref.dim" and dim_chain_ends_in_affine_min(op):
            return
        return orig(self, op, rewriter, *a, **k)

    cls.match_and_rewrite = guarded
    try:
        yield
    finally:
        cls.match_and_rewrite = orig


@contextmanager
def merge_for_loops_rejects_imperfect_nests():
    from snaxc.transforms.pipeline import pipeline_canonicalize_for as PC

    cls = PC.MergeForLoops
    orig = cls.match_and_rewrite

    def guarded(self, op, rewriter, *a, **k):
        p = op.parent_op()
        if op.name == "scf.for" and p is not None and p.name == "scf.for" and _imperfect(p, op):
            return
        return orig(self, op, rewriter, *a, **k)

    cls.match_and_rewrite = guarded
    try:
        yield
    finally:
        cls.match_and_rewrite = orig
