"""Counterfactuals for the C18 known findings (kernel recognition / expansion / dispatch).

Each context manager replaces exactly one repo function in-process by a reference-corrected (or rejecting) version:

* `structural_kernel_equivalence()`  -> snaxc.transforms.convert_linalg_to_kernel.check_kernel_equivalence
      compares the two blocks structurally (same op types *and* the same operand wiring, result types and
      properties) instead of comparing op types only.                           key: recognition-by-op-type-only
* `typed_dispatch()`                 -> DispatchTemplatePattern.match_and_rewrite
      a supported kernel matches only if every operand/result type equals the declared one (upstream: the `continue`
      of the type comparison continues the inner zip loop, so the comparison has no effect).
                                                                                 key: dispatch-operand-type-check-is-noop
* `rescale_rejects_double_round()`   -> LowerRescale.match_and_rewrite
      refuses (leaves the kernel op in place) when double_round is set, which the limited lowering ignores.
                                                                                 key: rescale-lowering-ignores-double-round
"""
from __future__ import annotations

from contextlib import contextmanager


def structural_block_equivalence(block_a, block_b) -> bool:
    if len(block_a.args) != len(block_b.args):
        return False
    ops_a, ops_b = list(block_a.ops), list(block_b.ops)
    if len(ops_a) != len(ops_b):
        return False
    num_a, num_b = {}, {}
    for i, (x, y) in enumerate(zip(block_a.args, block_b.args)):
        if x.type != y.type:
            return False
        num_a[x] = num_b[y] = ("arg", i)
    for k, (oa, ob) in enumerate(zip(ops_a, ops_b)):
        if type(oa) is not type(ob) or len(oa.operands) != len(ob.operands) or len(oa.results) != len(ob.results):
            return False
        for x, y in zip(oa.operands, ob.operands):
            if x not in num_a or num_a[x] != num_b.get(y):
                return False
        if oa.properties != ob.properties or oa.attributes != ob.attributes:
            return False
        for j, (r, s) in enumerate(zip(oa.results, ob.results)):
            if r.type != s.type:
                return False
            num_a[r] = num_b[s] = ("op", k, j)
    return True


@contextmanager
def structural_kernel_equivalence():
    from snaxc.transforms import convert_linalg_to_kernel as M

    orig = M.check_kernel_equivalence
    M.check_kernel_equivalence = structural_block_equivalence
    try:
        yield
    finally:
        M.check_kernel_equivalence = orig


@contextmanager
def typed_dispatch():
    from xdsl.dialects import builtin, linalg
    from xdsl.dialects.builtin import DYNAMIC_INDEX, ShapedType

    from snaxc.accelerators.snax import SNAXStreamer
    from snaxc.dialects.kernel import KernelOp
    from snaxc.transforms import dispatch_kernels as M

    cls = M.DispatchTemplatePattern
    orig = cls.match_and_rewrite

    def corrected(self, linalg_op, rewriter, *a, **k):
        if not isinstance(linalg_op, linalg.GenericOp):
            return
        if linalg_op.library_call:
            return
        ops = list(linalg_op.body.block.ops)
        if len(ops) < 2 or not isinstance(ops[0], KernelOp) or not isinstance(ops[1], linalg.YieldOp):
            return
        kernel_op = ops[0]
        actual = [v.type for v in (*kernel_op.operands, *kernel_op.results)]
        matched = None
        for accelerator in self.accelerators:
            for sk in accelerator.supported_kernels:
                if sk.kernel_type is type(kernel_op) and list(sk.operand_types) == actual:
                    matched = accelerator
                    break
            if matched:
                break
        if not matched:
            return
        library_call = matched.name
        if isinstance(matched, SNAXStreamer):
            suffix = "_stream"
            for operand in (o.type for o in linalg_op.operands if isinstance(o.type, ShapedType)):
                if DYNAMIC_INDEX in operand.get_shape():
                    suffix = ""
                    break
            library_call += suffix
        linalg_op.library_call = builtin.StringAttr(library_call)

    cls.match_and_rewrite = corrected
    try:
        yield
    finally:
        cls.match_and_rewrite = orig


@contextmanager
def rescale_rejects_double_round():
    from snaxc.transforms import convert_kernel_to_linalg as M

    cls = M.LowerRescale
    orig = cls.match_and_rewrite

    def guarded(self, op, rewriter, *a, **k):
        dr = getattr(op, "double_round", None)
        if dr is not None and getattr(dr, "value", None) is not None and dr.value.data != 0:
            return
        return orig(self, op, rewriter, *a, **k)

    cls.match_and_rewrite = guarded
    try:
        yield
    finally:
        cls.match_and_rewrite = orig
