"""Counterfactual for known finding C02/schedule-dim-spans-layout-tiles-linearised.

Reference-corrected LayoutResolution: the unit-response stride extraction is only valid when the composition of the schedule's
index map with the operand's layout map is affine in every schedule dimension within its bound.  When a schedule dimension spans
several layout tiles (floordiv / mod of the layout do not cancel) the corrected pattern refuses the input instead of linearising it.
"""
from contextlib import contextmanager


@contextmanager
def layout_resolution_rejects_nonlinear():
    from snaxc.transforms.dart import dart_layout_resolution as M

    cls = M.LayoutResolution
    orig = cls.match_and_rewrite

    def guarded(self, op, rewriter, *a, **k):
        if getattr(op, "name", "") == "dart.schedule":
            bounds = [x.value.data for x in op.bounds.data]
            n = len(bounds)
            for operand in range(len(op.operands)):
                t = op.operands[operand].type
                m = t.get_affine_map_in_bytes().compose(op.patterns.data[operand].data)
                base = m.eval([0] * n, ())[0]
                hi = [b - 1 for b in bounds]
                for d in range(n):
                    e = [0] * n
                    e[d] = 1
                    unit = m.eval(e, ())[0] - base
                    for kk in range(2, bounds[d]):
                        e[d] = kk
                        if m.eval(e, ())[0] - base != kk * unit:
                            raise NotImplementedError("access map is not affine along a schedule dimension")
                    # and at the far corner of the other dimensions
                    f = list(hi)
                    f[d] = 0
                    b2 = m.eval(f, ())[0]
                    for kk in range(1, bounds[d]):
                        f[d] = kk
                        if m.eval(f, ())[0] - b2 != kk * unit:
                            raise NotImplementedError("access map is not affine along a schedule dimension")
        return orig(self, op, rewriter, *a, **k)

    cls.match_and_rewrite = guarded
    try:
        yield
    finally:
        cls.match_and_rewrite = orig
