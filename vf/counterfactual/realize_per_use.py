"""Counterfactual for known finding C12/several-stand-ins-of-one-buffer-not-kept-coherent.

Reference-corrected RealizeMemrefCasts: every stand-in buffer is refreshed from the original before *every* use that reads it and
written back after *every* use that writes it (instead of one copy-in before the first and one copy-out after the last use).  This
keeps any number of stand-ins of one original coherent through the original for every sequential interleaving of their uses.
"""
from contextlib import contextmanager


@contextmanager
def realize_with_per_use_copies():
    from xdsl.dialects import arith, builtin, func, linalg, memref
    from xdsl.dialects.memref import MemorySpaceCastOp
    from xdsl.ir import OpResult
    from xdsl.rewriter import InsertPoint

    from snaxc.dialects import dart
    from snaxc.dialects.snax import LayoutCast
    from snaxc.transforms import realize_memref_casts as M

    cls = M.RealizeMemrefCasts
    orig = cls.match_and_rewrite

    def per_use(self, op, rewriter, *a, **k):
        if not isinstance(op, MemorySpaceCastOp | LayoutCast):
            return
        if not op.dest.uses:
            return
        source_op = op
        while isinstance(source_op.source, OpResult) and isinstance(source_op.source.op, MemorySpaceCastOp | LayoutCast):
            source_op = source_op.source.op
        source_type = source_op.source.type
        dest_type = op.dest.type
        if source_type == dest_type:
            op.dest.replace_all_uses_with(op.source)
            rewriter.erase_op(op)
            return
        ops_to_add = []
        dyn = []
        for i, s in enumerate(x.data for x in dest_type.shape.data):
            if s == builtin.DYNAMIC_INDEX:
                index = arith.ConstantOp.from_int_and_width(i, builtin.IndexType())
                dim_op = memref.DimOp.from_source_and_index(source_op.source, index.result)
                ops_to_add.extend([index, dim_op])
                dyn.append(dim_op)
        alloc_op = memref.AllocOp.get(dest_type.get_element_type(), 64, dest_type.get_shape(), dynamic_sizes=dyn, layout=dest_type.layout, memory_space=dest_type.memory_space)
        ops_to_add.append(alloc_op)
        for use_op in list({u.operation: None for u in op.dest.uses}):
            if isinstance(use_op, MemorySpaceCastOp | LayoutCast):
                continue
            if isinstance(use_op, linalg.GenericOp | dart.StreamingRegionOpBase):
                is_in = op.results[0] in use_op.inputs
                is_out = op.results[0] in use_op.outputs
            elif isinstance(use_op, func.ReturnOp):
                is_in, is_out = True, False
            else:
                is_in = is_out = True
            if is_in:
                rewriter.insert_op(memref.CopyOp(source_op.source, op.dest), InsertPoint.before(use_op))
            if is_out:
                rewriter.insert_op(memref.CopyOp(op.dest, source_op.source), InsertPoint.after(use_op))
        rewriter.replace_op(op, ops_to_add)

    cls.match_and_rewrite = per_use
    try:
        yield
    finally:
        cls.match_and_rewrite = orig
