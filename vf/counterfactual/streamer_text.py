"""Counterfactual for known finding C19/streamer-config-text-drops-system-type.

The textual form of `#snax.streamer_config<...>` has no place for `StreamerConfiguration.streamers_system_type`:
`print_parameter` never prints it and `parse_parameter` always builds a Regular configuration.  The reference-corrected
pair below keeps the repo's printer/parser for everything else and appends / accepts a trailing `<xdma>` (any
StreamerSystemType value) after the closing bracket when the system type is not Regular.  A print->parse violation is
attributed to the known finding only if it disappears under this pair.
"""
from contextlib import contextmanager


@contextmanager
def system_type_in_text():
    from snaxc.accelerators.streamers.streamers import StreamerConfiguration, StreamerSystemType
    from snaxc.dialects.snax import StreamerConfigurationAttr as A

    orig_print = A.__dict__["print_parameter"]
    orig_parse = A.__dict__["parse_parameter"]  # classmethod object

    def print_parameter(self, printer):
        orig_print(self, printer)
        st = self.data.streamers_system_type
        if st is not StreamerSystemType.Regular:
            printer.print_string(f"<{st.value}>")

    def parse_parameter(cls, parser):
        cfg = orig_parse.__func__(cls, parser)
        if parser.parse_optional_punctuation("<"):
            st = parser.parse_str_enum(StreamerSystemType)
            parser.parse_punctuation(">")
            cfg = StreamerConfiguration(cfg.streamers, st)
        return cfg

    A.print_parameter = print_parameter
    A.parse_parameter = classmethod(parse_parameter)
    try:
        yield
    finally:
        A.print_parameter = orig_print
        A.parse_parameter = orig_parse
