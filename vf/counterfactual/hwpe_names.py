"""Counterfactual for known finding C08/hwpe-mult-vector-length-and-nr-iters-names-exchanged.

SNAXHWPEMultAccelerator._generate_setup_vals returns (ptrs, nr_iters, vector_length, mode) while `fields` names the fourth value
`vector_length` and the fifth `nr_iters`; generate_acc_op maps those two names to the addresses the docstring gives to the *other*
meaning, so the two exchanges cancel at the address level.  The corrected version exchanges the two names in the field tuple."""
from contextlib import contextmanager


@contextmanager
def hwpe_field_names_exchanged():
    from snaxc.accelerators.snax_hwpe_mult import SNAXHWPEMultAccelerator as A

    orig = A.fields
    orig_gen = A.generate_acc_op

    def gen(self):
        from snaxc.dialects import accfg

        return accfg.AcceleratorOp(self.name, {"A": 0x3D0, "B": 0x3D1, "O": 0x3D3, "nr_iters": 0x3D4, "vector_length": 0x3D5, "mode": 0x3D6}, {"launch": 0x3C0}, 0x3C3)

    A.fields = ("A", "B", "O", "nr_iters", "vector_length", "mode")
    A.generate_acc_op = gen
    try:
        yield
    finally:
        A.fields = orig
        A.generate_acc_op = orig_gen
