"""Counterfactual for known finding C02/noncontiguous-innermost-stride-assumed-contiguous.

Reference-corrected ConvertStreamToSnaxStreamPattern: the bank-width packing (`stride * bound > 8` -> one 8-byte word per 8 bytes)
is only valid when the innermost relevant dimension is contiguous, i.e. its byte stride equals the element size of the stream.
The corrected converter refuses other inputs instead of emitting byte strides that touch unrelated memory.
"""
from contextlib import contextmanager


@contextmanager
def converter_rejects_noncontiguous_innermost():
    from snaxc.transforms import convert_dart_to_snax_stream as M
    from snaxc.ir.dart.affine_transform import AffineTransform

    cls = M.ConvertStreamToSnaxStreamPattern
    orig = cls.match_and_rewrite

    def guarded(self, op, rewriter, *a, **k):
        if getattr(op, "name", "") == "dart.access_pattern":
            acc = self.ctx.get_acc(op.accelerator.data)
            template = acc.get_template(op)
            for operand in range(len(op.operands)):
                pattern = AffineTransform.from_affine_map(op.patterns.data[operand].data)
                relevant = [True] * (pattern.num_dims - template.num_dims) + template[operand].pattern.A.any(axis=0).tolist()
                st = None
                for i in reversed(range(pattern.num_dims)):
                    if relevant[i]:
                        st = (int(pattern.A[0, i]), op.bounds.data[i].value.data)
                        break
                et = op.body.block.args[operand].type.element_type
                elsize = max(1, et.width.data // 8)
                if st is not None and st[1] > 1 and st[0] != elsize:
                    raise NotImplementedError("innermost relevant dimension is not contiguous")
        return orig(self, op, rewriter, *a, **k)

    cls.match_and_rewrite = guarded
    try:
        yield
    finally:
        cls.match_and_rewrite = orig
