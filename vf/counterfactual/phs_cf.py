"""Counterfactual for the C20 known finding `choose-region-collapses-repeated-operand`.

`ChooseOp.from_operations` clones the operation into the choose region through a value mapper keyed by the operation's
*operand values*: `{operand: block_arg for operand, block_arg in zip(op.operands, block.args)}`.  When the operation reads
the same SSA value twice (`muli %x, %x`) the dict keeps one entry, so the region computes `op(arg1, arg1)` and ignores its
first data operand.  As long as both data operands of the choose carry the same value this is invisible; once a later
kernel routes two different values to that choose (the operation is "already present", so no new alternative is added and
muxes are inserted instead) the selected alternative computes op(rhs, rhs) instead of op(lhs, rhs).

The reference-corrected version wires the cloned operation to the region's block arguments positionally.
"""
from __future__ import annotations

from contextlib import contextmanager


@contextmanager
def positional_choose_regions():
    from xdsl.ir import Block, Region

    from snaxc.dialects import phs

    cls = phs.ChooseOp
    orig = cls.__dict__["from_operations"]

    def from_operations(name, data_operands, switch, operations, result_types=[]):  # noqa: B006
        data_operand_types = cls._check_operand_types(data_operands, operations)
        regions = []
        for operation in operations:
            block = Block(arg_types=data_operand_types)
            new = operation.clone()
            for i, arg in enumerate(block.args):
                new.operands[i] = arg
            block.add_ops([new, phs.YieldOp(new)])
            regions.append(Region(block))
        return cls(
            name=name,
            data_operands=data_operands,
            switch=switch,
            default_region=regions[0],
            case_regions=regions[1:],
            result_types=result_types,
        )

    cls.from_operations = staticmethod(from_operations)
    try:
        yield
    finally:
        cls.from_operations = orig
