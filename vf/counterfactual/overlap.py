"""Counterfactual for known finding C06/overlap-extra-setup-after-last-iteration.

The reference-corrected LoopLevelSetupAwaitOverlapPattern refuses to transform a loop whose result
state is used after the loop: then nothing after the loop can depend on registers that the extra
"next iteration" setup (executed once after the last iteration) overwrites.
"""
from contextlib import contextmanager


@contextmanager
def guarded_loop_level_overlap():
    from xdsl.dialects import scf

    from snaxc.transforms import accfg_config_overlap as O

    cls = O.LoopLevelSetupAwaitOverlapPattern
    orig = cls.match_and_rewrite

    def guarded(self, op, rewriter, *a, **k):
        for_op = op.parent_op()
        if isinstance(for_op, scf.ForOp) and getattr(op, "in_state", None) is not None:
            st = op.in_state
            if st.owner is for_op.body.block:
                res = for_op.results[st.index - 1]
                if res.uses.get_length() if hasattr(res.uses, "get_length") else len(res.uses):
                    return
        return orig(self, op, rewriter, *a, **k)

    cls.match_and_rewrite = guarded
    try:
        yield
    finally:
        cls.match_and_rewrite = orig
