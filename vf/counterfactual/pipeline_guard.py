"""Counterfactual for known finding C15/pipeline-dynamic-trip-count-below-stages.

Reference-corrected ConstructPipeline: the unrolled pipeline executes (stages - 1) iterations in its prologue and epilogue
unconditionally, which is only right when the loop has at least that many iterations.  With an upper bound that is not a compile
time constant this cannot be known, so the corrected pattern leaves such loops sequential.
"""
from contextlib import contextmanager


@contextmanager
def construct_pipeline_requires_constant_trip_count():
    from snaxc.transforms.pipeline import construct_pipeline as M
    from snaxc.transforms.pipeline.pipeline_canonicalize_for import extract_cst_index

    cls = M.ConstructPipeline
    orig = cls.match_and_rewrite

    def guarded(self, op, rewriter, *a, **k):
        if getattr(op, "name", "") == "scf.for" and extract_cst_index(op.ub) is None:
            return
        return orig(self, op, rewriter, *a, **k)

    cls.match_and_rewrite = guarded
    try:
        yield
    finally:
        cls.match_and_rewrite = orig
