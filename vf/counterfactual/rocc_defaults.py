"""Counterfactual for known finding C04/rocc-default-zero-for-unknown-partner.

Reference-corrected RoCCAccelerator.lower_acc_setup: a setup without input state that touches only one source field of an
instruction cannot be lowered faithfully (the other field's current value is unknown to the compiler, and a RoCC instruction
always writes both) - the corrected lowering refuses it instead of writing 0 into the partner field.
"""
from contextlib import contextmanager


@contextmanager
def rocc_rejects_partial_setup_without_state():
    from snaxc.accelerators import rocc

    cls = rocc.RoCCAccelerator
    orig = cls.__dict__["lower_acc_setup"]

    def guarded(setup_op, acc_op):
        if setup_op.in_state is None:
            names = {n for n, _ in setup_op.iter_params()}
            for n in names:
                insn = n[:-4]
                if insn + ".rs1" not in names or insn + ".rs2" not in names:
                    raise NotImplementedError("partial RoCC setup without known input state")
        return orig.__func__(setup_op, acc_op)

    cls.lower_acc_setup = staticmethod(guarded)
    try:
        yield
    finally:
        cls.lower_acc_setup = orig
