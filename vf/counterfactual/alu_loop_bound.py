"""Counterfactual for known finding C08/alu-loop-bound-is-innermost-bound-only.

Reference-corrected SNAXAluAccelerator._generate_stream_setup_vals: loop_bound_alu = number of steps of stream a
(product of all its temporal bounds) instead of the innermost bound only.
"""
from contextlib import contextmanager
from math import prod


@contextmanager
def alu_loop_bound_is_step_count():
    from xdsl.dialects import arith

    from snaxc.accelerators.snax_alu import SNAXAluAccelerator

    orig = SNAXAluAccelerator._generate_stream_setup_vals

    def fixed(self, op):
        vals = list(orig(self, op))
        steps = prod(b.data for b in op.stride_patterns.data[0].upper_bounds.data)
        cst = arith.ConstantOp.from_int_and_width(steps, 32)
        vals[-1] = ([cst], cst.result)
        return vals

    SNAXAluAccelerator._generate_stream_setup_vals = fixed
    try:
        yield
    finally:
        SNAXAluAccelerator._generate_stream_setup_vals = orig
