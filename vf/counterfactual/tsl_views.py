"""Counterfactuals for the C10 known findings (one reference-corrected repo function each, patched in-process).

 affine_map_with_offset            TiledStridedLayoutAttr.get_affine_map    adds the layout's static offset to the result
 parser_accepts_dynamic_offset     TSLParser.parse                          `offset: ?` is read as a dynamic offset
 strided_metadata_respects_in_bytes TiledStridedLayoutAttr.get_step_ops     strides taken from extract_strided_metadata are
                                                                            scaled by the element size only when in_bytes
 canonicalize_keeps_dynamic_step_layouts TiledStridedLayout.canonicalize     a layout with a dynamic step is returned unchanged (its
                                                                            dynamic steps are anchored at "largest static step *
                                                                            its bound", which dropping / squashing strides moves)
 subview_pointer_full_digits       LowerExtractAlignedPointerOp             static offsets are applied, every offset is
                                                                            decomposed into all its tile digits
A violation is attributed to a known finding only if its structural predicate holds (vf/checks/C10.py: attribute) and the
violation disappears when the case is re-run under the matching context manager.
"""
from contextlib import contextmanager


@contextmanager
def affine_map_with_offset():
    from xdsl.ir.affine import AffineBinaryOpExpr, AffineBinaryOpKind, AffineConstantExpr, AffineMap

    from snaxc.dialects.tsl import TiledStridedLayoutAttr as A

    orig = A.get_affine_map

    def get_affine_map(self):
        m = orig(self)
        off = self.data.offset
        if isinstance(off, int) and off != 0:
            return AffineMap(m.num_dims, m.num_symbols, (AffineBinaryOpExpr(AffineBinaryOpKind.Add, m.results[0], AffineConstantExpr(off)),))
        return m

    A.get_affine_map = get_affine_map
    try:
        yield
    finally:
        A.get_affine_map = orig


@contextmanager
def parser_accepts_dynamic_offset():
    from xdsl.utils.mlir_lexer import MLIRTokenKind

    from snaxc.ir.tsl import TiledStridedLayout
    from snaxc.parser.tsl_parser import TSLParser as P

    orig = P.parse

    def parse(self):
        tstrides = []
        offset = 0
        while True:
            if self._current_token.kind == MLIRTokenKind.GREATER:
                break
            if self.parse_optional_characters("offset"):
                self._parse_token(MLIRTokenKind.COLON, "Expected colon")
                offset = self._parse_int_or_question()  # the one corrected line
                break
            tstrides.append(self._parse_tiled_stride())
            self._parse_optional_token(MLIRTokenKind.COMMA)
        return TiledStridedLayout(tstrides, offset=offset)

    P.parse = parse
    try:
        yield
    finally:
        P.parse = orig


@contextmanager
def strided_metadata_respects_in_bytes():
    from xdsl.dialects.builtin import IndexType, IntegerAttr, StridedLayoutAttr

    from snaxc.dialects.tsl import TiledStridedLayoutAttr as A

    orig = A.get_step_ops

    def get_step_ops(self, bound_ops, memref_op=None, in_bytes=False):
        ops, mapping = orig(self, bound_ops, memref_op, in_bytes)
        if memref_op is not None and not in_bytes and isinstance(getattr(memref_op.type, "layout", None), StridedLayoutAttr):
            # ops[0] = extract_strided_metadata, ops[1] = the element-size constant the metadata strides are multiplied with
            if len(ops) >= 2 and ops[0].name == "memref.extract_strided_metadata" and ops[1].name == "arith.constant":
                ops[1].properties["value"] = IntegerAttr(1, IndexType())
        return ops, mapping

    A.get_step_ops = get_step_ops
    try:
        yield
    finally:
        A.get_step_ops = orig


@contextmanager
def subview_pointer_full_digits():
    from xdsl.dialects.arith import AddiOp, ConstantOp, DivUIOp, MuliOp, RemUIOp
    from xdsl.dialects.builtin import DYNAMIC_INDEX, IndexType
    from xdsl.dialects.memref import ExtractAlignedPointerAsIndexOp, SubviewOp
    from xdsl.ir import OpResult

    from snaxc.dialects.tsl import TiledStridedLayoutAttr
    from snaxc.transforms import convert_memref_to_arith as M

    cls = M.LowerExtractAlignedPointerOp
    orig = cls.match_and_rewrite

    def match_and_rewrite(self, op, rewriter):
        if not isinstance(op, ExtractAlignedPointerAsIndexOp):
            return
        if not isinstance(op.source, OpResult) or not isinstance(subview := op.source.op, SubviewOp):
            return
        layout = getattr(subview.source.type, "layout", None)
        if not isinstance(layout, TiledStridedLayoutAttr):
            return
        elsize = subview.source.type.get_element_type().size
        ops = []
        ptr = ExtractAlignedPointerAsIndexOp.get(subview.source)
        ops.append(ptr)
        dyn = iter(subview.offsets)
        for dim, soff in enumerate(subview.static_offsets.get_values()):
            if soff == DYNAMIC_INDEX:
                rem = next(dyn)
            else:
                c = ConstantOp.from_int_and_width(soff, IndexType())
                ops.append(c)
                rem = c.result
            strides = layout.data.tstrides[dim].strides
            for depth in reversed(range(len(strides))):
                st = strides[depth]
                if st.step is None or (depth > 0 and st.bound is None):
                    raise NotImplementedError("dynamic step / inner bound in subview lowering")
                if depth > 0:
                    b = ConstantOp.from_int_and_width(st.bound, IndexType())
                    digit = RemUIOp(rem, b)
                    nxt = DivUIOp(rem, b)
                    ops.extend([b, digit, nxt])
                    rem = nxt.result
                    dig = digit.result
                else:
                    dig = rem
                s = ConstantOp.from_int_and_width(st.step * elsize, IndexType())
                mul = MuliOp(dig, s)
                ptr = AddiOp(ptr, mul)
                ops.extend([s, mul, ptr])
        rewriter.replace_op(op, ops)

    cls.match_and_rewrite = match_and_rewrite
    try:
        yield
    finally:
        cls.match_and_rewrite = orig


@contextmanager
def canonicalize_keeps_dynamic_step_layouts():
    from snaxc.ir.tsl.tiled_strided_layout import TiledStridedLayout as L

    orig = L.canonicalize

    def canonicalize(self):
        if any(stride.step is None for _, _, stride in self):
            return self
        return orig(self)

    L.canonicalize = canonicalize
    try:
        yield
    finally:
        L.canonicalize = orig
