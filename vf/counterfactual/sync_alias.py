"""Counterfactual for known finding C13/dependency-through-view-not-seen.

Reference-corrected InsertSyncBarrier.apply: the repo's algorithm, but a dependency between two operations is looked for through
*every alias* of an operand (the base buffer of a subview/cast chain and all views derived from it), not only through the very
same SSA value.  Conservative: all views of one base are assumed to overlap.
"""
from contextlib import contextmanager

VIEW_OPS = ("memref.subview", "memref.cast", "memref.memory_space_cast", "snax.layout_cast", "memref.reinterpret_cast")


def aliases(value):
    base = value
    while getattr(base.owner, "name", "") in VIEW_OPS:
        base = base.owner.operands[0]
    out = []
    work = [base]
    while work:
        v = work.pop()
        out.append(v)
        for u in v.uses:
            if u.operation.name in VIEW_OPS and u.index == 0:
                work.extend(u.operation.results)
    return out


@contextmanager
def alias_aware_sync_barriers():
    from xdsl.dialects import scf
    from xdsl.dialects.memref import DeallocOp
    from xdsl.rewriter import InsertPoint, Rewriter

    from snaxc.dialects import snax
    from snaxc.transforms import insert_sync_barrier as M
    from snaxc.util.dispatching_rules import dispatch_to_compute, dispatch_to_dm

    cls = M.InsertSyncBarrier
    orig = cls.apply

    def apply(self, ctx, op):
        rewriter = Rewriter()
        ops_to_sync = []

        def not_synced_by(sync_op):
            sb = sync_op.parent_block()
            rem = []
            for o in ops_to_sync:
                b = o.parent_block()
                while b is not None and b is not sb:
                    b = b.parent_block()
                if b is None:
                    rem.append(o)
            return rem

        for cur in op.walk():
            if cur in ops_to_sync:
                s = snax.ClusterSyncOp()
                rewriter.insert_op(s, InsertPoint.before(cur))
                ops_to_sync = not_synced_by(s)
            if isinstance(cur, snax.ClusterSyncOp):
                ops_to_sync = not_synced_by(cur)
            is_dm, is_cp = dispatch_to_dm(cur, ctx), dispatch_to_compute(cur, ctx)
            for operand in [*cur.operands, *cur.results]:
                vals = aliases(operand) if (is_dm or is_cp) and operand.type.name == "memref" else [operand]
                for v in vals:
                    for use in v.uses:
                        user = use.operation
                        if user is cur or user.name in VIEW_OPS:
                            continue
                        if (is_dm and not dispatch_to_dm(user, ctx)) or (is_cp and not dispatch_to_compute(user, ctx)):
                            ops_to_sync.append(user)
                            f = M.common_for_op(cur, user) if hasattr(M, "common_for_op") else None
                            if f is not None:
                                ops_to_sync.append(f.body.block.last_op)
                        if isinstance(user, DeallocOp):
                            ops_to_sync.append(user)

    cls.apply = apply
    try:
        yield
    finally:
        cls.apply = orig
