#!/bin/bash
# sweep.sh "<ids>" "<seeds>" [tier]  : run checks for several seeds, one summary line each (exit status + verdict line)
cd "$(dirname "$0")"
IDS="${1:-$(python3 -c "import json;print(' '.join(c['property_id'] for c in json.load(open('MANIFEST.json'))['checks']))")}"
SEEDS="${2:-0 1 2 7 1234}"
TIER="${3:-quick}"
for id in $IDS; do for s in $SEEDS; do
  OUT="$(./check $id --tier $TIER --seed $s --no-evidence 2>/dev/null)"; RC=$?
  echo "SWEEP $id seed=$s tier=$TIER exit=$RC $(echo "$OUT" | grep -c '^VIOLATION') violations :: $(echo "$OUT" | grep "verdict=" | cut -c1-200)"
  echo "$OUT" | grep '^VIOLATION\|^INCONCLUSIVE' | head -3 | cut -c1-300
done; done
