#!/bin/bash
# mutation_all.sh [n per property] [seed]: systematic mutation audit of every check (scratch copies only); see mutation_sweep.py
cd "$(dirname "$0")"
N="${1:-20}"; SEED="${2:-0}"
for i in $(seq -w 1 20); do python3 mutation_sweep.py C$i "$N" "$SEED" 2>&1 | grep -E "^MUT |^MUTATION-SUMMARY"; done
