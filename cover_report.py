#!/usr/bin/env python3
"""cover_report.py [IDs...]: reach of each check's workload inside the files its property is anchored in.

Runs the quick check with VERIF_COVER=1 (sys.monitoring LINE events in every shard), then lists per anchored file the executable
lines (from the compiled code objects) that the workload never executed, grouped by function.  Unreached functions are candidate
input classes the generator does not produce yet (DESIGN.md section 5)."""
import json, os, subprocess, sys, types

VERIF = os.path.dirname(os.path.abspath(__file__))
REPO = os.environ.get("VERIF_REPO", "/repo")


def executable_lines(path):
    src = open(path).read()
    code = compile(src, path, "exec")
    out = {}  # line -> qualified function name

    def walk(c, qual):
        for _s, _e, ln in c.co_lines():
            if ln is not None:
                out.setdefault(ln, qual)
        for k in c.co_consts:
            if isinstance(k, types.CodeType):
                walk(k, (qual + "." if qual else "") + k.co_name)

    walk(code, "")
    return out


def main():
    props = {json.loads(l)["id"]: json.loads(l) for l in open(os.path.join(VERIF, "properties.jsonl"))}
    ids = sys.argv[1:] or sorted(props)
    for pid in ids:
        cov = os.path.join(VERIF, "mutation", f"cover_{pid}.json")
        if not os.path.exists(cov) or os.environ.get("VERIF_RECOVER"):
            subprocess.run([os.path.join(VERIF, "check"), pid, "--no-evidence"], cwd=VERIF, env=dict(os.environ, VERIF_COVER="1"), capture_output=True, text=True)
        cover = json.load(open(cov))
        for f in props[pid]["anchors"]["files"]:
            p = os.path.join(REPO, f)
            if not f.endswith(".py") or not os.path.exists(p):
                continue
            ex = executable_lines(p)
            hit = set(cover.get(f, ()))
            by_fn = {}
            for ln, fn in ex.items():
                if fn == "" or fn.endswith("<module>"):
                    continue
                d = by_fn.setdefault(fn, [0, 0, []])
                d[0] += 1
                if ln in hit:
                    d[1] += 1
                else:
                    d[2].append(ln)
            tot = sum(d[0] for d in by_fn.values())
            got = sum(d[1] for d in by_fn.values())
            print(f"COVER {pid} {f}: {got}/{tot} function-body lines reached")
            for fn, (n, h, miss) in sorted(by_fn.items(), key=lambda kv: -len(kv[1][2])):
                if miss and n >= 3:
                    print(f"    {fn}: {h}/{n}  unreached lines {miss[:12]}{'...' if len(miss) > 12 else ''}")


if __name__ == "__main__":
    main()
