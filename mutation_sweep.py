#!/usr/bin/env python3
"""mutation_sweep.py <ID> [n] [seed]: systematic single-token mutants of the files a property is anchored in.

For property <ID> the anchored source files (properties.jsonl: anchors.files) are tokenised; every comparison / arithmetic /
boolean operator and every small integer literal outside assert / raise / import lines is a mutation site.  n sites are sampled
(fixed seed), each mutant is written into a scratch copy of /repo (outside /repo and /verif, removed at the end), must byte-compile
and must leave the 68 baseline tests as they are ("68 passed, 9 errors"); the property's quick check then runs against the scratch
copy (VERIF_REPO).  Result per mutant: caught (exit 1 with an unattributed VIOLATION), inconclusive (exit 2: the real code crashes
or a floor is missed), survived (exit 0).  Survivors are the interesting ones: either equivalent on the property's domain or a gap
in the check.  Results: mutation/<ID>.jsonl (one line per mutant) and a summary line on stdout.

This is an audit of the monitors (DESIGN.md section 5), not a registered check.
"""
from __future__ import annotations

import io
import json
import os
import random
import shutil
import subprocess
import sys
import tempfile
import tokenize

VERIF = os.path.dirname(os.path.abspath(__file__))
REPO = "/repo"

OPS = {
    "<": ["<=", ">"],
    "<=": ["<"],
    ">": [">=", "<"],
    ">=": [">"],
    "==": ["!="],
    "!=": ["=="],
    "+": ["-"],
    "-": ["+"],
    "*": ["+"],
    "//": ["*"],
    "%": ["//"],
    "and": ["or"],
    "or": ["and"],
    "+=": ["-="],
    "-=": ["+="],
    "not": [""],
    "True": ["False"],
    "False": ["True"],
}


def sites(path):
    src = open(path).read()
    out = []
    try:
        toks = list(tokenize.generate_tokens(io.StringIO(src).readline))
    except Exception:
        return src, out
    lines = src.split("\n")
    depth_sq = 0
    prev = None
    for t in toks:
        line = lines[t.start[0] - 1].strip() if t.start[0] - 1 < len(lines) else ""
        skip = line.startswith(("assert", "raise", "import", "from ", "@", "#", "def ", "class ")) or "NotImplementedError" in line or "isinstance" in line and t.string in ("and", "or")
        if t.type == tokenize.OP or t.type == tokenize.NAME:
            s = t.string
            if s in OPS and not skip:
                # unary minus / plus, star-args, type unions and annotations are poor sites
                if s in ("-", "+", "*") and (prev is None or prev.type == tokenize.OP and prev.string not in (")", "]")):
                    prev = t
                    continue
                if t.type == tokenize.NAME and s not in ("and", "or", "not", "True", "False"):
                    prev = t
                    continue
                for r in OPS[s]:
                    out.append((t.start, t.end, s, r))
        elif t.type == tokenize.NUMBER and not skip:
            try:
                v = int(t.string)
            except ValueError:
                prev = t
                continue
            if 0 <= v <= 16:
                for r in ([1] if v == 0 else [v - 1, v + 1]):
                    out.append((t.start, t.end, t.string, str(r)))
        prev = t
    return src, out


def apply(src, site):
    (l0, c0), (l1, c1), old, new = site
    lines = src.split("\n")
    assert l0 == l1
    ln = lines[l0 - 1]
    assert ln[c0:c1] == old, (ln[c0:c1], old)
    lines[l0 - 1] = ln[:c0] + new + ln[c1:]
    return "\n".join(lines)


def summary_of(stdout):
    """(verdict line numbers, counters line, total rejections) of one check run - used to sub-classify survivors."""
    import re

    verdict = next((ln for ln in stdout.split("\n") if "verdict=" in ln), "")
    verdict = re.sub(r" wall=[0-9.]+s", "", verdict)
    counters = next((ln for ln in stdout.split("\n") if ln.strip().startswith("counters:")), "")
    rej_line = next((ln for ln in stdout.split("\n") if ln.strip().startswith("rejected:")), "")
    rej = sum(int(x) for x in re.findall(r"=(\d+)", rej_line))
    return verdict, counters, rej


def main():
    pid = sys.argv[1]
    n = int(sys.argv[2]) if len(sys.argv) > 2 else 20
    seed = int(sys.argv[3]) if len(sys.argv) > 3 else 0
    prop = None
    for line in open(os.path.join(VERIF, "properties.jsonl")):
        d = json.loads(line)
        if d["id"] == pid:
            prop = d
    files = [f for f in prop["anchors"]["files"] if f.endswith(".py") and os.path.exists(os.path.join(REPO, f))]
    # which lines does the check's workload execute?  (one covered run on the unchanged tree)
    cov_path = os.path.join(VERIF, "mutation", f"cover_{pid}.json")
    if not os.path.exists(cov_path) or os.environ.get("VERIF_RECOVER"):
        subprocess.run([os.path.join(VERIF, "check"), pid, "--no-evidence"], cwd=VERIF, env=dict(os.environ, VERIF_COVER="1"), capture_output=True, text=True)
    cover = json.load(open(cov_path)) if os.path.exists(cov_path) else {}
    base = subprocess.run([os.path.join(VERIF, "check"), pid, "--no-evidence"], cwd=VERIF, capture_output=True, text=True)
    base_sum = summary_of(base.stdout)
    allsites = []
    uncovered = 0
    for f in files:
        src, ss = sites(os.path.join(REPO, f))
        lines = set(cover.get(f, ()))
        for s_ in ss:
            if s_[0][0] in lines:
                allsites.append((f, s_))
            else:
                uncovered += 1
    rng = random.Random(f"{pid}/{seed}")
    rng.shuffle(allsites)
    scratch = tempfile.mkdtemp(prefix="verif-mutsweep-", dir="/tmp")
    subprocess.run(["rsync", "-a", "--exclude", ".git", "--exclude", "__pycache__", "--exclude", "*.egg-info", REPO + "/", scratch + "/"], check=True)
    os.makedirs(os.path.join(VERIF, "mutation"), exist_ok=True)
    outp = os.path.join(VERIF, "mutation", f"{pid}.jsonl")
    done = 0
    tally = {"caught": 0, "inconclusive": 0, "survived": 0, "tests_notice": 0, "no_compile": 0}
    try:
        with open(outp, "a") as log:
            for f, site in allsites:
                if done >= n:
                    break
                path = os.path.join(scratch, f)
                src = open(os.path.join(REPO, f)).read()
                try:
                    mut = apply(src, site)
                except AssertionError:
                    continue
                try:
                    compile(mut, f, "exec")
                except SyntaxError:
                    tally["no_compile"] += 1
                    continue
                open(path, "w").write(mut)
                rec = {"property": pid, "file": f, "line": site[0][0], "col": site[0][1], "old": site[2], "new": site[3], "source_line": src.split("\n")[site[0][0] - 1].strip()[:160]}
                try:
                    t = subprocess.run(
                        ["/venv/bin/python", "-m", "pytest", "-q", "-p", "no:cacheprovider", "--continue-on-collection-errors"],
                        cwd=scratch, capture_output=True, text=True, timeout=300,
                    )
                    tail = t.stdout.strip().split("\n")[-1] if t.stdout.strip() else ""
                except subprocess.TimeoutExpired:
                    tail = "timeout"
                if not tail.startswith("68 passed, 9 errors"):
                    tally["tests_notice"] += 1
                    rec["result"] = "tests_notice"
                    rec["tests"] = tail[:80]
                else:
                    env = dict(os.environ, VERIF_REPO=scratch)
                    try:
                        r = subprocess.run([os.path.join(VERIF, "check"), pid, "--no-evidence"], cwd=VERIF, env=env, capture_output=True, text=True, timeout=1800)
                        viol = [ln for ln in r.stdout.split("\n") if ln.startswith(f"VIOLATION property={pid}")]
                        rec["exit"] = r.returncode
                        if viol or r.returncode == 1:
                            rec["result"] = "caught"
                            rec["first"] = viol[0].split("#", 1)[-1].strip()[:200] if viol else "exit 1"
                        elif r.returncode == 2:
                            rec["result"] = "inconclusive"
                            rec["first"] = next((ln for ln in r.stdout.split("\n") if ln.startswith("INCONCLUSIVE")), "")[:200]
                        else:
                            rec["result"] = "survived"
                            v, cn, rj = summary_of(r.stdout)
                            if (v, cn, rj) == base_sum:
                                rec["survivor_class"] = "no-observable-effect-on-the-workload"
                            elif rj > base_sum[2]:
                                rec["survivor_class"] = f"compiler-crashes-more-often(+{rj - base_sum[2]})"
                            else:
                                rec["survivor_class"] = "behaviour-changed-property-kept"
                    except subprocess.TimeoutExpired:
                        rec["result"] = "inconclusive"
                        rec["first"] = "check timeout"
                    tally[rec["result"]] += 1
                    done += 1
                log.write(json.dumps(rec) + "\n")
                log.flush()
                open(path, "w").write(src)
                print(f"MUT {pid} {f}:{site[0][0]} {site[2]!r}->{site[3]!r} {rec['result']} {rec.get('survivor_class', '')}", flush=True)
    finally:
        shutil.rmtree(scratch, ignore_errors=True)
    print(f"MUTATION-SUMMARY {pid} covered_sites={len(allsites)} uncovered_sites={uncovered} judged={done} {tally}")


if __name__ == "__main__":
    main()
