#!/bin/bash
# seed_all.sh [check args]: confirm every seeded change under seeded/ and run its property's check against it (scratch copies only).
cd "$(dirname "$0")"
for d in seeded/C*/; do id=$(basename $d); ./seed_confirm.sh $id $d "$@"; done
