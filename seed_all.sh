#!/bin/bash
# seed_all.sh [round dir] [check args]: confirm every seeded change under seeded/ (or seeded/round2 ..) and run its property's
# check against it (scratch copies only).
cd "$(dirname "$0")"
ROOT="${1:-seeded}"; shift || true
for d in $ROOT/C*/; do [ -f "$d/patch.diff" ] || continue; id=$(basename $d); ./seed_confirm.sh $id $d "$@"; done
