"builtin.module"() ({
  "phs.pe"() <{sym_name = "acc1", function_type = (i64, i64, i64, index) -> i64, switch_no = 1 : i64}> ({
  ^bb0(%in: i64, %in_1: i64, %out: i64, %0: index):
    %1 = "phs.choose"(%in, %in_1, %0) <{sym_name = "i_i64_i64_o_i64_0"}> ({
    ^bb0(%2: i64, %3: i64):
      %4 = "arith.addi"(%2, %3) <{overflowFlags = #arith.overflow<none>}> : (i64, i64) -> i64
      "phs.yield"(%4) : (i64) -> ()
    }) : (i64, i64, index) -> i64
    "phs.yield"(%1) : (i64) -> ()
  }) : () -> ()
}) : () -> ()