#!/bin/bash
# audit.sh <ID> <patch> [extra check args]  : apply a property-breaking patch to a scratch copy of /repo (outside /repo and
# /verif), run the quick check against it (VERIF_REPO), expect a VIOLATION line, and delete the scratch copy.
# exit 0 = caught, 3 = missed, 4 = patch does not apply
set -u
ID="$1"; PATCH="$(readlink -f "$2")"; shift 2
cd "$(dirname "$0")"
SCRATCH="$(mktemp -d /tmp/verif-audit-XXXXXX)"
trap 'rm -rf "$SCRATCH"' EXIT
rsync -a --exclude .git --exclude '__pycache__' --exclude '*.egg-info' /repo/ "$SCRATCH/"
if ! patch -s -p1 -d "$SCRATCH" < "$PATCH"; then echo "AUDIT $ID $(basename "$PATCH"): patch does not apply"; exit 4; fi
OUT="$(VERIF_REPO="$SCRATCH" ./check "$ID" --no-evidence "$@" 2>&1)"
RC=$?
if echo "$OUT" | grep -q "^VIOLATION property=$ID"; then
  echo "AUDIT $ID $(basename "$PATCH"): CAUGHT ($(echo "$OUT" | grep -c '^VIOLATION') violation lines; first: $(echo "$OUT" | grep -m1 '^VIOLATION' | cut -c1-220))"
  exit 0
fi
echo "AUDIT $ID $(basename "$PATCH"): MISSED (exit $RC)"; echo "$OUT" | tail -3 | cut -c1-300
exit 3
