#!/bin/bash
# audit_all.sh: every hand-written mutant under mutants/<id>/ against its check (scratch copies only); one line per mutant.
cd "$(dirname "$0")"
for d in mutants/C*/; do id=$(basename $d); for p in $d*.patch; do ./audit.sh $id $p 2>&1 | head -1 | cut -c1-160; done; done
