#!/usr/bin/env python3
"""Regenerates MANIFEST.json from the per-check metadata below (keeps it valid at all times)."""
import json, os

HERE = os.path.dirname(os.path.abspath(__file__))
CHECKS = {}
NA = {}


def chk(pid, category, text, note, technique, design_ref):
    CHECKS[pid] = dict(category=category, text=text, note=note, technique=technique, design_ref=design_ref)


exec(open(os.path.join(HERE, "manifest_entries.py")).read())

props = [json.loads(l)["id"] for l in open(os.path.join(HERE, "properties.jsonl"))]
man = {
    "version": 1,
    "setup_cmd": "./setup.sh",
    "hooks": {
        "guard": "SNAX_MLIR_VERIF",
        "enable": "no hooks live in /repo: monitors wrap repo functions from the harness (vf/contracts.py, vf/passmon.py, interpreter hooks); SNAX_MLIR_VERIF=1 is read by /verif code only",
        "baseline_off_cmd": "cd /repo && /venv/bin/python -m pytest -ra -q -p no:cacheprovider --timeout=900 --continue-on-collection-errors",
        "source_commits": [],
        "add_only": True,
    },
    "engines": [
        {
            "name": "vf",
            "path": "vf/",
            "serves_properties": sorted(CHECKS),
            "kind_free_text": "runtime monitoring: real snaxc passes/functions executed on generated hostile workloads; emitted IR executed on small abstract machines that record event logs; icontract-style monitors on real functions",
        }
    ],
    "checks": [],
    "not_applicable": [],
    "notes": "Exit codes: 0 held on what was observed, 1 violation (VIOLATION line + replay file), 2 inconclusive (monitor-side floor missed or shard died). KNOWN_FINDINGS.txt lists recorded defects and fix: commits.",
}
for pid in props:
    if pid in CHECKS:
        c = CHECKS[pid]
        man["checks"].append(
            {
                "property_id": pid,
                "quick_cmd": f"./check {pid} --tier quick",
                "thorough_cmd": f"./check {pid} --tier thorough",
                "evidence_file": f"evidence/{pid}.json",
                "replay_cmd_template": f"./check {pid} --replay {{path}}",
                "engine": "vf",
                "level_claimed": {"category": c["category"], "text": c["text"], "design_ref": c["design_ref"]},
                "level_note": c["note"],
                "technique": c["technique"],
            }
        )
    else:
        man["not_applicable"].append({"property_id": pid, "reason": NA.get(pid, "check not built yet in this session (runtime monitor planned in DESIGN.md section 3); not claimed until it runs silent on the unchanged tree")})
json.dump(man, open(os.path.join(HERE, "MANIFEST.json"), "w"), indent=1)
print("checks:", sorted(CHECKS), "not_applicable:", len(man["not_applicable"]))
