#!/bin/bash
# seed_matrix.sh: which checks notice which seeded change (within groups of properties that share code); scratch copies only.
cd "$(dirname "$0")"
groups=("C01 C06 C07 C04" "C02 C08 C03 C16 C09" "C11 C12 C05 C10" "C13 C14 C15 C17" "C18 C20 C19")
for g in "${groups[@]}"; do
  for seed in $g; do
    for chk in $g; do
      r=$(./audit.sh $chk seeded/$seed/patch.diff 2>&1 | head -1 | cut -c1-200)
      echo "MATRIX seed=$seed check=$chk :: $r"
    done
  done
done
