TB = "Trusted base: xDSL 0.70 compatibility shim (vf/compat.py); interpreter vf/interp/core.py; "
chk(
    "C01",
    "translation_validation",
    "Every generated program is pushed through the real accfg-trace-states and accfg-dedup (hoist on/off) and executed before and after on an accfg register machine for several runtime vectors; launch/await sequences and the register file latched by each launch are compared. Holds on the executions observed (counts in evidence), sampled not exhaustive.",
    TB + "accfg machine vf/interp/accfg_m.py (launch latches the register file, a setup writes exactly its fields, unannotated calls poison all registers). Pass crashes/timeouts are rejections.",
    "runtime monitoring: before/after execution traces of the real pass on an abstract register machine (launch-trace comparison, poison values, unique markers)",
    "DESIGN.md section 3 C01",
)
chk(
    "C07",
    "exploration",
    "The traced program is executed on the accfg machine with a claim hook (real infer_state_of evaluated at every definition of a state value, each in-scope claim compared with the concrete register file, at every loop iteration) and a linearity hook (state tokens must match the setup/clobber that really executed last). Sampled over programs and runtime vectors.",
    TB + "accfg machine; the oracle's own rule for which ops may reconfigure an accelerator; claims naming SSA values that do not dominate the point are vacuous.",
    "runtime monitoring: hooked invariants (analysis claim vs concrete register state) during execution on an abstract machine",
    "DESIGN.md section 3 C07",
)
chk(
    "C06",
    "translation_validation",
    "Every generated program is traced and deduplicated (and also left undeduplicated) by the real passes, then run through the real accfg-config-overlap and executed before and after on the accfg register machine for several runtime vectors (lb!=0, step!=1, loop-carried operands, trip counts 0..5); launch/await order, launch values and the register file latched by each launch are compared, a moved op reading an unbound value (dynamic dominance monitor) or a verifier failure is a violation.",
    TB + "accfg machine. One known finding (extra next-iteration setup after the last iteration) is attributed by a structural predicate plus a counterfactual re-run with a guarded pattern (vf/counterfactual/overlap.py).",
    "runtime monitoring: before/after execution traces of the real pass on an abstract register machine, dynamic use-before-def monitor",
    "DESIGN.md section 3 C06",
)
chk(
    "C04",
    "translation_validation",
    "accfg programs over real accelerator instances (hwpe_mult, alu, gemmx, xdma configurations, gemmini, PHS instances built by the real encoder/merge with 0..n switches) are executed on the accfg machine before and on a CSR/RoCC instruction machine after the real convert-accfg-to-csr; the logs are cut at launches/awaits and compared (one write per configured field at the declared address with the field's value, launch writes in order, await polls the declared barrier and terminates, RoCC instructions carry the values in effect for both operands); the module is walked for surviving state values; register maps of enumerated configurations are checked for injectivity including reserved registers (exhaustive over the uniform configuration box); gemmx launches with channel-wise quantisation attributes are lowered end to end (convert-linalg-to-accfg, convert-accfg-to-csr) and the per-group register contents at each array launch are compared with the attribute values.",
    TB + "accfg machine, CSR machine vf/interp/csr_m.py with the status protocol per barrier class from the C snippets in snaxc/accelerators/snax.py; reserved-register rule from the get_streamer_launch_dict docstring and the xDMA multicast gap; injectivity is not demanded of the RoCC accelerator (rs1/rs2 share a funct7 by design).",
    "runtime monitoring: event-log comparison of the program before/after the real lowering on abstract CSR machines; invariant check on generated register maps",
    "DESIGN.md section 3 C04",
)
chk(
    "C08",
    "translation_validation",
    "For generated accelerator instances (alu, gemmx geometries, xDMA extension subsets) a streaming region with pairwise distinct marker bounds/strides and distinct kernel parameters is lowered by the real convert-linalg-to-accfg; the emitted program is executed on the accfg machine and the register file latched by the launch is compared field by field, by name, with a reference dictionary written from the property statement (padding, reuse collapse, masks, flags, packed gemmx parameters decoded by bit position, loop counts vs stream steps); value count and declared order are checked as well. The hard-coded linalg.generic paths of snax_hwpe_mult and snax_alu are driven with 1-D memrefs (sizes, static offsets) and compared by name too.",
    TB + "accfg machine; reference meaning of each field as listed in the evidence assumptions; alu_mode and the xDMA bypass polarity are only checked for position; a boolean written as 1 or all-ones is accepted (xDSL version drift).",
    "runtime monitoring: unique-marker tracing of generated configuration values into named registers, compared with an independent by-name reference",
    "DESIGN.md section 3 C08",
)
chk(
    "C05",
    "translation_validation",
    "memref.copy between generated layout pairs (row-major, strided with offsets, tiled-strided with several tile levels, paddings, dynamic bounds/steps) is lowered by the real snax-copy-to-dma and the emitted arith/scf/func.call code is executed on a byte-level DMA machine with runtime descriptors; every destination element must hold the tags of the corresponding source element at the address given by an independent reference layout function, reads/writes must stay inside the footprints, conflicting writes are reported.",
    TB + "DMA machine vf/interp/dma_m.py (snrt_dma_start_1d/2d semantics from runtime/include/snax_rt.h); reference layout function vf/ref/layout.py; dynamic strides are only judged when they follow the compiler's documented contiguity assumption (others are out of domain).",
    "runtime monitoring: execution of the emitted DMA loop nests on a byte-memory machine with unique byte tags, compared against a reference layout function",
    "DESIGN.md section 3 C05",
)
chk(
    "C09",
    "exploration",
    "Every snax.layout_cast result type produced by the real set-memory-layout (tiled=true and false) on schedules from the real scheduler (gemmx matmul/gemm/rescale/conv-like, alu, xdma operations) and on synthetic matmul-like schedules (1-2 tiling levels, any outer dimension order, widths 8..64) is certified by enumeration with an independent reference layout function: pairwise distinct element addresses and tile bounds that cover exactly the shape; schedule ops with an explicit #tsl operand must be left untouched.",
    TB + "reference layout function vf/ref/layout.py. Schedules that do not cover their operand are out of domain.",
    "runtime monitoring: result certification of the real pass's output (enumeration of the chosen layout against a reference address function)",
    "DESIGN.md section 3 C09",
)
chk(
    "C02",
    "translation_validation",
    "Generated dart.operation ops (alu, gemmx matmul/gemm/rescale/conv-like, xdma add; compiler-chosen tiled/untiled layouts, given strided and #tsl layouts) are pushed through the real scheduler, layout passes, dart-layout-resolution and convert-dart-to-snax-stream; the dart.schedule entering layout resolution and the final snax_stream.streaming_region are captured at the pass boundary; for every operand the byte set the schedule assigns to each temporal step (reference layout function, incl. the layout offset) is compared with the byte set a streamer machine fetches for that step (temporal nest x spatial ports x 8-byte words).",
    TB + "streamer machine (address generation loop of the StridePattern docstring / streamer.md), reference layout function; compiler refusals and conversions that emit the converter's non-contiguous warning are counted, not judged; four known findings are attributed by predicate + counterfactual.",
    "runtime monitoring: pass-boundary capture plus enumeration of the generated address streams on an abstract streamer, compared step by step with the scheduled element stream",
    "DESIGN.md section 3 C02",
)
chk(
    "C11",
    "translation_validation",
    "(a) the size computation emitted by the real memref-to-snax for allocations of generated layouts (none / tiled-strided with gaps, offsets, dynamic bounds) is interpreted with runtime sizes and compared with the highest address of an independent reference layout function; (b) functions with several allocations, views and nested uses are allocated by the real snax-allocate (static, minimalloc, auto) and then executed: from the trace of buffer uses, buffers whose address ranges intersect must not have interleaved lifetimes, nothing is used after an inserted dealloc, every pointer is aligned and inside the memory window.",
    TB + "reference layout function; the absent third-party minimalloc solver is replaced by an adversarial maximally-reusing reference stand-in (vf/stubs/minimalloc.py, self-tested against the upstream expectation): the repo's lifetime computation, alignment/capacity handling and address materialisation are what is monitored, not the solver.",
    "runtime monitoring: interpretation of emitted size code; execution trace of buffer uses checked offline for overlap of live address ranges (hostile allocator)",
    "DESIGN.md section 3 C11",
)
chk(
    "C19",
    "exploration",
    "Differential monitors on the real functions over seeded inputs: canonicalize_expr/canonicalize_map (evaluation equal on a full small box plus random points, idempotent, RecursionError/watchdog = violation), AffineTransform.from_affine_map/to_affine_map/compose/eval against direct integer arithmetic, AccessPattern.canonicalize/inner_dims (same access sequence / equals the restriction), StridePattern.canonicalize (identical temporal address sequence and spatial set incl. zero/unit bounds and zero strides) and print->parse, pack_bitlist (emitted arith ops verified and interpreted == OR_i(v_i<<o_i) mod 2^w for int/SSA/Operation inputs, lengths 0..9), StreamerConfigurationAttr print->parse compared structurally. Held on the executions observed (per-function call/evaluation counters in evidence); sampled, not exhaustive.",
    TB + "oracle-side affine evaluator and generators in vf/gen/affine_gen.py; index 0 = innermost temporal loop. One known finding (streamer-config text form drops the system type) attributed by predicate (only `system` differs, config not reg) + counterfactual vf/counterfactual/streamer_text.py. Exceptions of the functions under test are rejections.",
    "runtime monitoring: differential evaluation / contracts on real pure functions, interpretation of emitted ops, print-parse round trips",
    "DESIGN.md section 3 C19",
)
chk(
    "C10",
    "exploration",
    "Every generated tiled-strided layout (exhaustive small box: quick samples it, thorough enumerates all 48 984; random up to rank 4 x depth 3 with unit bounds, repeated steps, offsets, dynamic outermost bound/step/offset) is compared at every logical index with the independent reference function (vf/ref/layout.py) through each real view: get_affine_map, get_bound_ops/get_step_ops (emitted ops interpreted at concrete runtime shapes/strides, elements and bytes, tsl and strided memrefs), all_values/self_overlaps/is_dense, print->parse through the xDSL parser, from_strides, canonicalize (function, shape, idempotence), largest_common_contiguous_block (contiguous chain from the starting stride, each stride at a common (dim,depth)), and the real convert-memref-to-arith pass on subviews of TSL memrefs (pointer difference interpreted for 4 runtime vectors). Held on the executions observed apart from the listed known findings.",
    TB + "reference layout function vf/ref/layout.py incl. the dynamic-step contiguity convention; memref.dim/extract_strided_metadata handlers in vf/checks/C10.py; aligned pointer excludes the layout offset. Known findings are attributed by structural predicate + counterfactual (vf/counterfactual/tsl_views.py). Steps of 0 are out of domain (counted only).",
    "runtime monitoring: differential views of the real layout code against an independent reference, interpretation of emitted ops, pass-level pointer validation",
    "DESIGN.md section 3 C10",
)
chk(
    "C12",
    "translation_validation",
    "Generated functions (arguments, allocations, dense globals, static subviews of larger dense globals, dense arith.constant memrefs; 1-5 accelerator ops with ins/outs in any order incl. writer-before-reader on the same buffer; loops with trip counts 0..3; layout casts inserted per op after set-memory-space as set-memory-layout does) are executed on a logical buffer machine before (casts are aliases) and after the real set-memory-space + realize-memref-casts; the digest of the data every accelerator op reads (poison = uninitialised), the final contents of all externally visible buffers and returned memrefs must be equal; after set-memory-space every accelerator operand must be in L1 and function boundaries keep L3; re-laid-out dense globals and constants are decoded with the reference layout function inside the machine; constants folded by the frontend's RemoveTransposeConstants pattern are read back element by element.",
    TB + "logical buffer machine vf/interp/buf_m.py (ins read, outs written, other operands both); neutral direct readers of the original buffers only after the last accelerator op (direct accesses between two uses of a cast are outside what one copy-in/copy-out can serve); one known finding (several stand-ins of one buffer) attributed by predicate + counterfactual realisation with per-use copies.",
    "runtime monitoring: before/after execution on a symbolic buffer-contents machine with poisoned allocations; consumer logs and final external contents compared",
    "DESIGN.md section 3 C12",
)
chk(
    "C18",
    "translation_validation",
    "Generated linalg.generic bodies over addi/muli/subi/extsi (exhaustive boxes of small wirings, canonical kernel bodies, near misses, random) are pushed through the real convert-linalg-to-kernel and executed before and after by a fixed-width scalar evaluator on corner-product plus 200 random vectors; kernel-bodied generics (mul/add/mac/qmac, kernel.rescale parameter sets) go through the real convert-kernel-to-linalg and the expanded body is compared with the kernel's documented meaning; after the real insert-accfg-op/dispatch-kernels every library_call set by the pass is checked against the supported_kernels of the named accelerator (kernel type and exact operand/result types); tosa.rescale [+ tosa.clamp] with generated parameters goes through the real convert-tosa-to-kernel and the parameters of the resulting kernel.rescale are compared with those of the tosa ops. Holds on the executions observed apart from attributed known findings; sampled, exhaustive only for the stated boxes.",
    TB + "scalar evaluator vf/interp/scalar.py (kernel ops by documented meaning; kernel.rescale per util/gemmx/simd_golden_model.py because the linked gist is unreachable; 32-bit-overflow inputs out of domain). Expansion judged only for type combinations with a well-typed canonical body; verifier failures after a pass are rejections; convert-tosa-to-kernel not reached under xDSL 0.70. Known findings attributed by structural predicate + counterfactual (vf/counterfactual/kernel_cf.py).",
    "runtime monitoring: before/after execution of real pass output on a scalar machine (differential evaluation on extreme and random inputs), declaration check on dispatch results",
    "DESIGN.md section 3 C18",
)
chk(
    "C20",
    "exploration",
    "Histories of 1-5 kernel bodies over integer/float binary ops are merged with the real convert_generic_body_to_phs/append_to_abstract_graph (all merge orders for n<=3, sampled beyond); after every merge every kernel seen so far is decoded with the real decode_abstract_graph and a PE interpreter evaluates the abstract graph under the decoded switches on corner plus 200 random inputs against the kernel body; also get_true_switches() == len(decoded) == number of phs_switch_i fields of SNAXPHSAccelerator. An earlier kernel becoming undecodable or changing function after a later merge is a violation. Sampled histories and inputs.",
    TB + "PE interpreter vf/interp/pe_m.py (choose = region selected by its switch, single-region choose has no hardware switch, mux 0=lhs/1=rhs, decoded values mapped in switch order, demand-driven combinational evaluation); op semantics shared with vf/interp/scalar.py. Kernels whose used-argument types differ from the PE ports, and attribute-carrying ops (cmpi), are counted separately and not judged.",
    "runtime monitoring: history checking of real encode/merge/decode functions with an abstract PE machine executing the decoded configuration",
    "DESIGN.md section 3 C20",
)
chk(
    "C03",
    "exploration",
    "Contracts on the real SchedulePattern/Schedule.rotate/.tile_dim/.add_dim, PatternCollection.clear_unused_dims/.canonicalize, AccessPattern.canonicalize, scheduler_backtrack (every yielded alternative, cap 48 per case) and scheduler(schedule_idx=k): the multiset over the bounds box of the tuple of per-operand index tuples is recomputed by the harness before and after and must be equal; tile_dim is judged only when the tile divides the bound and every tile_dim issued by scheduler_backtrack must satisfy that divisibility; pass level: dart.operation -> real dart-scheduler -> dart.schedule with the image recomputed from the IR on both sides. Sampled over G-sched (planted and random schedules, real alu/gemmx/xdma templates, tile-chain templates, bounded/unbounded dims, offsets, all extra-check combinations), boxes <= 20000 points; the repo's tests/ir/dart ran once with the contracts on (0 fired).",
    TB + "numpy integer arithmetic; xDSL AffineMap.eval (pass level). Searches that raise, yield nothing or hit the per-case watchdog are rejections/inconclusive-for-that-case (counted). Inside a search at most 24000 box points are spent on rotate/tile_dim contracts (rest counted as skipped); rotate(0), custom-bounds clear_unused_dims and non-dividing tiles are out of domain (counted).",
    "runtime monitoring: pre/post-condition contracts installed on the real functions (rebinding in every module namespace, evaluation counters, zero evaluations = inconclusive)",
    "DESIGN.md section 3 C03",
)
chk(
    "C16",
    "exploration",
    "On every schedule yielded by the real scheduler_backtrack (also when reached through scheduler() inside the real dart-scheduler pass with the real get_template()): per operand the row space of the innermost template dims equals the row space of the broadcast-trimmed template matrix (exact Fraction elimination, vf/ref/rowspace.py); bounds[-T:] <= template bounds where not None; each requested constraint re-evaluated independently on the final schedule (pure output stationarity semantically by walking the temporal nest when the output map is injective on its parallel dims, else the documented syntactic rule; memory flexibility and output-channel stationarity by restating the documented predicate). Differential monitor: TemplatePattern.matches and same_nonzero_singular_vectors equal exact row-space equality in both directions on every call made by the searches and on generated pattern pairs (row-mixed, perturbed, rank-deficient, near-parallel up to 64, broadcast, extra/zero rows).",
    TB + "fractions.Fraction; broadcast rule as documented in matches(); SVD matcher judged only for |entries| <= 64 and default tolerance; yielded schedules with fewer dims than the template are compared with the innermost dims they have and counted (fit_short_schedule), matches() on them is out of the differential's domain. Searches that raise/yield nothing/time out are rejections (counted).",
    "runtime monitoring: post-condition contracts on every yielded schedule plus a differential monitor of the SVD matcher against exact rational row-space equality",
    "DESIGN.md section 3 C16",
)
chk(
    "C17",
    "translation_validation",
    "Every generated loop nest (depth<=3, constant and dynamic bounds/steps incl. upper bounds that are not a multiple of the step, markers / pure ops / alloc / dim / affine.min / subview / copy / kernels / barriers before, inside and after inner loops, perfect and imperfect nests, index iter_args) and the loop/alloc filecheck corpus is pushed through the real pipeline-canonicalize-for and the real reuse-memref-allocs and executed before and after on the trace machine for up to 4 runtime vectors; the sequences of side-effecting ops with evaluated index operands and, for every buffer at its point of use, the elements and shape of the allocation it covers are compared (alloc events themselves exempt for the hoisting pass); verifier failure, use-before-def or a machine error after the pass is a violation. Holds on the executions observed apart from two known findings attributed by mechanism; sampled, not exhaustive.",
    TB + "trace machine vf/interp/trace_m.py on the logical buffer machine vf/interp/buf_m.py; buffer contents are not compared. Known findings (MoveMemrefDims replaces an affine.min by a constant for all users; MergeForLoops merges imperfect nests) are attributed by a structural predicate plus a counterfactual re-run with a rejecting pattern (vf/counterfactual/loops.py). Pass crashes are rejections.",
    "runtime monitoring: before/after execution traces of the real passes on an abstract buffer machine (operation-sequence comparison, dynamic use-before-def monitor)",
    "DESIGN.md section 3 C17",
)
chk(
    "C14",
    "translation_validation",
    "Every generated function (copies and xdma regions = data mover, linalg.generic and streaming regions on other accelerators = compute, markers/arith/alloc/subview/barriers = all cores; straight-line, nested scf.for/scf.if, multi-block, called helper functions; each op tagged by the generator) and every filecheck function with dispatchable ops that executes is pushed through the real dispatch-regions for two core counts out of {2,3,4,8} and through function-constant-pinning; for every core id the dispatched and the pinned module are executed and their trace must equal the original trace filtered by the generator's tags (dm iff core N-1, compute iff core 0, rest always), for 2 runtime vectors; verifier failure or use-before-def is a violation. Holds on the executions observed; sampled, not exhaustive.",
    TB + "trace machine vf/interp/trace_m.py (func.call @snax_cluster_core_idx returns the core id; one core executed at a time, buffer contents not compared). The classification is the generator's (by op name for corpus inputs), never snaxc.util.dispatching_rules. function-constant-pinning is xDSL's pass. Pass crashes are rejections.",
    "runtime monitoring: per-core execution traces of the real pass output compared with the tag-filtered trace of the original program",
    "DESIGN.md section 3 C14",
)
chk(
    "C13",
    "translation_validation",
    "Generated multi-core functions (copies / xdma regions on the data-mover core, kernels on the compute core, shared buffers, allocations and subviews, nested loops and ifs, pre-existing barriers, alloc/use/dealloc sequences) are pushed through the real insert-sync-barrier (executed per core with the generator's role tags) and through insert-sync-barrier + dispatch-regions{nb_cores} (executed per core id); every access of a dm/compute op is logged with its core, buffer region (resolved through views) and barrier epoch. A happens-before race detector requires equal barrier counts on all cores and different epochs for any two accesses from different cores to intersecting regions with a write or dealloc - exact for barrier-only synchronisation, so one execution per core decides all interleavings of the executed control path, loop back edges included.",
    TB + "N-core machine on the trace/buffer machines (control flow independent of buffer contents); role tags from the generator; accesses of neutral ops ignored; one known finding (dependencies through views) attributed by a predicate on the race witness plus an alias-aware counterfactual pass (vf/counterfactual/sync_alias.py). Sampled interleaving stress is not run separately: the epoch argument covers all interleavings.",
    "runtime monitoring: per-core access/barrier event logs checked offline by a happens-before (barrier epoch) race detector",
    "DESIGN.md section 3 C13",
)
chk(
    "C15",
    "translation_validation",
    "Generated loops of the recognised shape (subviews on the induction variable, 2-4 barrier-separated stages of copies and kernels over tile buffers, many buffer-to-stage assignments, constant and dynamic lb/ub/step, trip counts 0..7) are pushed through the real construct-pipeline, pipeline-duplicate-buffers and unroll-pipeline; the original and the pipelined program are executed on the logical buffer machine (poisoned allocations, unique symbols in the external buffers). The multiset of stage executions (op id, external regions read/written, digest of the data read) and the final external contents must be equal, and inside every barrier epoch of the pipelined program no copy (data-mover core) and kernel (compute core) may touch intersecting regions with a write - which extends the program-order result to every interleaving the barriers permit.",
    TB + "logical buffer machine / trace machine; core roles from the generator's tags; one known finding (dynamic upper bound with fewer iterations than stages-1) attributed by predicate + counterfactual guard (vf/counterfactual/pipeline_guard.py); unsupported buffer assignments are refused by the compiler (counted).",
    "runtime monitoring: before/after execution with exactly-once event multisets, final-state comparison and a barrier-epoch race detector on the pipelined program",
    "DESIGN.md section 3 C15",
)
