TB = "Trusted base: xDSL 0.70 compatibility shim (vf/compat.py); interpreter vf/interp/core.py; "
chk(
    "C01",
    "translation_validation",
    "Every generated program is pushed through the real accfg-trace-states and accfg-dedup (hoist on/off) and executed before and after on an accfg register machine for several runtime vectors; launch/await sequences and the register file latched by each launch are compared. Holds on the executions observed (counts in evidence), sampled not exhaustive.",
    TB + "accfg machine vf/interp/accfg_m.py (launch latches the register file, a setup writes exactly its fields, unannotated calls poison all registers). Pass crashes/timeouts are rejections.",
    "runtime monitoring: before/after execution traces of the real pass on an abstract register machine (launch-trace comparison, poison values, unique markers)",
    "DESIGN.md section 3 C01",
)
chk(
    "C07",
    "exploration",
    "The traced program is executed on the accfg machine with a claim hook (real infer_state_of evaluated at every definition of a state value, each in-scope claim compared with the concrete register file, at every loop iteration) and a linearity hook (state tokens must match the setup/clobber that really executed last). Sampled over programs and runtime vectors.",
    TB + "accfg machine; the oracle's own rule for which ops may reconfigure an accelerator; claims naming SSA values that do not dominate the point are vacuous.",
    "runtime monitoring: hooked invariants (analysis claim vs concrete register state) during execution on an abstract machine",
    "DESIGN.md section 3 C07",
)
chk(
    "C06",
    "translation_validation",
    "Every generated program is traced and deduplicated (and also left undeduplicated) by the real passes, then run through the real accfg-config-overlap and executed before and after on the accfg register machine for several runtime vectors (lb!=0, step!=1, loop-carried operands, trip counts 0..5); launch/await order, launch values and the register file latched by each launch are compared, a moved op reading an unbound value (dynamic dominance monitor) or a verifier failure is a violation.",
    TB + "accfg machine. One known finding (extra next-iteration setup after the last iteration) is attributed by a structural predicate plus a counterfactual re-run with a guarded pattern (vf/counterfactual/overlap.py).",
    "runtime monitoring: before/after execution traces of the real pass on an abstract register machine, dynamic use-before-def monitor",
    "DESIGN.md section 3 C06",
)
chk(
    "C04",
    "translation_validation",
    "accfg programs over real accelerator instances (hwpe_mult, alu, gemmx, xdma configurations, gemmini) are executed on the accfg machine before and on a CSR/RoCC instruction machine after the real convert-accfg-to-csr; the logs are cut at launches/awaits and compared (one write per configured field at the declared address with the field's value, launch writes in order, await polls the declared barrier and terminates, RoCC instructions carry the values in effect for both operands); the module is walked for surviving state values; register maps of enumerated configurations are checked for injectivity including reserved registers (exhaustive over the uniform configuration box).",
    TB + "accfg machine, CSR machine vf/interp/csr_m.py with the status protocol per barrier class from the C snippets in snaxc/accelerators/snax.py; reserved-register rule from the get_streamer_launch_dict docstring and the xDMA multicast gap; injectivity is not demanded of the RoCC accelerator (rs1/rs2 share a funct7 by design).",
    "runtime monitoring: event-log comparison of the program before/after the real lowering on abstract CSR machines; invariant check on generated register maps",
    "DESIGN.md section 3 C04",
)
chk(
    "C08",
    "translation_validation",
    "For generated accelerator instances (alu, gemmx geometries, xDMA extension subsets) a streaming region with pairwise distinct marker bounds/strides and distinct kernel parameters is lowered by the real convert-linalg-to-accfg; the emitted program is executed on the accfg machine and the register file latched by the launch is compared field by field, by name, with a reference dictionary written from the property statement (padding, reuse collapse, masks, flags, packed gemmx parameters decoded by bit position, loop counts vs stream steps); value count and declared order are checked as well.",
    TB + "accfg machine; reference meaning of each field as listed in the evidence assumptions; alu_mode and the xDMA bypass polarity are only checked for position; a boolean written as 1 or all-ones is accepted (xDSL version drift).",
    "runtime monitoring: unique-marker tracing of generated configuration values into named registers, compared with an independent by-name reference",
    "DESIGN.md section 3 C08",
)
chk(
    "C05",
    "translation_validation",
    "memref.copy between generated layout pairs (row-major, strided with offsets, tiled-strided with several tile levels, paddings, dynamic bounds/steps) is lowered by the real snax-copy-to-dma and the emitted arith/scf/func.call code is executed on a byte-level DMA machine with runtime descriptors; every destination element must hold the tags of the corresponding source element at the address given by an independent reference layout function, reads/writes must stay inside the footprints, conflicting writes are reported.",
    TB + "DMA machine vf/interp/dma_m.py (snrt_dma_start_1d/2d semantics from runtime/include/snax_rt.h); reference layout function vf/ref/layout.py; dynamic strides are only judged when they follow the compiler's documented contiguity assumption (others are out of domain).",
    "runtime monitoring: execution of the emitted DMA loop nests on a byte-memory machine with unique byte tags, compared against a reference layout function",
    "DESIGN.md section 3 C05",
)
chk(
    "C09",
    "exploration",
    "Every snax.layout_cast result type produced by the real set-memory-layout (tiled=true and false) on schedules from the real scheduler (gemmx matmul/gemm/rescale/conv-like, alu, xdma operations) and on synthetic matmul-like schedules (1-2 tiling levels, any outer dimension order, widths 8..64) is certified by enumeration with an independent reference layout function: pairwise distinct element addresses and tile bounds that cover exactly the shape; schedule ops with an explicit #tsl operand must be left untouched.",
    TB + "reference layout function vf/ref/layout.py. Schedules that do not cover their operand are out of domain.",
    "runtime monitoring: result certification of the real pass's output (enumeration of the chosen layout against a reference address function)",
    "DESIGN.md section 3 C09",
)
chk(
    "C02",
    "translation_validation",
    "Generated dart.operation ops (alu, gemmx matmul/gemm/rescale/conv-like, xdma add; compiler-chosen tiled/untiled layouts, given strided and #tsl layouts) are pushed through the real scheduler, layout passes, dart-layout-resolution and convert-dart-to-snax-stream; the dart.schedule entering layout resolution and the final snax_stream.streaming_region are captured at the pass boundary; for every operand the byte set the schedule assigns to each temporal step (reference layout function, incl. the layout offset) is compared with the byte set a streamer machine fetches for that step (temporal nest x spatial ports x 8-byte words).",
    TB + "streamer machine (address generation loop of the StridePattern docstring / streamer.md), reference layout function; compiler refusals and conversions that emit the converter's non-contiguous warning are counted, not judged; four known findings are attributed by predicate + counterfactual.",
    "runtime monitoring: pass-boundary capture plus enumeration of the generated address streams on an abstract streamer, compared step by step with the scheduled element stream",
    "DESIGN.md section 3 C02",
)
chk(
    "C11",
    "translation_validation",
    "(a) the size computation emitted by the real memref-to-snax for allocations of generated layouts (none / tiled-strided with gaps, offsets, dynamic bounds) is interpreted with runtime sizes and compared with the highest address of an independent reference layout function; (b) functions with several allocations, views and nested uses are allocated by the real snax-allocate (static, minimalloc, auto) and then executed: from the trace of buffer uses, buffers whose address ranges intersect must not have interleaved lifetimes, nothing is used after an inserted dealloc, every pointer is aligned and inside the memory window.",
    TB + "reference layout function; the absent third-party minimalloc solver is replaced by an adversarial maximally-reusing reference stand-in (vf/stubs/minimalloc.py, self-tested against the upstream expectation): the repo's lifetime computation, alignment/capacity handling and address materialisation are what is monitored, not the solver.",
    "runtime monitoring: interpretation of emitted size code; execution trace of buffer uses checked offline for overlap of live address ranges (hostile allocator)",
    "DESIGN.md section 3 C11",
)
chk(
    "C19",
    "exploration",
    "Differential monitors on the real functions over seeded inputs: canonicalize_expr/canonicalize_map (evaluation equal on a full small box plus random points, idempotent, RecursionError/watchdog = violation), AffineTransform.from_affine_map/to_affine_map/compose/eval against direct integer arithmetic, AccessPattern.canonicalize/inner_dims (same access sequence / equals the restriction), StridePattern.canonicalize (identical temporal address sequence and spatial set incl. zero/unit bounds and zero strides) and print->parse, pack_bitlist (emitted arith ops verified and interpreted == OR_i(v_i<<o_i) mod 2^w for int/SSA/Operation inputs, lengths 0..9), StreamerConfigurationAttr print->parse compared structurally. Held on the executions observed (per-function call/evaluation counters in evidence); sampled, not exhaustive.",
    TB + "oracle-side affine evaluator and generators in vf/gen/affine_gen.py; index 0 = innermost temporal loop. One known finding (streamer-config text form drops the system type) attributed by predicate (only `system` differs, config not reg) + counterfactual vf/counterfactual/streamer_text.py. Exceptions of the functions under test are rejections.",
    "runtime monitoring: differential evaluation / contracts on real pure functions, interpretation of emitted ops, print-parse round trips",
    "DESIGN.md section 3 C19",
)
chk(
    "C10",
    "exploration",
    "Every generated tiled-strided layout (exhaustive small box: quick samples it, thorough enumerates all 48 984; random up to rank 4 x depth 3 with unit bounds, repeated steps, offsets, dynamic outermost bound/step/offset) is compared at every logical index with the independent reference function (vf/ref/layout.py) through each real view: get_affine_map, get_bound_ops/get_step_ops (emitted ops interpreted at concrete runtime shapes/strides, elements and bytes, tsl and strided memrefs), all_values/self_overlaps/is_dense, print->parse through the xDSL parser, from_strides, canonicalize (function, shape, idempotence), largest_common_contiguous_block (contiguous chain from the starting stride, each stride at a common (dim,depth)), and the real convert-memref-to-arith pass on subviews of TSL memrefs (pointer difference interpreted for 4 runtime vectors). Held on the executions observed apart from the listed known findings.",
    TB + "reference layout function vf/ref/layout.py incl. the dynamic-step contiguity convention; memref.dim/extract_strided_metadata handlers in vf/checks/C10.py; aligned pointer excludes the layout offset. Known findings are attributed by structural predicate + counterfactual (vf/counterfactual/tsl_views.py). Steps of 0 are out of domain (counted only).",
    "runtime monitoring: differential views of the real layout code against an independent reference, interpretation of emitted ops, pass-level pointer validation",
    "DESIGN.md section 3 C10",
)
chk(
    "C12",
    "translation_validation",
    "Generated functions (arguments, allocations, dense globals; 1-5 accelerator ops with ins/outs in any order incl. writer-before-reader on the same buffer; loops with trip counts 0..3; layout casts inserted per op after set-memory-space as set-memory-layout does) are executed on a logical buffer machine before (casts are aliases) and after the real set-memory-space + realize-memref-casts; the digest of the data every accelerator op reads (poison = uninitialised), the final contents of all externally visible buffers and returned memrefs must be equal; after set-memory-space every accelerator operand must be in L1 and function boundaries keep L3; re-laid-out dense globals are decoded with the reference layout function inside the machine.",
    TB + "logical buffer machine vf/interp/buf_m.py (ins read, outs written, other operands both); neutral direct readers of the original buffers only after the last accelerator op (direct accesses between two uses of a cast are outside what one copy-in/copy-out can serve); one known finding (several stand-ins of one buffer) attributed by predicate + counterfactual realisation with per-use copies.",
    "runtime monitoring: before/after execution on a symbolic buffer-contents machine with poisoned allocations; consumer logs and final external contents compared",
    "DESIGN.md section 3 C12",
)
